#!/usr/bin/env python3
"""Regenerates MANIFEST.json from checkconf.py (claimed checks) and
manifest_meta.py (levels, notes, not_applicable reasons)."""
import json, os, sys
sys.path.insert(0, os.path.dirname(os.path.abspath(__file__)))
from checkconf import PROPS
from manifest_meta import META, NOT_APPLICABLE

GOENV = "GOFLAGS=-mod=mod GOPROXY=off GOSUMDB=off GOTOOLCHAIN=local"
ids = ["C%02d" % i for i in range(1, 21)]
checks = []
for i in ids:
    if i not in PROPS:
        continue
    m = META[i]
    checks.append({
        "property_id": i,
        "quick_cmd": "./check %s --tier quick" % i,
        "thorough_cmd": "./check %s --tier thorough" % i,
        "evidence_file": "/verif/evidence/%s.json" % i,
        "replay_cmd_template": "./check %s --replay {path}" % i,
        "engine": "harness",
        "level_claimed": {"category": PROPS[i]["level"], "text": m["text"], "design_ref": "DESIGN.md section 3, " + i},
        "level_note": m["note"],
        "technique": m["technique"],
    })
na = [{"property_id": i, "reason": NOT_APPLICABLE.get(i, "check not built yet (framework under construction); will be claimed once it passes the registration rule of DESIGN.md section 5")} for i in ids if i not in PROPS]
man = {
    "version": 1,
    "setup_cmd": "cd /verif/harness && env %s go test -c -tags verif -o /dev/null ./props && env %s go test -race -c -tags verif -o /dev/null ./props" % (GOENV, GOENV),
    "hooks": {
        "guard": "verif",
        "enable": "go test -tags verif (no hook commits exist: every property is observable through the public API, so the tag currently guards nothing)",
        "baseline_off_cmd": "cd /repo && env %s go test -vet=off -count=1 ./..." % GOENV,
        "source_commits": [],
        "add_only": True,
    },
    "engines": [{
        "name": "harness",
        "path": "/verif/harness",
        "serves_properties": [c["property_id"] for c in checks],
        "kind_free_text": "Go module with independent reference CBOR/COSE implementations, rapid generators and per-property oracles; driven by /verif/check (python3) which builds it against /repo's working tree, shards rapid by derived seed, runs native go fuzzing in the thorough tier, merges statistics into evidence",
    }],
    "checks": checks,
    "notes": "All checks decide their property by generated-input search (property-based testing with pgregory.net/rapid, exhaustive enumeration of small finite grids/fault vectors, coverage-guided go fuzzing in the thorough tier) against explicit oracles. Known findings: /verif/known-findings.txt.",
    "not_applicable": na,
}
json.dump(man, open(os.path.join(os.path.dirname(os.path.abspath(__file__)), "MANIFEST.json"), "w"), indent=1)
print("MANIFEST.json: %d checks, %d not_applicable" % (len(checks), len(na)))
