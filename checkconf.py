"""Per-property configuration of the check driver: parts (test functions run
as separate processes, sharded by derived rapid seed), budgets, evidence rule,
required classes. See DESIGN.md section 3 for the per-property design."""

COMMON_ASSUMPTIONS = [
    "Go crypto/*, math/big, reflect and pgregory.net/rapid v1.3.0 are correct",
    "the harness' reference CBOR parser/encoder and RFC 9052/9338 structure builders (harness/refcbor, harness/refcose) are correct; they are validated against go-cose on the unchanged tree and against the GlueCOSE vectors",
    "held on all generated cases: nothing is proved beyond the explored inputs",
]

PROPS = {
    "C13": {
        "level": "exploration",
        "exhaustive": True,
        "rule": "exhaustive grids, split over shards: (1) single parameter: 25 labels (19 registered, unknown int/negative/unassigned, tstr, empty tstr) x 29 value kinds (uint, zero, negative, six text shapes, bstr, arrays of labels incl. the label itself, map, bool, null, float, countersignature object / with headers / list / list of 3 / [null] / crit inside its unprotected / empty signature / 2-array) x {protected, unprotected} x 7 contexts (bare ProtectedHeader / UnprotectedHeader, Sign1, untagged Sign1, Signature, Countersignature, COSE_Sign body) x every fitting Go integer spelling of the label; (2) IV and Partial IV in every bucket combination x 10x10 spellings x contexts; (3) crit with 8x9 entry combinations (present/absent int and text labels, bstr, float, null, crit itself) x 10x10 spellings of crit entry and referenced key, also placed in unprotected; (4) a conforming registered parameter next to any second parameter/value in the same bucket; plus rapid-random conforming headers (up to 20 entries, random spellings) with 0-3 rule-relevant edits. Oracle per cell: V_enc = library verdict on encoding the Go value, V_dec = library verdict on decoding the reference encoding of the same abstract header set, V_ref = reference RFC 9052 3.1 verdict; asserted: accepted in either direction => V_ref ok; V_enc == V_dec; V_enc identical when all labels are re-spelt with each of the 10 Go integer types. Non-trivial = every grid cell (each involves a registered label, a pair rule or a label/value type rule) and every random case with at least one edit; distinct by cell id / header hash.",
        "parts": [
            {"test": "TestC13_Grid", "quick": 1, "thorough": 1, "shards_quick": 8, "shards_thorough": 8},
            {"test": "TestC13_Random", "quick": 2500, "thorough": 60000, "shards_quick": 4, "shards_thorough": 16},
        ],
        "required_classes": ["verdict/accepted", "verdict/refused", "ctx/protected", "ctx/unprotected", "ctx/sign1", "ctx/untagged", "ctx/signature",
                             "ctx/countersignature", "ctx/sign-body", "edits/0", "edits/1", "edits/2", "edits/3"],
        "assumptions": COMMON_ASSUMPTIONS + ["'valid => accepted' is not asserted here (C07 owns it); the library is stricter than RFC 9052 on textual content types (exactly one '/', no outer blanks), counted as refused-though-conforming"],
    },
    "C04": {
        "level": "exploration",
        "exhaustive": True,
        "rule": "exhaustive grid of the algorithm-agreement model: structure in {Sign1, untagged Sign1, Signature, Countersignature, hash envelope} x message origin in {constructed, decoded from reference-built wire, caller-supplied RawProtected with mirrored map, caller-supplied RawProtected only} x {sign, verify} x signer/verifier algorithm in {-7, -8, -37, private-use -65537, 7} (spy keys) x external data in {nil, empty, non-empty} x header alg in {absent, 11 integer values incl. every built-in, 0, private-use, MinInt64, tstr, empty tstr, bstr, float, bool, null, array} x (constructed only) 10 Go spellings of label 1 x every fitting Go spelling of the value; plus rapid-random cells where the alg entry sits among up to 30 other generated protected parameters. Oracle = model of the statement: alg present and different => error, key never invoked, ErrAlgorithmMismatch for signed-integer values; alg absent without external data => Verify fails with the key not invoked, Sign fails or the recorded ToBeSigned AND the emitted message carry 1: signer alg (same bytes); success => exactly one key invocation; decoded messages hold alg typed as Algorithm equal to the integer in the protected bytes. Non-trivial = cell with alg present-and-different or absent-without-external-data; distinct by cell id.",
        "parts": [
            {"test": "TestC04_Grid", "quick": 1, "thorough": 1, "shards_quick": 1, "shards_thorough": 1},
            {"test": "TestC04_Random", "quick": 6000, "thorough": 100000, "shards_quick": 4, "shards_thorough": 16},
        ],
        "required_classes": ["refused/mismatch", "refused/alg-absent", "alg-injected", "proceeds/equal", "proceeds/absent-with-external",
                             "struct/Sign1", "struct/Untagged", "struct/Signature", "struct/Countersignature", "struct/HashEnvelope",
                             "mode/constructed", "mode/decoded", "mode/raw+map", "mode/raw-only"],
        "assumptions": COMMON_ASSUMPTIONS + ["the grid is exhaustive only over its stated finite abstraction of alg values and spellings", "the error class ErrAlgorithmMismatch is asserted only for alg values spelt with a signed Go integer type or cose.Algorithm"],
    },
    "C03": {
        "level": "exploration",
        "rule": "rapid draws a conforming message of any kind (Sign1 tagged/untagged, Sign with 1..4 signers, nested countersignatures; all 7 algorithms; peer encoder choices) signed by the reference implementation, then one attack class: 1-2 structure-aware tree/byte faults biased to stay decodable (content bit flips, truncation, head-width and key-order changes, parameters added/moved between buckets, declared counts, ...), a signature rewrite (DER, (r, n-s), zero-extended / minimal / swapped halves, truncate, extend, bit flip), changed external data (nil<->empty, replaced, dropped, flipped), another key / another algorithm / same key under another algorithm / permuted verifiers, re-tagging (18<->none, COSE_Signature presented as Sign1), transplant of one envelope field from a second message signed with the same keys, or no change. Oracle: whenever the library decodes the bytes, for every message signature and every countersignature still present, library verdict (nil / error) == reference verdict computed from the received bytes (non-empty signature, alg rule on the received protected map, crypto/* verification of the reference Sig_structure / Countersign_structure); both directions are failures. Non-trivial = something was changed (bytes, external data or key) and the message stayed decodable so that verdicts were compared; distinct by hash of (wire, external, class, keys). Thorough adds rapid.MakeFuzz under the native fuzzer.",
        "parts": [
            {"test": "TestC03_Mutants", "quick": 1500, "thorough": 40000, "shards_quick": 8, "shards_thorough": 16},
            {"fuzz": "FuzzC03", "fuzztime": "180s", "thorough_only": True},
        ],
        "required_classes": ["nontrivial/verdict-flipped", "nontrivial/verdict-preserved", "verdict/valid", "verdict/bad-signature", "verdict/alg-mismatch",
                             "verdict/alg-absent", "verdict/csig-valid", "verdict/csig-bad-signature", "verdict/csig0-valid", "verdict/csig0-bad-signature",
                             "class/tree", "class/signature", "class/external", "class/key", "class/retag", "class/transplant",
                             "alg/ES256/valid", "alg/ES384/valid", "alg/ES512/valid", "alg/EdDSA/valid", "alg/PS256/valid", "alg/PS384/valid", "alg/PS512/valid",
                             "alg/ES256/bad-signature", "alg/ES384/bad-signature", "alg/ES512/bad-signature", "alg/EdDSA/bad-signature", "alg/PS256/bad-signature"],
        "assumptions": COMMON_ASSUMPTIONS + ["unforgeability is assumed: 'any change => error' is decided by the reference verifier built on the same crypto/* primitives", "mutated inputs the library refuses to decode are C05's business and only counted"],
    },
    "C05": {
        "level": "exploration",
        "rule": "rapid draws a valid encoding of one of the 7 decodable kinds (Sign1, untagged Sign1, Sign, Signature, Countersignature, protected bucket, unprotected bucket; peer encoder choices; nested countersignatures up to 3 levels) and applies 1-3 faults at drawn nodes of its CBOR tree, protected-header contents included (retype, tag-wrap, indefinite length, head width, wrong declared count, duplicate key in another width, add/remove/swap element, inject any registered parameter with a conforming or non-conforming value, move a parameter between buckets, out-of-range or non-label key, bytes after the item / inside the protected bstr, change of major type, content and integer edits, byte-level flip/insert/delete/truncate/append). The same bytes are offered to all 7 decoders. Oracle: decoder accepts => the independent reference judge finds the input well-formed for that decoder exactly in the sense of the property statement. Non-trivial = the input differs from its seed and either some decoder accepted it (the implication was evaluated on a new input) or the reference finds it ill-formed for the seed's own kind (a rejection rule was put to the test); distinct by hash of the input. Thorough adds coverage-guided native fuzzing with the same oracle inside the target (seeded and empty corpus).",
        "parts": [
            {"test": "TestC05_Mutants", "quick": 5000, "thorough": 120000, "shards_quick": 6, "shards_thorough": 16},
            {"test": "TestC05_Valid", "quick": 500, "thorough": 5000, "shards_quick": 1, "shards_thorough": 2},
            {"fuzz": "FuzzC05", "fuzztime": "150s", "thorough_only": True},
            {"fuzz": "FuzzC05", "fuzztime": "60s", "thorough_only": True, "noseeds": True},
        ],
        "required_classes": ["accepted/Sign1", "accepted/Sign1Untagged", "accepted/Sign", "accepted/Signature", "accepted/Countersignature",
                             "accepted/ProtectedHeader", "accepted/UnprotectedHeader",
                             "rejected-illformed-clause/trailing", "rejected-illformed-clause/indefinite", "rejected-illformed-clause/tag",
                             "rejected-illformed-clause/shape", "rejected-illformed-clause/payload", "rejected-illformed-clause/signature",
                             "rejected-illformed-clause/protected", "rejected-illformed-clause/unprotected", "rejected-illformed-clause/label",
                             "rejected-illformed-clause/dup-key", "rejected-illformed-clause/alg", "rejected-illformed-clause/crit",
                             "rejected-illformed-clause/cty", "rejected-illformed-clause/bstr-param", "rejected-illformed-clause/csig-bucket",
                             "rejected-illformed-clause/csig-value", "rejected-illformed-clause/iv",
                             "fault-depth/0", "fault-depth/1", "fault-depth/2", "fault-depth/3", "fault-depth/4", "fault-depth/5", "fault-depth/6"],
        "assumptions": COMMON_ASSUMPTIONS + ["only the direction 'accepted => well-formed' is judged; well-formed inputs that are refused (documented limits: integers beyond int64, registered tags, invalid UTF-8, unhashable nested map keys) are counted, not judged"],
    },
    "C06": {
        "level": "exploration",
        "rule": "inputs: the C05 mutants (all 7 message/signature/header kinds), mutated and unmutated COSE_Keys (EC2 P-256/384/521, OKP, symmetric, custom kty; key-specific parameter faults), random bytes, deep nesting / huge declared lengths. Each input is given to all 9 entry points (7 decoders, Key.UnmarshalCBOR, VerifyHashEnvelope) inside recover; every value a decoder returned is then re-encoded (raw bytes kept and discarded), verified with verifiers of 5 algorithm families with and without external data, countersigned (full and abbreviated, pointer and value parents), all nested countersignatures verified, header accessors called, re-signed; keys: every accessor, PublicKey/PrivateKey/Signer/Verifier and a Sign/Verify with the results. Oracle: no panic anywhere; decoding an input <= 64 KiB finishes within 5 s (re-measured 3 times before it counts). Non-trivial = at least one entry point decoded the input so that follow-ups ran; distinct by hash of the input. Thorough adds native fuzzing of the same target.",
        "parts": [
            {"test": "TestC06_Mutants", "quick": 2500, "thorough": 60000, "shards_quick": 6, "shards_thorough": 16},
            {"fuzz": "FuzzC06", "fuzztime": "150s", "thorough_only": True},
            {"fuzz": "FuzzC06", "fuzztime": "60s", "thorough_only": True, "noseeds": True},
        ],
        "required_classes": ["decoded/Sign1", "decoded/Sign1Untagged", "decoded/Sign", "decoded/Signature", "decoded/Countersignature",
                             "decoded/ProtectedHeader", "decoded/UnprotectedHeader", "decoded/Key", "op/random-bytes", "op/deep-nesting"],
        "assumptions": COMMON_ASSUMPTIONS + ["promptness is checked against a 5 s deadline on inputs up to 64 KiB only"],
    },
    "C01": {
        "level": "exploration",
        "rule": "rapid draws an abstract message (Sign1 tagged/untagged incl. the Sign1()/Sign1Untagged() helpers, COSE_Sign with 1..6 signers, full and abbreviated countersignatures over Sign1/Sign/Signature/Countersignature parents as pointer and value, constructed or decoded parent, up to 3 levels; hash envelopes), headers from the data model with random Go spellings, payload/external lengths on the CBOR head boundaries, all 7 built-in algorithms with keys from drawn scalars / RSA fixtures (a fifth via COSE_Key round trip). Oracle: library Sign ok => library Verify ok in memory, after MarshalCBOR/UnmarshalCBOR (detached payload restored), for every layer, and the independent reference verifier accepts the same wire bytes. Non-trivial = signing succeeded and the wire round trip was verified; distinct by hash of the abstract case (hash envelopes: wire without signature).",
        "parts": [
            {"test": "TestC01_Random", "quick": 600, "thorough": 12000, "shards_quick": 6, "shards_thorough": 16},
            {"test": "TestC01_HashEnvelope", "quick": 800, "thorough": 15000, "shards_quick": 2, "shards_thorough": 8},
        ],
        "required_classes": ["roundtrip/Sign1", "roundtrip/Sign1Untagged", "roundtrip/Sign", "helper", "hash-envelope", "decoded-parent",
                             "roundtrip-detached", "key-via-COSE_Key", "protected-len/<24", "protected-len/24-255", "protected-len/>=256",
                             "roundtrip-alg/ES256", "roundtrip-alg/ES384", "roundtrip-alg/ES512", "roundtrip-alg/EdDSA",
                             "roundtrip-alg/PS256", "roundtrip-alg/PS384", "roundtrip-alg/PS512",
                             "csig/Sign1/full", "csig/Sign1/abbreviated", "csig/Sign/full", "csig/Sign/abbreviated",
                             "csig/Signature/full", "csig/Signature/abbreviated", "csig/Countersignature/full", "csig/Countersignature/abbreviated"],
        "assumptions": COMMON_ASSUMPTIONS,
    },
    "C07": {
        "level": "exploration",
        "rule": "rapid draws a conforming message from the data model (Sign1/untagged/Sign with 1..6 signers, 0..40 header entries, nested countersignatures single/list/abbreviated up to 3 levels, all 7 algorithms) and a peer encoder's choices (head widths, key orders, h''/h'a0'); the reference signs over the wire bytes. Non-trivial = at least one real encoder choice was made (wire differs from the deterministic encoding); distinct by hash of the wire bytes.",
        "parts": [
            {"test": "TestC07_Random", "quick": 700, "thorough": 25000, "shards_quick": 4, "shards_thorough": 16},
        ],
        "required_classes": ["choice/non-minimal-head", "choice/key-order", "choice/empty-protected-a0",
                             "kind/Sign1", "kind/Sign1Untagged", "kind/Sign", "with-countersignatures",
                             "alg/ES256", "alg/ES384", "alg/ES512", "alg/EdDSA", "alg/PS256", "alg/PS384", "alg/PS512",
                             "protected-len/>=256", "signers>=3"],
        "assumptions": COMMON_ASSUMPTIONS,
    },
    "C08": {
        "level": "exploration",
        "rule": "rapid draws in-memory messages (Sign1/untagged/Sign, 0..40 header entries per bucket with random Go integer spellings, nested containers, countersignatures single/list/abbreviated, alg present or to be injected) and bare header buckets; every layer is signed by a spy signer so the bytes are predictable. Oracle: output == reference deterministic encoding of the abstract value, identical over 8 repetitions and over reversed map insertion order, canonical features re-checked by the reference parser (also inside every protected bstr), signed protected bytes == emitted protected bytes, decoder accepts and re-encodes identically with raw bytes kept and discarded. Non-trivial = some map has >= 2 keys whose insertion order differs from the sorted order; distinct by hash of the abstract case.",
        "parts": [
            {"test": "TestC08_Messages", "quick": 1500, "thorough": 40000, "shards_quick": 4, "shards_thorough": 16},
            {"test": "TestC08_Headers", "quick": 2000, "thorough": 40000, "shards_quick": 2, "shards_thorough": 8},
        ],
        "required_classes": ["insertion-order!=sorted-order", "entries/>=20", "with-countersignatures", "alg-injected",
                             "encoded/Sign1", "encoded/Sign1Untagged", "encoded/Sign", "header-buckets"],
        "assumptions": COMMON_ASSUMPTIONS,
    },
    "C02": {
        "level": "exploration",
        "rule": "three generators: (1) in-memory messages of every kind signed layer by layer with recording signers (ToBeSigned compared byte for byte with the reference Sig_structure/Countersign_structure built from the abstract message, incl. alg injection; metamorphic re-run with the other tag form, nil<->empty external data and different unprotected headers), (2) peer-encoded wire messages decoded and verified with recording verifiers (expected structure computed from the wire bytes located by the reference parser), (3) user-supplied RawProtected items with arbitrary head width. Non-trivial = a recorded ToBeSigned was compared and, for decoded/raw cases, the message was not deterministically encoded (non-minimal protected head or non-canonical inner map); distinct by hash of the ToBeSigned bytes.",
        "parts": [
            {"test": "TestC02_Constructed", "quick": 1500, "thorough": 40000, "shards_quick": 3, "shards_thorough": 12},
            {"test": "TestC02_Decoded", "quick": 2000, "thorough": 50000, "shards_quick": 3, "shards_thorough": 12},
            {"test": "TestC02_Raw", "quick": 3000, "thorough": 50000, "shards_quick": 2, "shards_thorough": 4},
        ],
        "required_classes": ["context/Signature1", "context/Signature", "protected-len/0", "protected-len/<24", "protected-len/24-255", "protected-len/>=256",
                             "decoded/non-canonical-inner-map", "decoded/non-minimal-protected-head", "signer-index>=2", "raw/non-minimal-head",
                             "metamorphic-tag-ext", "metamorphic-tag-ext-unprotected"],
        "assumptions": COMMON_ASSUMPTIONS,
    },
}
