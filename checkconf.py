"""Per-property configuration of the check driver: parts (test functions run
as separate processes, sharded by derived rapid seed), budgets, evidence rule,
required classes. See DESIGN.md section 3 for the per-property design."""

COMMON_ASSUMPTIONS = [
    "Go crypto/*, math/big, reflect and pgregory.net/rapid v1.3.0 are correct",
    "the harness' reference CBOR parser/encoder and RFC 9052/9338 structure builders (harness/refcbor, harness/refcose) are correct; they are validated against go-cose on the unchanged tree and against the GlueCOSE vectors",
    "held on all generated cases: nothing is proved beyond the explored inputs",
]

PROPS = {
    "C07": {
        "level": "exploration",
        "rule": "rapid draws a conforming message from the data model (Sign1/untagged/Sign with 1..6 signers, 0..40 header entries, nested countersignatures single/list/abbreviated up to 3 levels, all 7 algorithms) and a peer encoder's choices (head widths, key orders, h''/h'a0'); the reference signs over the wire bytes. Non-trivial = at least one real encoder choice was made (wire differs from the deterministic encoding); distinct by hash of the wire bytes.",
        "parts": [
            {"test": "TestC07_Random", "quick": 700, "thorough": 25000, "shards_quick": 4, "shards_thorough": 16},
        ],
        "required_classes": ["choice/non-minimal-head", "choice/key-order", "choice/empty-protected-a0",
                             "kind/Sign1", "kind/Sign1Untagged", "kind/Sign", "with-countersignatures",
                             "alg/ES256", "alg/ES384", "alg/ES512", "alg/EdDSA", "alg/PS256", "alg/PS384", "alg/PS512",
                             "protected-len/>=256", "signers>=3"],
        "assumptions": COMMON_ASSUMPTIONS,
    },
}
