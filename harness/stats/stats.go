// Package stats collects, per test process, what a check actually covered:
// evaluations, distinct non-trivial cases (64-bit hashes), class histogram,
// samples, exclusions, known-finding hits. It is written to the file named by
// VERIF_STATS_OUT when the test finishes and merged across shards by the
// driver.
package stats

import (
	"encoding/binary"
	"encoding/json"
	"hash/fnv"
	"os"
	"sort"
	"sync"
)

type Stats struct {
	mu         sync.Mutex
	Property   string            `json:"property"`
	Evals      int64             `json:"evaluations"`
	Classes    map[string]int64  `json:"classes"`
	Excluded   map[string]int64  `json:"excluded"`
	Known      map[string]int64  `json:"known_hits"`
	KnownLines []string          `json:"known_lines"`
	Samples    []any             `json:"samples"`
	Exhaustive map[string]int64  `json:"exhaustive_parts"`
	Notes      map[string]string `json:"notes"`
	Violations int               `json:"violations"`
	nt         map[uint64]struct{}
	sampleCap  int
	sampleSeen map[string]int
}

// S is the process-wide collector.
var S = New()

func New() *Stats {
	return &Stats{
		Classes: map[string]int64{}, Excluded: map[string]int64{}, Known: map[string]int64{},
		Exhaustive: map[string]int64{}, Notes: map[string]string{},
		nt: map[uint64]struct{}{}, sampleCap: 12, sampleSeen: map[string]int{},
	}
}

// Reset clears the collector (used between properties in one process).
func Reset(property string) {
	S = New()
	S.Property = property
}

// Eval counts one oracle evaluation.
func Eval() { S.mu.Lock(); S.Evals++; S.mu.Unlock() }

// EvalN counts n oracle evaluations.
func EvalN(n int) { S.mu.Lock(); S.Evals += int64(n); S.mu.Unlock() }

// Hash64 hashes the concatenation of parts.
func Hash64(parts ...[]byte) uint64 {
	h := fnv.New64a()
	var l [8]byte
	for _, p := range parts {
		binary.LittleEndian.PutUint64(l[:], uint64(len(p)))
		h.Write(l[:])
		h.Write(p)
	}
	return h.Sum64()
}

// NT records a non-trivial case by its hash.
func NT(h uint64) { S.mu.Lock(); S.nt[h] = struct{}{}; S.mu.Unlock() }

// NTBytes records a non-trivial case identified by the given byte parts.
func NTBytes(parts ...[]byte) { NT(Hash64(parts...)) }

// Class bumps a class counter.
func Class(name string) { S.mu.Lock(); S.Classes[name]++; S.mu.Unlock() }

// ClassN adds n to a class counter.
func ClassN(name string, n int) { S.mu.Lock(); S.Classes[name] += int64(n); S.mu.Unlock() }

// Excluded counts something excluded by construction.
func Excluded(name string) { S.mu.Lock(); S.Excluded[name]++; S.mu.Unlock() }

// KnownHit counts an occurrence of a listed known finding.
func KnownHit(key string) { S.mu.Lock(); S.Known[key]++; S.mu.Unlock() }

// KnownLine registers a KNOWN-FINDING line to be printed by the driver.
func KnownLine(line string) {
	S.mu.Lock()
	defer S.mu.Unlock()
	for _, l := range S.KnownLines {
		if l == line {
			return
		}
	}
	S.KnownLines = append(S.KnownLines, line)
}

// ExhaustivePart records that a finite space named part was enumerated
// completely with n elements.
func ExhaustivePart(part string, n int) { S.mu.Lock(); S.Exhaustive[part] = int64(n); S.mu.Unlock() }

// Note stores a free-text note.
func Note(k, v string) {
	S.mu.Lock()
	defer S.mu.Unlock()
	if _, ok := S.Notes[k]; !ok && len(S.Notes) >= 40 {
		return
	}
	if len(v) > 300 {
		v = v[:300]
	}
	S.Notes[k] = v
}

// Sample keeps up to a few samples per class tag (and a global cap).
func Sample(tag string, v any) {
	S.mu.Lock()
	defer S.mu.Unlock()
	if S.sampleSeen[tag] >= 2 || len(S.Samples) >= S.sampleCap {
		return
	}
	if b, err := json.Marshal(v); err != nil || len(b) > 2500 {
		return // keep evidence files readable: only small cases are sampled
	}
	S.sampleSeen[tag]++
	S.Samples = append(S.Samples, map[string]any{"class": tag, "case": v})
}

// Violation counts a violation.
func Violation() { S.mu.Lock(); S.Violations++; S.mu.Unlock() }

// Flush writes the collector to VERIF_STATS_OUT (JSON) and the non-trivial
// hash set to VERIF_STATS_OUT + ".nt" (8 bytes each, little endian).
func Flush() error {
	out := os.Getenv("VERIF_STATS_OUT")
	if out == "" {
		return nil
	}
	S.mu.Lock()
	defer S.mu.Unlock()
	type wire struct {
		*Stats
		DistinctNT int `json:"distinct_nontrivial"`
	}
	b, err := json.MarshalIndent(wire{S, len(S.nt)}, "", " ")
	if err != nil {
		return err
	}
	if err := os.WriteFile(out, b, 0o644); err != nil {
		return err
	}
	hs := make([]uint64, 0, len(S.nt))
	for h := range S.nt {
		hs = append(hs, h)
	}
	sort.Slice(hs, func(i, j int) bool { return hs[i] < hs[j] })
	buf := make([]byte, 8*len(hs))
	for i, h := range hs {
		binary.LittleEndian.PutUint64(buf[8*i:], h)
	}
	return os.WriteFile(out+".nt", buf, 0o644)
}
