package props

import (
	"bytes"
	"fmt"
	"testing"

	cose "github.com/veraison/go-cose"
	"pgregory.net/rapid"

	"verifharness/gen"
	rc "verifharness/refcbor"
	"verifharness/refcose"
	"verifharness/stats"
)

// c09Case: an accepted wire message and a history of decode / encode /
// discard-raw / verify steps applied to it.
type c09Case struct {
	Kind    refcose.Kind `json:"kind"`
	Wire    rc.Hex       `json:"wire"`
	HasSpec bool         `json:"has_spec"`
	Spec    gen.MsgSpec  `json:"spec"` // keys etc. when the wire was reference-built (HasSpec)
	Ops     []string     `json:"ops"`  // cycle, discard, verify, verify-envelope
	// EnvKey: the wire is a hash envelope signed with this key; "verify-envelope" obtains the
	// decoded message from VerifyHashEnvelope instead of UnmarshalCBOR
	EnvKey *refcose.KeyMat `json:"env_key,omitempty"`
}

// predictReencode computes, from the input bytes alone, what decoding and
// re-encoding must produce: every header bucket of every layer verbatim, only
// the length prefixes of payload / signature byte strings and the head of the
// signatures array in shortest form.
func predictReencode(kind refcose.Kind, wire []byte) ([]byte, error) {
	root, err := rc.MParse(wire, false)
	if err != nil {
		return nil, err
	}
	arr := root
	if kind == refcose.KSign1 || kind == refcose.KSign {
		if root.Major != 6 || root.Child == nil {
			return nil, fmt.Errorf("no tag")
		}
		arr = root.Child
	}
	min := func(m *rc.M) {
		if m.Verb == nil && m.Major >= 2 && m.Major <= 5 && m.W >= 0 {
			m.W = 0
		}
	}
	switch kind {
	case refcose.KSign1, refcose.KSign1Untagged:
		if arr.Major != 4 || len(arr.Items) != 4 {
			return nil, fmt.Errorf("shape")
		}
		min(arr.Items[2])
		min(arr.Items[3])
	case refcose.KSign:
		if arr.Major != 4 || len(arr.Items) != 4 || arr.Items[3].Major != 4 {
			return nil, fmt.Errorf("shape")
		}
		min(arr.Items[2])
		min(arr.Items[3])
		for _, s := range arr.Items[3].Items {
			if s.Major != 4 || len(s.Items) != 3 {
				return nil, fmt.Errorf("shape")
			}
			min(s.Items[2])
		}
	case refcose.KSignature, refcose.KCountersignature:
		if arr.Major != 4 || len(arr.Items) != 3 {
			return nil, fmt.Errorf("shape")
		}
		min(arr.Items[2])
	}
	return root.Enc(), nil
}

type anyMsg interface{ MarshalCBOR() ([]byte, error) }

func reencode(kind refcose.Kind, wire []byte, discard bool) ([]byte, error, error) {
	// the caller's buffer is its own again once the decoder has returned: it is overwritten before
	// the decoded message is encoded
	buf := append([]byte{}, wire...)
	v, err := decodeAnyFrom(kind, buf)
	if err != nil {
		return nil, err, nil
	}
	for i := range buf {
		buf[i] ^= 0xa5
	}
	if discard {
		discardAny(v)
	}
	out, err := v.(anyMsg).MarshalCBOR()
	return out, nil, err
}

type codecMsg interface {
	UnmarshalCBOR([]byte) error
	MarshalCBOR() ([]byte, error)
}

// reencodeUsed: like reencode, but the destination variable held another message (attached payload,
// a kid, a signature) before - a consumer decoding a stream of messages into one variable.
func reencodeUsed(kind refcose.Kind, wire []byte) ([]byte, error, error) {
	layer := []byte{0x83, 0x43, 0xa1, 0x01, 0x26, 0xa1, 0x04, 0x41, 0x09, 0x41, 0x01}
	s1 := append([]byte{0xd2, 0x84, 0x43, 0xa1, 0x01, 0x26, 0xa1, 0x04, 0x41, 0x09, 0x48}, "previous"...)
	s1 = append(s1, 0x41, 0x01)
	sm := append([]byte{0xd8, 0x62, 0x84, 0x40, 0xa1, 0x04, 0x41, 0x09, 0x48}, "previous"...)
	sm = append(append(sm, 0x81), layer...)
	var v codecMsg
	var prior []byte
	switch kind {
	case refcose.KSign1:
		v, prior = &cose.Sign1Message{}, s1
	case refcose.KSign1Untagged:
		v, prior = &cose.UntaggedSign1Message{}, s1[1:]
	case refcose.KSign:
		v, prior = &cose.SignMessage{}, sm
	case refcose.KSignature:
		v, prior = &cose.Signature{}, layer
	case refcose.KCountersignature:
		v, prior = &cose.Countersignature{}, layer
	default:
		return nil, fmt.Errorf("unsupported kind"), nil
	}
	if err := v.UnmarshalCBOR(prior); err != nil {
		return nil, nil, fmt.Errorf("harness: prior message: %v", err)
	}
	buf := append([]byte{}, wire...)
	if err := v.UnmarshalCBOR(buf); err != nil {
		return nil, err, nil
	}
	for i := range buf {
		buf[i] ^= 0xa5
	}
	out, err := v.MarshalCBOR()
	return out, nil, err
}

// checkC09 replays the history.
func checkC09(c c09Case) error {
	cur := []byte(c.Wire)
	if c.Kind == refcose.KProtected || c.Kind == refcose.KUnprotected {
		stats.Class("bare-bucket-skipped")
		return nil
	}
	if _, err := decodeAny(c.Kind, cur); err != nil {
		stats.Class("not-accepted")
		return nil
	}
	env, err := refcose.ParseEnv(c.Kind, cur)
	if err != nil {
		stats.Class("ref-cannot-locate")
		return nil
	}
	noncanon := len(rc.DeterminismIssues(env.Root)) > 0
	if pcs, err := protectedContents(c.Kind, cur); err == nil {
		for _, pc := range pcs {
			if len(pc) > 0 {
				if pn, err := rc.Parse(pc); err == nil && len(rc.DeterminismIssues(pn)) > 0 {
					noncanon = true
				}
			}
		}
	}
	discarded := false
	cycles := 0
	envAccepted := false
	for i, op := range c.Ops {
		switch op {
		case "cycle":
			want, err := predictReencode(c.Kind, cur)
			if err != nil {
				return fmt.Errorf("harness: cannot predict: %v", err)
			}
			got, derr, eerr := reencode(c.Kind, cur, false)
			if derr != nil {
				return finding("own-output-rejected", "step %d: decoder rejects what the encoder produced: %v\n%x", i, derr, cur)
			}
			if eerr != nil {
				return finding("reencode-fails", "step %d: an untouched decoded message cannot be encoded: %v\nwire=%x", i, eerr, cur)
			}
			if !bytes.Equal(got, want) {
				return finding("reencode-differs", "step %d: decode+encode changed more than payload/signature length prefixes\n  in=%x\n got=%x\nwant=%x", i, cur, got, want)
			}
			if len(rc.DeterminismIssues(mustParse(cur))) == 0 && !bytes.Equal(got, cur) {
				return finding("deterministic-input-changed", "step %d: deterministically encoded input changed\n in=%x\nout=%x", i, cur, got)
			}
			// the same through a variable that held another message before
			gotU, derrU, eerrU := reencodeUsed(c.Kind, cur)
			if derrU != nil || eerrU != nil || !bytes.Equal(gotU, got) {
				return finding("reencode-differs/used-variable", "step %d: decoding into a variable that held another message and encoding it again gives another result (decode: %v, encode: %v) than with a fresh variable\n   in=%x\nfresh=%x\n used=%x", i, derrU, eerrU, cur, got, gotU)
			}
			stats.Class("cycle-through-a-used-variable")
			cur = got
			cycles++
		case "verify-envelope":
			if c.EnvKey == nil || discarded {
				continue
			}
			ver, err := libVerifier(*c.EnvKey, false)
			if err != nil {
				return err
			}
			msg, err := cose.VerifyHashEnvelope(ver, append([]byte{}, cur...))
			if err != nil {
				if !envAccepted {
					// (the generated envelope need not be a conforming one: C12 owns that)
					stats.Class("envelope-refused/" + shortErr(err))
					continue
				}
				return finding("signature-lost", "step %d (after %d cycles): VerifyHashEnvelope no longer accepts the envelope: %v", i, cycles, err)
			}
			want, err := predictReencode(c.Kind, cur)
			if err != nil {
				return fmt.Errorf("harness: cannot predict: %v", err)
			}
			got, err := msg.MarshalCBOR()
			if err != nil {
				return finding("reencode-fails", "step %d: the message returned by VerifyHashEnvelope cannot be encoded: %v\nwire=%x", i, err, cur)
			}
			if !bytes.Equal(got, want) {
				return finding("reencode-differs", "step %d: VerifyHashEnvelope + encode changed more than payload/signature length prefixes\n  in=%x\n got=%x\nwant=%x", i, cur, got, want)
			}
			cur = got
			cycles++
			envAccepted = true
			stats.Class("cycle-through-VerifyHashEnvelope")
		case "discard":
			e1, derr, eerr := reencode(c.Kind, cur, true)
			if derr != nil {
				return finding("own-output-rejected", "step %d: %v", i, derr)
			}
			if eerr != nil {
				stats.Class("reencode-from-parsed-refused/" + shortErr(eerr))
				return nil
			}
			e2, derr, eerr := reencode(c.Kind, e1, false)
			if derr != nil && hasIntBeyondInt64Deep(e1) {
				return finding("canonical-form-rejected/bignum-beyond-int64", "step %d: a bignum (tag 2/3) beyond int64 in a header was re-emitted as a plain integer, which the decoder refuses: %v\n%x", i, derr, e1)
			}
			if derr != nil && taggedMapKey(cur) {
				return finding("canonical-form-rejected/tagged-map-key", "step %d: a nested map holds a tagged key (tag 0/1 items become time.Time in Go and are re-emitted untagged): after the caller discards the raw bytes the re-encoding has duplicate keys and is refused by the decoder: %v\n in=%x\nout=%x", i, derr, cur, e1)
			}
			if derr != nil || eerr != nil {
				return finding("canonical-form-rejected", "step %d: the form obtained after discarding raw bytes cannot be decoded / re-encoded (dec=%v enc=%v)\n%x", i, derr, eerr, e1)
			}
			if !bytes.Equal(e2, e1) {
				return finding("not-a-fixpoint", "step %d: re-encoding the canonical form changes it\n e1=%x\n e2=%x", i, e1, e2)
			}
			e3, derr, eerr := reencode(c.Kind, e1, true)
			if derr != nil || eerr != nil || !bytes.Equal(e3, e1) {
				return finding("not-a-fixpoint", "step %d: decode, discard again, encode changes the canonical form (dec=%v enc=%v)\n e1=%x\n e3=%x", i, derr, eerr, e1, e3)
			}
			// dropping the raw bytes by truncation (empty, non-nil) is the same as dropping them with nil
			discardEmpty = true
			e4, derr, eerr := reencode(c.Kind, cur, true)
			discardEmpty = false
			if derr != nil || eerr != nil || !bytes.Equal(e4, e1) {
				return finding("canonical-form-rejected/raw-truncated", "step %d: with the retained raw bytes truncated to empty slices instead of set to nil the re-encoding differs (dec=%v enc=%v)\n nil=%x\n [:0]=%x", i, derr, eerr, e1, e4)
			}
			if is := rc.DeterminismIssues(mustParse(e1)); len(is) > 0 {
				return finding("canonical-form-not-deterministic", "step %d: form after discarding raw bytes is not deterministic CBOR: %+v\n%x", i, is, e1)
			}
			cur = e1
			discarded = true
			stats.Class("discarded-raw")
		case "verify":
			if !c.HasSpec || discarded {
				continue
			}
			if err := checkC07(wireCase{Spec: c.Spec, Wire: cur}); err != nil {
				return finding("signature-lost", "step %d (after %d cycles): signatures no longer verify: %v", i, cycles, err)
			}
			stats.Class("verified-after-cycles")
		}
	}
	nested := false
	if c.HasSpec {
		if n, _ := specCsigStats(&c.Spec); n > 0 {
			nested = true
			stats.Class("nested-countersignatures")
		}
	}
	if noncanon {
		stats.Class("input-not-deterministic")
	} else {
		stats.Class("input-deterministic")
	}
	if cycles >= 2 {
		stats.Class("cycles>=2")
	}
	stats.Class("kind/" + c.Kind.String())
	if noncanon || nested || cycles >= 2 {
		stats.NTBytes(c.Wire)
		stats.Sample("c09/"+c.Kind.String(), map[string]any{"kind": c.Kind.String(), "wire": c.Wire, "ops": c.Ops})
	}
	return nil
}

// hasIntBeyondInt64Deep looks for an integer outside int64 in the item and
// inside its byte strings that wrap CBOR (protected headers).
func hasIntBeyondInt64Deep(b []byte) bool {
	root, err := rc.MParse(b, true)
	if err != nil {
		return false
	}
	for _, s := range rc.MSlots(&root) {
		x := s.Get()
		if x != nil && x.Verb == nil && x.Major <= 1 && x.Arg > 1<<63-1 {
			return true
		}
	}
	return false
}

// taggedMapKey reports whether the item - looking into byte strings that wrap
// CBOR - has a map whose key is a tagged item.
func taggedMapKey(b []byte) bool {
	n, err := rc.Parse(b)
	if err != nil && err != rc.ErrTrailing {
		return false
	}
	found := false
	var walk func(n *rc.Node, depth int)
	walk = func(n *rc.Node, depth int) {
		if n == nil || depth > 8 {
			return
		}
		n.Walk(func(x *rc.Node) {
			for _, k := range x.Keys {
				if k.Major == 6 {
					found = true
				}
			}
			if x.Major == 2 && len(x.Content) > 0 {
				if in, err := rc.Parse(x.Content); err == nil {
					walk(in, depth+1)
				}
			}
		})
	}
	walk(n, 0)
	return found
}

func mustParse(b []byte) *rc.Node {
	n, err := rc.Parse(b)
	if err != nil {
		return &rc.Node{}
	}
	return n
}

func init() { register("c09", checkC09) }

func genOps(t *rapid.T) []string {
	n := rapid.IntRange(1, 6).Draw(t, "nops")
	ops := make([]string, n)
	for i := range ops {
		ops[i] = rapid.SampledFrom([]string{"cycle", "cycle", "cycle", "verify", "discard"}).Draw(t, "op")
	}
	return append(ops, "verify", "cycle")
}

func genC09Case(t *rapid.T) c09Case {
	if rapid.IntRange(0, 7).Draw(t, "hash-envelope") == 0 {
		e := genC12VerifyCase(t)
		e.Edits, e.BadSig, e.Untag, e.Ext = nil, false, false, false
		e.RevProt = rapid.Bool().Draw(t, "rev-prot")
		ops := genOps(t)
		for i := range ops {
			if ops[i] == "verify" {
				ops[i] = "verify-envelope"
			}
		}
		return c09Case{Kind: refcose.KSign1, Wire: c12Envelope(&e), EnvKey: &e.Key, Ops: append([]string{"verify-envelope"}, ops...)}
	}
	if rapid.IntRange(0, 3).Draw(t, "from-mutant") == 0 {
		m := genMutCase(t, false)
		return c09Case{Kind: m.SeedKind, Wire: m.Wire, Ops: genOps(t)}
	}
	if rapid.IntRange(0, 5).Draw(t, "signature-kind") == 0 {
		k := rapid.SampledFrom([]refcose.Kind{refcose.KSignature, refcose.KCountersignature}).Draw(t, "sigkind")
		return c09Case{Kind: k, Wire: seedFor(t, k), Ops: genOps(t)}
	}
	o := c07Opts()
	o.HugeLens = false
	o.Hdr.MaxEntries = 12
	if rapid.IntRange(0, 2).Draw(t, "cheap-alg") != 0 {
		a := refcose.AlgEdDSA
		o.FixedAlg = &a
	}
	free := rapid.IntRange(0, 4).Draw(t, "peer-encoding") != 0
	wc, _ := genWireCase(t, o, free)
	return c09Case{Kind: wc.Spec.Kind, Wire: wc.Wire, HasSpec: true, Spec: wc.Spec, Ops: genOps(t)}
}

func TestC09_Histories(t *testing.T) {
	begin(t, "C09", "histories")
	prop(t, func(rt *rapid.T) {
		c := genC09Case(rt)
		stats.Eval()
		judge(rt, "c09", c, checkC09)
	})
}

// FuzzC09 drives the same property from coverage-guided byte input.
func FuzzC09(f *testing.F) {
	cur = propCtx{Property: "C09", Part: "fuzz"}
	f.Fuzz(rapid.MakeFuzz(func(rt *rapid.T) {
		judge(rt, "c09", genC09Case(rt), checkC09)
	}))
}
