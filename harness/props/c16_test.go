package props

import (
	"bytes"
	"crypto"
	"crypto/ecdsa"
	"crypto/elliptic"
	"encoding/asn1"
	"errors"
	"fmt"
	"io"
	"math/big"
	"testing"

	cose "github.com/veraison/go-cose"
	"pgregory.net/rapid"

	"verifharness/bridge"
	rc "verifharness/refcbor"
	"verifharness/refcose"
	"verifharness/stats"
)

type c16Case struct {
	Mode  string `json:"mode"` // stub-sign, native-sign, verify-forms
	Alg   int64  `json:"alg"`
	Curve int    `json:"curve"`
	D     rc.Hex `json:"d"` // private scalar
	R     rc.Hex `json:"r,omitempty"`
	S     rc.Hex `json:"s,omitempty"`
	K     rc.Hex `json:"k,omitempty"` // nonce (verify-forms): r = (k*G).x mod n
	Msg   rc.Hex `json:"msg,omitempty"`
	Want  string `json:"want,omitempty"` // native-sign: class to wait for
	// Wrapped: the key names its curve through a wrapper type around the standard
	// curve (same parameters, different interface value), as keys from a provider
	// or a test double do. Signing only: NewVerifier refuses such keys (crypto/ecdh).
	Wrapped bool `json:"wrapped,omitempty"`
	// DERForm (stub-sign): what the opaque key returns around (r, s) - 0 SEQUENCE{r, s}; 1 SEQUENCE{r, s, 1} (a
	// recovery id behind s); 2 SEQUENCE{r, s} followed by three stray bytes; 3 SEQUENCE{r, s, OCTET STRING}. For 1-3
	// the conversion may fail; if it succeeds the result is the fixed-width form of (r, s) all the same
	DERForm int `json:"der_form,omitempty"`
}

// wrappedCurve has the parameters and arithmetic of the curve it embeds but is not
// the singleton value elliptic.P256() etc.
type wrappedCurve struct{ elliptic.Curve }

// secp160r1 (SEC 2): a = -3, the order is one byte LONGER than the field prime (161 vs 160 bits) - the width
// of r and s follows the order. Used on the signing side only (crypto/ecdh, hence NewVerifier, knows the NIST
// curves only).
var secp160r1 = func() *elliptic.CurveParams {
	h := func(s string) *big.Int { v, _ := new(big.Int).SetString(s, 16); return v }
	c := &elliptic.CurveParams{Name: "secp160r1", BitSize: 160,
		P:  h("ffffffffffffffffffffffffffffffff7fffffff"),
		N:  h("0100000000000000000001f4c8f927aed3ca752257"),
		B:  h("1c97befc54bd7a8b65acf89f81d4d4adc565fa45"),
		Gx: h("4a96b5688ef573284664698968c38bb913cbfc82"),
		Gy: h("23a628553168947d59dcc912042351377ac5fb32")}
	if !c.IsOnCurve(c.Gx, c.Gy) {
		panic("secp160r1: generator not on curve")
	}
	nm1 := new(big.Int).Sub(c.N, big.NewInt(1))
	x, y := c.ScalarMult(c.Gx, c.Gy, nm1.Bytes())
	if x.Cmp(c.Gx) != 0 || new(big.Int).Add(y, c.Gy).Cmp(c.P) != 0 {
		panic("secp160r1: (n-1)G is not -G")
	}
	return c
}()

func c16Curve(n int) elliptic.Curve {
	if n == 160 {
		return secp160r1
	}
	return curveOf(n)
}

func c16Key(c *c16Case) *ecdsa.PrivateKey {
	curve := c16Curve(c.Curve)
	d := new(big.Int).SetBytes(c.D)
	n1 := new(big.Int).Sub(curve.Params().N, big.NewInt(1))
	d.Mod(d, n1)
	d.Add(d, big.NewInt(1))
	buf := make([]byte, (curve.Params().BitSize+7)/8)
	d.FillBytes(buf)
	x, y := curve.ScalarBaseMult(buf)
	if c.Wrapped {
		curve = wrappedCurve{curve}
	}
	return &ecdsa.PrivateKey{PublicKey: ecdsa.PublicKey{Curve: curve, X: x, Y: y}, D: d}
}

func rsClass(curveBytes int, v *big.Int) string {
	b := make([]byte, curveBytes)
	v.FillBytes(b)
	switch z := leadingZeros(b); {
	case z == 0:
		return "0"
	case z == 1:
		return "1"
	case z == 2:
		return "2"
	default:
		return "many"
	}
}

func checkC16(c c16Case) error {
	priv := c16Key(&c)
	curve := priv.Curve
	order := curve.Params().N
	n := (order.BitLen() + 7) / 8
	alg := cose.Algorithm(c.Alg)
	switch c.Mode {
	case "stub-sign":
		r, s := new(big.Int).SetBytes(c.R), new(big.Int).SetBytes(c.S)
		der, _ := asn1.Marshal(struct{ R, S *big.Int }{r, s})
		switch c.DERForm {
		case 1:
			der, _ = asn1.Marshal(struct {
				R, S *big.Int
				V    int
			}{r, s, 1})
		case 2:
			der = append(der, 0x02, 0x01, 0x01)
		case 3:
			der, _ = asn1.Marshal(struct {
				R, S *big.Int
				X    []byte
			}{r, s, []byte{1, 2, 3, 4}})
		}
		if c.DERForm != 0 && s.BitLen() <= 8*n {
			stats.Class(fmt.Sprintf("stub/der-form=%d/s-zeros=%s", c.DERForm, rsClass(n, s)))
		}
		stub := &bridge.StubCryptoSigner{Pub: &priv.PublicKey, SignFn: func(io.Reader, []byte, crypto.SignerOpts) ([]byte, error) { return der, nil }}
		sg, err := cose.NewSigner(alg, stub)
		if err != nil {
			return finding("newsigner", "NewSigner(%v, crypto.Signer with an ECDSA key): %v", alg, err)
		}
		tooBig := r.BitLen() > 8*n || s.BitLen() > 8*n
		want := make([]byte, 2*n)
		if !tooBig {
			r.FillBytes(want[:n])
			s.FillBytes(want[n:])
		}
		outs := [][]byte{}
		o1, e1 := sg.Sign(refcose.NewEntropy(nil), c.Msg)
		outs = append(outs, o1)
		errs := []error{e1}
		if ds, ok := sg.(cose.DigestSigner); ok {
			o2, e2 := ds.SignDigest(refcose.NewEntropy(nil), refcose.Digest(crypto.SHA256, c.Msg))
			outs = append(outs, o2)
			errs = append(errs, e2)
		} else {
			return finding("not-a-digest-signer", "ECDSA signer does not implement DigestSigner")
		}
		for i, o := range outs {
			if tooBig {
				if errs[i] == nil || len(o) != 0 {
					return finding("oversized-integer-accepted", "r or s wider than the curve order was converted (err=%v, out=%x)", errs[i], o)
				}
				continue
			}
			if errs[i] != nil && c.DERForm != 0 && len(o) == 0 {
				stats.Class("stub/odd-der-refused")
				continue
			}
			if errs[i] != nil {
				return finding("stub-sign-fails", "signing through a crypto.Signer that returns ASN.1(r, s) fails: %v", errs[i])
			}
			if !bytes.Equal(o, want) {
				return finding("not-fixed-width", "crypto.Signer path: signature is not leftpad(r)||leftpad(s)\n got=%x (%d bytes)\nwant=%x (%d bytes)", o, len(o), want, 2*n)
			}
		}
		if c.Wrapped {
			stats.Class("stub/wrapped-curve-value")
		}
		if c.Curve == 160 {
			stats.Class("stub/order-wider-than-field")
		}
		if len(der) == 2*n {
			stats.Class("stub/asn1-length-equals-fixed-width")
		}
		if !tooBig {
			stats.Class("stub/r-zeros=" + rsClass(n, r))
			stats.Class("stub/s-zeros=" + rsClass(n, s))
			if rsClass(n, r) != "0" || rsClass(n, s) != "0" {
				stats.NTBytes([]byte("stub"), c.R, c.S, []byte(fmt.Sprint(c.Curve)))
			}
		} else {
			stats.Class("stub/oversized-refused")
			stats.NTBytes([]byte("stub-big"), c.R, c.S)
		}
	case "native-sign":
		sg, err := cose.NewSigner(alg, priv)
		if err != nil {
			return finding("newsigner", "%v", err)
		}
		hit := false
		for i := 0; i < 400 && !hit; i++ {
			msg := append(append([]byte{}, c.Msg...), byte(i), byte(i>>8))
			sig, err := sg.Sign(refcose.NewEntropy(append([]byte{byte(i)}, c.Msg...)), msg)
			if err != nil {
				return finding("native-sign-fails", "%v", err)
			}
			if len(sig) != 2*n {
				return finding("not-fixed-width", "native path: signature has %d bytes, want %d: %x", len(sig), 2*n, sig)
			}
			if !refcose.Verify(c.Alg, &priv.PublicKey, msg, sig) {
				return finding("native-signature-invalid", "reference verifier rejects the native signature (r||s split at %d): %x", n, sig)
			}
			r, s := new(big.Int).SetBytes(sig[:n]), new(big.Int).SetBytes(sig[n:])
			if r.Sign() == 0 || s.Sign() == 0 || r.Cmp(order) >= 0 || s.Cmp(order) >= 0 {
				return finding("native-signature-range", "r or s outside [1, n-1]")
			}
			zr, zs := sig[0] == 0, sig[n] == 0
			if (c.Want == "r" && zr) || (c.Want == "s" && zs) || c.Want == "" {
				hit = true
				// the same (r, s) through the crypto.Signer path gives the same bytes
				der, _ := asn1.Marshal(struct{ R, S *big.Int }{r, s})
				stub := &bridge.StubCryptoSigner{Pub: &priv.PublicKey, SignFn: func(io.Reader, []byte, crypto.SignerOpts) ([]byte, error) { return der, nil }}
				sg2, err := cose.NewSigner(alg, stub)
				if err != nil {
					return finding("newsigner", "%v", err)
				}
				sig2, err := sg2.Sign(refcose.NewEntropy(nil), msg)
				if err != nil || !bytes.Equal(sig2, sig) {
					return finding("paths-incompatible", "native and crypto.Signer paths disagree for the same (r, s) (err=%v)\nnative=%x\n  stub=%x", err, sig, sig2)
				}
				vpub := priv.PublicKey
				vpub.Curve = curveOf(c.Curve)
				ver, err := cose.NewVerifier(alg, &vpub)
				if err != nil {
					return finding("newverifier", "%v", err)
				}
				if err := ver.Verify(msg, sig2); err != nil {
					return finding("valid-signature-rejected", "built-in verifier rejects a valid fixed-width signature: %v", err)
				}
				// the same at message level: malformed re-spellings of this valid signature inside a COSE_Sign1
				// and inside a two-signer COSE_Sign are rejected with a verification error there as well
				if !c.Wrapped {
					if err := c16MessageLevel(c, priv, alg); err != nil {
						return err
					}
				}
				if zr || zs {
					stats.Class("native/leading-zero-half")
					stats.NTBytes([]byte("native"), sig)
				}
			}
			stats.Class("native/signed")
		}
		if c.Wrapped {
			stats.Class("native/wrapped-curve-value")
		}
		if !hit {
			stats.Class("native/class-not-reached")
		}
	case "verify-forms":
		k := new(big.Int).SetBytes(c.K)
		k.Mod(k, new(big.Int).Sub(order, big.NewInt(1)))
		k.Add(k, big.NewInt(1))
		kb := make([]byte, (curve.Params().BitSize+7)/8)
		k.FillBytes(kb)
		x, _ := curve.ScalarBaseMult(kb)
		r := new(big.Int).Mod(x, order)
		s := new(big.Int).SetBytes(c.S)
		s.Mod(s, new(big.Int).Sub(order, big.NewInt(1)))
		s.Add(s, big.NewInt(1))
		if r.Sign() == 0 {
			return nil
		}
		// z = s*k - r*d mod n is the digest value for which (r, s) is valid
		z := new(big.Int).Mul(s, k)
		z.Sub(z, new(big.Int).Mul(r, priv.D))
		z.Mod(z, order)
		digest := make([]byte, n)
		if excess := 8*n - order.BitLen(); excess > 0 {
			new(big.Int).Lsh(z, uint(excess)).FillBytes(digest)
		} else {
			z.FillBytes(digest)
		}
		if !ecdsa.Verify(&priv.PublicKey, digest, r, s) {
			return fmt.Errorf("harness: constructed (r, s) is not valid for the constructed digest")
		}
		ver, err := cose.NewVerifier(alg, &priv.PublicKey)
		if err != nil {
			return finding("newverifier", "%v", err)
		}
		dv, ok := ver.(cose.DigestVerifier)
		if !ok {
			return finding("not-a-digest-verifier", "ECDSA verifier does not implement DigestVerifier")
		}
		exact := refcose.FixedRS(curve, r, s)
		if err := dv.VerifyDigest(digest, exact); err != nil {
			return finding("valid-signature-rejected", "verifier rejects a valid fixed-width signature (r zeros=%s, s zeros=%s): %v\n%x", rsClass(n, r), rsClass(n, s), err, exact)
		}
		forms := map[string][]byte{}
		der, _ := asn1.Marshal(struct{ R, S *big.Int }{r, s})
		forms["der"] = der
		forms["minimal-halves"] = append(r.Bytes(), s.Bytes()...)
		forms["r-stripped"] = append(bytes.TrimLeft(exact[:n], "\x00"), exact[n:]...)
		forms["s-stripped"] = append(append([]byte{}, exact[:n]...), bytes.TrimLeft(exact[n:], "\x00")...)
		forms["zero-extended-halves"] = append(append([]byte{0}, exact[:n]...), append([]byte{0}, exact[n:]...)...)
		forms["zero-extended-2"] = append(append([]byte{0, 0}, exact[:n]...), append([]byte{0, 0}, exact[n:]...)...)
		forms["r-zero-extended"] = append([]byte{0}, exact...)
		forms["s-zero-extended"] = append(append(append([]byte{}, exact[:n]...), 0), exact[n:]...)
		forms["zero-appended"] = append(append([]byte{}, exact...), 0)
		forms["halves-swapped"] = append(append([]byte{}, exact[n:]...), exact[:n]...)
		forms["one-half-shifted"] = append(append([]byte{}, exact[1:]...), 0)
		// the same residues outside [1, n-1]: r + order / s + order still fit the fixed width on P-521
		// (and, rarely, elsewhere); an integer >= the order is not part of any valid signature
		rN, sN := new(big.Int).Add(r, order), new(big.Int).Add(s, order)
		fits := func(v *big.Int) bool { return v.BitLen() <= 8*n }
		put := func(name string, a, b *big.Int) {
			out := make([]byte, 2*n)
			a.FillBytes(out[:n])
			b.FillBytes(out[n:])
			forms[name] = out
			stats.Class("verify/form/" + name)
		}
		if fits(rN) {
			put("r-plus-order", rN, s)
		}
		if fits(sN) {
			put("s-plus-order", r, sN)
		}
		if fits(rN) && fits(sN) {
			put("both-plus-order", rN, sN)
		}
		for l := 0; l <= 2*n+4; l++ {
			b := make([]byte, l)
			copy(b, exact)
			for i := 2 * n; i < l; i++ {
				b[i] = byte(i)
			}
			forms[fmt.Sprintf("len-%d", l)] = b
		}
		for name, f := range forms {
			truth := len(f) == 2*n && ecdsa.Verify(&priv.PublicKey, digest, new(big.Int).SetBytes(f[:len(f)/2]), new(big.Int).SetBytes(f[len(f)/2:]))
			err := dv.VerifyDigest(digest, f)
			if truth {
				if err != nil {
					return finding("valid-signature-rejected", "form %s is a valid fixed-width signature but is rejected: %v", name, err)
				}
				continue
			}
			if err == nil {
				return finding("non-fixed-width-accepted/"+formClass(name), "verifier accepts form %q (%d bytes, fixed width is %d): %x", name, len(f), 2*n, f)
			}
			if !errors.Is(err, cose.ErrVerification) {
				return finding("wrong-error-class", "form %q rejected with %v, not ErrVerification", name, err)
			}
		}
		stats.Class("verify/r-zeros=" + rsClass(n, r))
		stats.Class("verify/s-zeros=" + rsClass(n, s))
		stats.ClassN("verify/forms-rejected", len(forms)-1)
		if rsClass(n, r) != "0" || rsClass(n, s) != "0" {
			stats.NTBytes([]byte("verify"), exact)
		}
	}
	stats.Class(fmt.Sprintf("curve/%d/%s", c.Curve, refcose.AlgName(c.Alg)))
	return nil
}

// c16MessageLevel signs real messages with the key and offers malformed forms of the signature through
// Sign1Message.Verify and SignMessage.Verify (second of two signers).
func c16MessageLevel(c c16Case, priv *ecdsa.PrivateKey, alg cose.Algorithm) error {
	sg, err := cose.NewSigner(alg, priv)
	if err != nil {
		return finding("newsigner", "%v", err)
	}
	ver, err := cose.NewVerifier(alg, &priv.PublicKey)
	if err != nil {
		return finding("newverifier", "%v", err)
	}
	edKM := refcose.KeyMat{Alg: refcose.AlgEdDSA, D: rc.Hex("c16-first-signer-seed-32-bytes!!!")}
	edS, _ := libSigner(edKM, false)
	edV, _ := libVerifier(edKM, false)
	rnd := refcose.NewEntropy(c.Msg)
	hdr := func(a cose.Algorithm) cose.Headers {
		return cose.Headers{Protected: cose.ProtectedHeader{int64(1): a}, Unprotected: cose.UnprotectedHeader{}}
	}
	m1 := &cose.Sign1Message{Headers: hdr(alg), Payload: append([]byte("c16 "), c.Msg...)}
	if err := m1.Sign(rnd, nil, sg); err != nil {
		return finding("native-sign-fails", "%v", err)
	}
	sm := &cose.SignMessage{Headers: cose.Headers{Protected: cose.ProtectedHeader{}}, Payload: m1.Payload,
		Signatures: []*cose.Signature{{Headers: hdr(cose.AlgorithmEdDSA)}, {Headers: hdr(alg)}}}
	if err := sm.Sign(rnd, nil, edS, sg); err != nil {
		return finding("native-sign-fails", "%v", err)
	}
	if err := m1.Verify(nil, ver); err != nil {
		return finding("valid-signature-rejected", "Sign1: %v", err)
	}
	if err := sm.Verify(nil, edV, ver); err != nil {
		return finding("valid-signature-rejected", "COSE_Sign: %v", err)
	}
	for mi, slot := range []*[]byte{&m1.Signature, &sm.Signatures[1].Signature} {
		good := append([]byte{}, (*slot)...)
		n := len(good) / 2
		r, s := new(big.Int).SetBytes(good[:n]), new(big.Int).SetBytes(good[n:])
		der, _ := asn1.Marshal(struct{ R, S *big.Int }{r, s})
		forms := map[string][]byte{
			"der": der, "zero-appended": append(append([]byte{}, good...), 0), "truncated": good[:len(good)-1],
			"zero-extended-halves": append(append([]byte{0}, good[:n]...), append([]byte{0}, good[n:]...)...),
			"r-zero-extended":      append([]byte{0}, good...), "other-curve-width": append(make([]byte, 0, 132), make([]byte, map[int]int{32: 96, 48: 132, 66: 64}[n])...),
		}
		for name, f := range forms {
			*slot = f
			var verr error
			if mi == 0 {
				verr = m1.Verify(nil, ver)
			} else {
				verr = sm.Verify(nil, edV, ver)
			}
			if verr == nil {
				return finding("non-fixed-width-accepted/"+formClass(name), "message level (%d): form %q of a valid signature is accepted", mi, name)
			}
			if !errors.Is(verr, cose.ErrVerification) {
				return finding("wrong-error-class", "message level (%s): form %q (%d bytes, fixed width %d) is rejected with %q, which is not a verification error", []string{"Sign1Message.Verify", "SignMessage.Verify, second signer"}[mi], name, len(f), 2*n, verr)
			}
		}
		*slot = good
	}
	// countersignatures (full and abbreviated) by the same key over the Sign1: the same near misses, and the
	// signature wrapped the way it sits in a header (as a CBOR byte string item), are refused there as well
	cs := &cose.Countersignature{Headers: hdr(alg)}
	if err := cs.Sign(rnd, sg, m1, nil); err != nil {
		return finding("native-sign-fails", "countersignature: %v", err)
	}
	cs0, err := cose.Countersign0(rnd, sg, m1, nil)
	if err != nil {
		return finding("native-sign-fails", "Countersign0: %v", err)
	}
	if err := cs.Verify(ver, m1, nil); err != nil {
		return finding("valid-signature-rejected", "Countersignature.Verify: %v", err)
	}
	if err := cose.VerifyCountersign0(ver, m1, nil, cs0); err != nil {
		return finding("valid-signature-rejected", "VerifyCountersign0: %v", err)
	}
	for ci, good := range [][]byte{append([]byte{}, cs.Signature...), cs0} {
		n := len(good) / 2
		r, s := new(big.Int).SetBytes(good[:n]), new(big.Int).SetBytes(good[n:])
		der, _ := asn1.Marshal(struct{ R, S *big.Int }{r, s})
		forms := map[string][]byte{
			"der": der, "zero-appended": append(append([]byte{}, good...), 0), "truncated": good[:len(good)-1],
			"zero-extended-halves":      append(append([]byte{0}, good[:n]...), append([]byte{0}, good[n:]...)...),
			"wrapped-as-cbor-bstr":      rc.Encode(rc.Bytes(good), nil),
			"wrapped-as-cbor-bstr-wide": append([]byte{0x59, byte(len(good) >> 8), byte(len(good))}, good...),
			"wrapped-twice":             rc.Encode(rc.Bytes(rc.Encode(rc.Bytes(good), nil)), nil),
		}
		for name, f := range forms {
			var verr error
			if ci == 0 {
				verr = (&cose.Countersignature{Headers: cs.Headers, Signature: f}).Verify(ver, m1, nil)
			} else {
				verr = cose.VerifyCountersign0(ver, m1, nil, f)
			}
			if verr == nil {
				return finding("non-fixed-width-accepted/"+formClass(name), "%s: form %q (%d bytes) of a valid %d-byte signature is accepted", []string{"Countersignature.Verify", "VerifyCountersign0"}[ci], name, len(f), len(good))
			}
		}
	}
	stats.Class("native/message-level-forms")
	return nil
}

func formClass(name string) string {
	if len(name) > 4 && name[:4] == "len-" {
		return "other-length"
	}
	return name
}

func init() { register("c16", checkC16) }

// drawRS draws an integer in [1, n-1] of a drawn shape class.
func drawRS(t *rapid.T, label string, order *big.Int) *big.Int {
	n := (order.BitLen() + 7) / 8
	var v *big.Int
	switch rapid.IntRange(0, 7).Draw(t, label+"-class") {
	case 0:
		v = big.NewInt(1)
	case 1:
		v = new(big.Int).Sub(order, big.NewInt(1))
	case 2, 3:
		v = new(big.Int).SetBytes(rapid.SliceOfN(rapid.Byte(), n-1, n-1).Draw(t, label+"-1zero"))
	case 4:
		v = new(big.Int).SetBytes(rapid.SliceOfN(rapid.Byte(), n-2, n-2).Draw(t, label+"-2zero"))
	case 5:
		k := rapid.IntRange(1, n-3).Draw(t, label+"-len")
		v = new(big.Int).SetBytes(rapid.SliceOfN(rapid.Byte(), k, k).Draw(t, label+"-many"))
	default:
		v = new(big.Int).SetBytes(rapid.SliceOfN(rapid.Byte(), n+8, n+8).Draw(t, label+"-any"))
		v.Mod(v, order)
	}
	if v.Sign() == 0 {
		v.SetInt64(1)
	}
	if v.Cmp(order) >= 0 {
		v.Mod(v, order)
		if v.Sign() == 0 {
			v.SetInt64(1)
		}
	}
	return v
}

func genC16Case(t *rapid.T) c16Case {
	c := c16Case{
		Mode:  rapid.SampledFrom([]string{"stub-sign", "stub-sign", "verify-forms", "verify-forms", "native-sign"}).Draw(t, "mode"),
		Curve: rapid.SampledFrom([]int{256, 256, 384, 521}).Draw(t, "curve"),
		D:     rapid.SliceOfN(rapid.Byte(), 16, 16).Draw(t, "d"),
		Msg:   rapid.SliceOfN(rapid.Byte(), 0, 40).Draw(t, "msg"),
	}
	c.Alg = map[int]int64{256: refcose.AlgES256, 384: refcose.AlgES384, 521: refcose.AlgES512}[c.Curve]
	if rapid.IntRange(0, 5).Draw(t, "cross-alg") == 0 {
		c.Alg = rapid.SampledFrom([]int64{refcose.AlgES256, refcose.AlgES384, refcose.AlgES512}).Draw(t, "alg")
	}
	if c.Mode == "stub-sign" && rapid.IntRange(0, 7).Draw(t, "odd-curve") == 0 {
		// a curve whose order is wider than its field (an opaque key on such a curve: signing only)
		c.Curve = 160
	}
	order := c16Curve(c.Curve).Params().N
	if c.Mode != "verify-forms" && c.Curve != 160 {
		c.Wrapped = rapid.IntRange(0, 3).Draw(t, "wrapped") == 0
	}
	switch c.Mode {
	case "stub-sign":
		c.R, c.S = drawRS(t, "r", order).Bytes(), drawRS(t, "s", order).Bytes()
		if rapid.IntRange(0, 5).Draw(t, "asn1-len") == 0 {
			// (r, s) short enough that their ASN.1 form is exactly as long as the fixed-width form
			n := (order.BitLen() + 7) / 8
			lr := rapid.IntRange(n-9, n-1).Draw(t, "lr")
			short := func(l int, label string) []byte {
				b := rapid.SliceOfN(rapid.Byte(), l, l).Draw(t, label)
				b[0] = b[0]&0x7f | 1
				return b
			}
			r := short(lr, "r-short")
			for ls := 1; ls <= n; ls++ {
				sb := make([]byte, ls)
				sb[0] = 1
				der, _ := asn1.Marshal(struct{ R, S *big.Int }{new(big.Int).SetBytes(r), new(big.Int).SetBytes(sb)})
				if len(der) == 2*n {
					c.R, c.S = r, short(ls, "s-short")
					break
				}
			}
		}
		if rapid.IntRange(0, 3).Draw(t, "odd-der") == 0 {
			c.DERForm = rapid.IntRange(1, 3).Draw(t, "der-form")
		}
		if rapid.IntRange(0, 19).Draw(t, "oversized") == 0 {
			big := make([]byte, (order.BitLen()+7)/8+1)
			big[0] = 1
			if rapid.Bool().Draw(t, "oversized-r") {
				c.R = big
			} else {
				c.S = big
			}
		}
	case "verify-forms":
		c.S = new(big.Int).Sub(drawRS(t, "s", order), big.NewInt(1)).Bytes()
		if rapid.Bool().Draw(t, "table-nonce") {
			var cand []int64
			for _, e := range zeroCoordScalars {
				if e.Curve == c.Curve && (e.Class == "x1" || e.Class == "x2" || e.Class == "xy") {
					cand = append(cand, e.D)
				}
			}
			k := rapid.SampledFrom(cand).Draw(t, "k")
			c.K = big.NewInt(k - 1).Bytes()
		} else {
			c.K = rapid.SliceOfN(rapid.Byte(), 24, 24).Draw(t, "k-any")
		}
	case "native-sign":
		c.Want = rapid.SampledFrom([]string{"", "r", "s"}).Draw(t, "want")
		if c.Curve == 384 && rapid.IntRange(0, 3).Draw(t, "p384-cheap") != 0 {
			c.Want = "" // grinding a leading zero on P-384 costs ~128 signatures
		}
	}
	return c
}

func TestC16_RS(t *testing.T) {
	begin(t, "C16", "rs")
	prop(t, func(rt *rapid.T) {
		c := genC16Case(rt)
		stats.Eval()
		stats.Class("mode/" + c.Mode)
		if c.Mode != "native-sign" && len(c.Msg) < 8 {
			stats.Sample(c.Mode+fmt.Sprint(c.Curve), c)
		}
		judge(rt, "c16", c, checkC16)
	})
}
