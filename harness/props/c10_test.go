package props

import (
	"bytes"
	"fmt"
	"testing"

	cose "github.com/veraison/go-cose"
	"pgregory.net/rapid"

	"verifharness/bridge"
	"verifharness/gen"
	rc "verifharness/refcbor"
	"verifharness/refcose"
	"verifharness/stats"
)

// parentRef pairs a decoded library object that can be countersigned with the
// reference view of the same layer (fields located in the wire bytes).
type parentRef struct {
	path   string
	kind   refcose.Kind // KSign1, KSign, KSignature, KCountersignature
	s1     *cose.Sign1Message
	sm     *cose.SignMessage
	sg     *cose.Signature
	cs     *cose.Countersignature
	ref    gen.Parent
	un     cose.UnprotectedHeader
	unNode *rc.Node
	groups []gen.CsigGroup
}

func (p *parentRef) obj(ptr bool) any {
	switch p.kind {
	case refcose.KSign1:
		if ptr {
			return p.s1
		}
		return *p.s1
	case refcose.KSign:
		if ptr {
			return p.sm
		}
		return *p.sm
	case refcose.KSignature:
		if ptr {
			return p.sg
		}
		return *p.sg
	}
	if ptr {
		return p.cs
	}
	return *p.cs
}

func (p *parentRef) headers() *cose.Headers {
	switch p.kind {
	case refcose.KSign1:
		return &p.s1.Headers
	case refcose.KSign:
		return &p.sm.Headers
	case refcose.KSignature:
		return &p.sg.Headers
	}
	return &p.cs.Headers
}

// clone copies the parent object (one level: the struct and its Headers
// struct; maps and slices are shared and must be replaced, not edited).
func (p *parentRef) clone() *parentRef {
	q := *p
	switch p.kind {
	case refcose.KSign1:
		c := *p.s1
		q.s1 = &c
	case refcose.KSign:
		c := *p.sm
		q.sm = &c
	case refcose.KSignature:
		c := *p.sg
		q.sg = &c
	default:
		c := *p.cs
		q.cs = &c
	}
	return &q
}

// listParents enumerates every countersignable layer of a decoded message.
func listParents(m *libMsg, env *refcose.Env, spec *gen.MsgSpec, payload []byte) []*parentRef {
	var out []*parentRef
	var addCsigs func(un cose.UnprotectedHeader, unNode *rc.Node, groups []gen.CsigGroup, path string)
	addCsigs = func(un cose.UnprotectedHeader, unNode *rc.Node, groups []gen.CsigGroup, path string) {
		for _, g := range groups {
			if g.Abbrev() {
				continue
			}
			v := un[int64(g.Label)]
			node := unNode.Lookup(g.Label)
			if node == nil {
				continue
			}
			var list []*cose.Countersignature
			var items []*rc.Node
			switch x := v.(type) {
			case *cose.Countersignature:
				list, items = []*cose.Countersignature{x}, []*rc.Node{node}
			case []*cose.Countersignature:
				list, items = x, node.Items
			}
			for i := range list {
				if i >= len(items) || i >= len(g.Items) {
					break
				}
				ce, err := refcose.ParseEnv(refcose.KSignature, items[i].Raw())
				if err != nil {
					continue
				}
				pth := fmt.Sprintf("%s/%d[%d]", path, g.Label, i)
				out = append(out, &parentRef{path: pth, kind: refcose.KCountersignature, cs: list[i],
					ref: gen.Parent{Kind: refcose.KCountersignature, BodyProt: ce.ProtContent(), Payload: ce.Sig.Content},
					un:  list[i].Headers.Unprotected, unNode: ce.Unprot, groups: g.Items[i].Groups})
				addCsigs(list[i].Headers.Unprotected, ce.Unprot, g.Items[i].Groups, pth)
			}
		}
	}
	switch m.kind {
	case refcose.KSign1, refcose.KSign1Untagged:
		s1 := m.s1
		if s1 == nil {
			s1 = (*cose.Sign1Message)(m.u1)
		}
		out = append(out, &parentRef{path: "msg", kind: refcose.KSign1, s1: s1,
			ref: gen.Parent{Kind: refcose.KSign1, BodyProt: env.ProtContent(), Payload: payload, Sig: env.Sig.Content},
			un:  s1.Headers.Unprotected, unNode: env.Unprot, groups: spec.Groups})
		addCsigs(s1.Headers.Unprotected, env.Unprot, spec.Groups, "msg")
	case refcose.KSign:
		out = append(out, &parentRef{path: "msg", kind: refcose.KSign, sm: m.sm,
			ref: gen.Parent{Kind: refcose.KSign, BodyProt: env.ProtContent(), Payload: payload},
			un:  m.sm.Headers.Unprotected, unNode: env.Unprot, groups: spec.Groups})
		addCsigs(m.sm.Headers.Unprotected, env.Unprot, spec.Groups, "msg")
		for i, s := range m.sm.Signatures {
			if i >= len(spec.Sigs) {
				break
			}
			pth := fmt.Sprintf("sig[%d]", i)
			out = append(out, &parentRef{path: pth, kind: refcose.KSignature, sg: s,
				ref: gen.Parent{Kind: refcose.KSignature, BodyProt: env.Sigs[i].ProtContent(), Payload: env.Sigs[i].Sig.Content},
				un:  s.Headers.Unprotected, unNode: env.Sigs[i].Unprot, groups: spec.Sigs[i].Groups})
			addCsigs(s.Headers.Unprotected, env.Sigs[i].Unprot, spec.Sigs[i].Groups, pth)
		}
	}
	return out
}

type c10Case struct {
	W        wireCase       `json:"w"`
	Sel      int            `json:"sel"` // which layer is the parent
	Pointer  bool           `json:"pointer"`
	Abbrev   bool           `json:"abbrev"`
	CsProt   rc.Val         `json:"cs_prot"`
	CsUnprot rc.Val         `json:"cs_unprot"`
	RawWidth int            `json:"raw_width"` // >0: countersigner protected supplied as RawProtected with this head width
	Ext      rc.Hex         `json:"ext,omitempty"`
	Key      refcose.KeyMat `json:"key"`
	Mut      string         `json:"mut"`
}

// refCsigValid: reference verdict of a countersignature signature over parent.
func refCsigValid(p gen.Parent, abbrev bool, signProt []byte, ext []byte, km refcose.KeyMat, sig []byte) bool {
	if (p.Kind == refcose.KSign1 || p.Kind == refcose.KSign) && p.Payload == nil {
		return false
	}
	return refcose.Verify(km.Alg, km.Public(), gen.CountersignTBS(p, abbrev, signProt, ext), sig)
}

func checkC10(c c10Case) error {
	spec := &c.W.Spec
	m, err := decodeLib(spec.Kind, c.W.Wire)
	if err != nil {
		return finding("rejected", "conforming message rejected: %v", err)
	}
	env, err := refcose.ParseEnv(spec.Kind, c.W.Wire)
	if err != nil {
		return fmt.Errorf("harness: %v", err)
	}
	payload, ok := env.PayloadBytes()
	if !ok {
		payload = spec.Payload
		*m.payload() = append([]byte{}, payload...)
	}
	parents := listParents(m, env, spec, payload)
	p := parents[c.Sel%len(parents)]
	ext := []byte(c.Ext)
	alg := c.Key.Alg
	rnd := refcose.NewEntropy([]byte("c10"))

	// (1) what a countersigner's key is handed when signing over this parent
	spy := &bridge.SpySigner{Alg: cose.Algorithm(alg), Reenter: reenterLibrary}
	var signProt []byte // content of the countersigner's protected bstr, as the reference expects it
	var cs *cose.Countersignature
	if c.Abbrev {
		signProt = []byte{}
		if _, err := cose.Countersign0(rnd, spy, p.obj(c.Pointer), ext); err != nil {
			return finding("countersign0-refused", "%s: Countersign0 over a signed %v parent fails: %v", p.path, p.kind, err)
		}
	} else {
		cs = cose.NewCountersignature()
		pm := c.CsProt
		inject := !pm.Has(1) && len(ext) == 0
		if c.RawWidth > 0 {
			if inject {
				pm = pm.With(rc.Int(1), rc.Int(alg))
				inject = false
			}
			content := []byte{}
			if len(pm.M) > 0 {
				content = rc.Encode(pm, nil)
			}
			cs.Headers.RawProtected = append(rc.Head(2, uint64(len(content)), maxInt(c.RawWidth, minW(len(content)))), content...)
			cs.Headers.Protected = bridge.ToProtected(pm)
			signProt = content
		} else {
			cs.Headers = bridge.Headers(pm, c.CsUnprot)
			em := pm
			if inject {
				em = pm.With(rc.Int(1), rc.Int(alg))
			}
			signProt = []byte{}
			if len(em.M) > 0 {
				signProt = rc.Encode(em, nil)
			}
		}
		if err := cs.Sign(rnd, spy, p.obj(c.Pointer), ext); err != nil {
			stats.Class("countersign-refused/" + shortErr(err))
			return nil
		}
	}
	if spy.Corrupted {
		return finding("tbs-unstable-while-in-use", "%s: the bytes handed to the countersigner changed while it was still using them (another library operation ran in between)", p.path)
	}
	want := gen.CountersignTBS(p.ref, c.Abbrev, signProt, ext)
	if spy.NCalls() != 1 || !bytes.Equal(spy.Last(), want) {
		return finding("tbs-mismatch", "%s (%v parent, pointer=%v, abbreviated=%v): signer was handed\n got=%x\nwant=%x\nwire=%x", p.path, p.kind, c.Pointer, c.Abbrev, spy.Last(), want, []byte(c.W.Wire))
	}
	stats.Class(fmt.Sprintf("signed-over/%v/%s", p.kind, map[bool]string{true: "abbreviated", false: "full"}[c.Abbrev]))
	noncanon := false
	if pn := mustParse(p.ref.BodyProt); len(p.ref.BodyProt) > 0 && len(rc.DeterminismIssues(pn)) > 0 {
		noncanon = true
		stats.Class("parent-protected-not-canonical")
	}

	// (2) what a verifier is handed for the countersignatures already on this parent
	for gi, g := range p.groups {
		node := p.unNode.Lookup(g.Label)
		v := p.un[int64(g.Label)]
		if node == nil || v == nil {
			continue
		}
		if g.Abbrev() {
			sv := &bridge.SpyVerifier{Alg: cose.Algorithm(g.Items[0].Key.Alg), Reenter: reenterLibrary}
			if err := cose.VerifyCountersign0(sv, p.obj(gi%2 == 0), g.Items[0].External, v.([]byte)); err != nil {
				return finding("spy-verify-error", "%s: VerifyCountersign0 with an accepting verifier fails: %v", p.path, err)
			}
			w := gen.CountersignTBS(p.ref, true, []byte{}, g.Items[0].External)
			if sv.Corrupted {
				return finding("tbs-unstable-while-in-use", "%s: bytes handed to the verifier of an abbreviated countersignature changed while in use", p.path)
			}
			if !bytes.Equal(sv.Last().Content, w) || !bytes.Equal(sv.Last().Sig, node.Content) {
				return finding("tbs-mismatch", "%s: verifier of abbreviated countersignature %d was handed\n got=%x\nwant=%x", p.path, g.Label, sv.Last().Content, w)
			}
			stats.Class("verified-existing/abbreviated")
			continue
		}
		var list []*cose.Countersignature
		items := []*rc.Node{node}
		switch x := v.(type) {
		case *cose.Countersignature:
			list = []*cose.Countersignature{x}
		case []*cose.Countersignature:
			list, items = x, node.Items
		}
		for i := range list {
			if i >= len(items) || i >= len(g.Items) {
				break
			}
			ce, err := refcose.ParseEnv(refcose.KSignature, items[i].Raw())
			if err != nil {
				continue
			}
			it := g.Items[i]
			sv := &bridge.SpyVerifier{Alg: cose.Algorithm(it.Key.Alg), Reenter: reenterLibrary}
			if err := list[i].Verify(sv, p.obj(i%2 == 0), it.External); err != nil {
				return finding("spy-verify-error", "%s: Countersignature.Verify with an accepting verifier fails: %v", p.path, err)
			}
			w := gen.CountersignTBS(p.ref, false, ce.ProtContent(), it.External)
			if sv.Corrupted {
				return finding("tbs-unstable-while-in-use", "%s: bytes handed to the verifier of a countersignature changed while in use", p.path)
			}
			if !bytes.Equal(sv.Last().Content, w) || !bytes.Equal(sv.Last().Sig, ce.Sig.Content) {
				return finding("tbs-mismatch", "%s: verifier of countersignature %d[%d] was handed\n got=%x\nwant=%x", p.path, g.Label, i, sv.Last().Content, w)
			}
			if !ce.Prot.MinimalHead() || (ce.ProtMap != nil && len(rc.DeterminismIssues(ce.ProtMap)) > 0) {
				noncanon = true
				stats.Class("countersigner-protected-not-canonical")
			}
			stats.Class("verified-existing/full")
		}
	}

	// (3) binding: a real countersignature verifies against exactly its parent
	sg, err := libSigner(c.Key, false)
	if err != nil {
		return fmt.Errorf("harness: %v", err)
	}
	ver, err := libVerifier(c.Key, false)
	if err != nil {
		return fmt.Errorf("harness: %v", err)
	}
	var sig []byte
	var real *cose.Countersignature
	if c.Abbrev {
		sig, err = cose.Countersign0(rnd, sg, p.obj(c.Pointer), ext)
		if err != nil {
			return finding("countersign0-refused", "%v", err)
		}
	} else {
		real = &cose.Countersignature{Headers: cose.Headers{RawProtected: cs.Headers.RawProtected, Protected: cs.Headers.Protected, Unprotected: cs.Headers.Unprotected}}
		if err := real.Sign(rnd, sg, p.obj(c.Pointer), ext); err != nil {
			return finding("countersign-refused", "real countersigning fails after the spy succeeded: %v", err)
		}
		sig = real.Signature
	}
	verify := func(q *parentRef, e []byte) error {
		if c.Abbrev {
			return cose.VerifyCountersign0(ver, q.obj(!c.Pointer), e, sig)
		}
		return real.Verify(ver, q.obj(!c.Pointer), e)
	}
	if err := verify(p, ext); err != nil {
		return finding("fresh-countersignature-rejected", "%s: %v", p.path, err)
	}
	if !refCsigValid(p.ref, c.Abbrev, signProt, ext, c.Key, sig) {
		return finding("ref-rejects", "%s: reference verifier rejects the library's countersignature (structure differs)", p.path)
	}
	// mutate the parent (library object and reference view alike)
	q := p.clone()
	qr := p.ref
	e2 := ext
	preserved := false
	switch c.Mut {
	case "none":
		preserved = true
	case "unprotected":
		nu := cose.UnprotectedHeader{}
		for k, v := range q.headers().Unprotected {
			nu[k] = v
		}
		// whatever the unprotected bucket holds - including things that cannot be serialised
		// (yet): a countersignature holder attached before it is signed, a kid of the wrong type
		switch variant := (len(c.W.Wire) + c.Sel) % 4; variant {
		case 0:
			nu["added-later"] = int64(1)
		case 1:
			nu[int64(11)] = []*cose.Countersignature{cose.NewCountersignature()}
		case 2:
			nu[int64(4)] = int64(5)
		default:
			nu = nil
		}
		stats.Class(fmt.Sprintf("mutation/unprotected/variant-%d", (len(c.W.Wire)+c.Sel)%4))
		q.headers().Unprotected = nu
		q.headers().RawUnprotected = nil
		preserved = true
		// signing over the edited parent hands the key the same bytes
		spy2 := &bridge.SpySigner{Alg: cose.Algorithm(alg)}
		if c.Abbrev {
			_, err = cose.Countersign0(rnd, spy2, q.obj(c.Pointer), ext)
		} else {
			cs2 := &cose.Countersignature{Headers: cose.Headers{RawProtected: cs.Headers.RawProtected, Protected: cs.Headers.Protected, Unprotected: cs.Headers.Unprotected}}
			err = cs2.Sign(rnd, spy2, q.obj(c.Pointer), ext)
		}
		if err != nil || !bytes.Equal(spy2.Last(), want) {
			return finding("unprotected-matters", "%s: countersigning over the same parent with other unprotected headers fails or signs other bytes (err=%v)\n got=%x\nwant=%x", p.path, err, spy2.Last(), want)
		}
	case "protected-head-width":
		q.headers().RawProtected = append(rc.Head(2, uint64(len(qr.BodyProt)), 8), qr.BodyProt...)
		preserved = true
	case "protected-content":
		nb := append(append([]byte{}, qr.BodyProt...), 0)
		if len(qr.BodyProt) > 0 {
			nb = append([]byte{}, qr.BodyProt...)
			nb[len(nb)-1] ^= 1
		} else {
			nb = []byte{0xa0}
		}
		qr.BodyProt = nb
		q.headers().RawProtected = rc.Encode(rc.Bytes(nb), nil)
	case "payload":
		np := append(append([]byte{}, qr.Payload...), 0x55)
		qr.Payload = np
		switch q.kind {
		case refcose.KSign1:
			q.s1.Payload = np
		case refcose.KSign:
			q.sm.Payload = np
		case refcose.KSignature:
			q.sg.Signature = np
		default:
			q.cs.Signature = np
		}
	case "parent-signature":
		switch q.kind {
		case refcose.KSign1:
			ns := append([]byte{}, qr.Sig...)
			ns[0] ^= 0x80
			qr.Sig = ns
			q.s1.Signature = ns
		case refcose.KSign:
			// the signers' signatures are not covered by a countersignature on the COSE_Sign body
			q.sm.Signatures = append([]*cose.Signature{}, q.sm.Signatures...)
			s0 := *q.sm.Signatures[0]
			s0.Signature = append([]byte{0x11}, s0.Signature...)
			q.sm.Signatures[0] = &s0
			preserved = true
		default:
			ns := append([]byte{}, qr.Payload...)
			ns[len(ns)-1] ^= 1
			qr.Payload = ns
			if q.kind == refcose.KSignature {
				q.sg.Signature = ns
			} else {
				q.cs.Signature = ns
			}
		}
	case "external":
		e2 = append(append([]byte{}, ext...), 1)
	case "kind-swap":
		h := *q.headers()
		switch q.kind {
		case refcose.KSign1:
			q = &parentRef{kind: refcose.KSign, sm: &cose.SignMessage{Headers: h, Payload: qr.Payload, Signatures: []*cose.Signature{{Signature: qr.Sig}}}}
			qr = gen.Parent{Kind: refcose.KSign, BodyProt: qr.BodyProt, Payload: qr.Payload}
		case refcose.KSign:
			q = &parentRef{kind: refcose.KSign1, s1: &cose.Sign1Message{Headers: h, Payload: qr.Payload, Signature: []byte{1}}}
			qr = gen.Parent{Kind: refcose.KSign1, BodyProt: qr.BodyProt, Payload: qr.Payload, Sig: []byte{1}}
		case refcose.KSignature:
			if len(c.W.Wire)%2 == 0 {
				q = &parentRef{kind: refcose.KCountersignature, cs: &cose.Countersignature{Headers: h, Signature: qr.Payload}}
				qr.Kind = refcose.KCountersignature
				preserved = true // COSE_Signature and COSE_Countersignature parents share one structure (RFC 9338)
			} else {
				q = &parentRef{kind: refcose.KSign, sm: &cose.SignMessage{Headers: h, Payload: qr.Payload, Signatures: []*cose.Signature{{Signature: []byte{1}}}}}
				qr = gen.Parent{Kind: refcose.KSign, BodyProt: qr.BodyProt, Payload: qr.Payload}
				preserved = true // same context and fields: payload position holds the same bytes
			}
		default:
			q = &parentRef{kind: refcose.KSign1, s1: &cose.Sign1Message{Headers: h, Payload: qr.Payload, Signature: qr.Payload}}
			qr = gen.Parent{Kind: refcose.KSign1, BodyProt: qr.BodyProt, Payload: qr.Payload, Sig: qr.Payload}
		}
	case "form-swap":
		// the signature of one form offered as the other form
		var lerr error
		var okRef bool
		if c.Abbrev {
			other := &cose.Countersignature{Headers: cose.Headers{Protected: cose.ProtectedHeader{}}, Signature: sig}
			lerr = other.Verify(ver, p.obj(c.Pointer), ext) // (fails on the alg check already when ext is empty)
			okRef = refCsigValid(p.ref, false, []byte{}, ext, c.Key, sig)
		} else {
			lerr = cose.VerifyCountersign0(ver, p.obj(c.Pointer), ext, sig)
			okRef = refCsigValid(p.ref, true, []byte{}, ext, c.Key, sig)
		}
		if lerr == nil || okRef {
			return finding("form-confusion", "%s: a countersignature verifies as the other form (lib err=%v, ref=%v)", p.path, lerr, okRef)
		}
		stats.Class("mutation/form-swap")
		// and offered as a message signature over the same fields
		if !c.Abbrev {
			s1 := &cose.Sign1Message{Headers: real.Headers, Payload: p.ref.Payload, Signature: sig}
			if s1.Payload == nil {
				s1.Payload = []byte{}
			}
			if err := s1.Verify(ext, ver); err == nil {
				return finding("replayed-as-message-signature", "%s: a countersignature verifies as a COSE_Sign1 signature", p.path)
			}
			sgn := &cose.Signature{Headers: real.Headers, Signature: sig}
			if err := sgn.Verify(ver, rc.Encode(rc.Bytes(p.ref.BodyProt), nil), s1.Payload, ext); err == nil {
				return finding("replayed-as-message-signature", "%s: a countersignature verifies as a COSE_Signature", p.path)
			}
			stats.Class("mutation/replay-as-message-signature")
		}
		q = nil
	}
	if q != nil {
		lerr := verify(q, e2)
		okRef := refCsigValid(qr, c.Abbrev, signProt, e2, c.Key, sig)
		if (lerr == nil) != okRef {
			return finding("binding-verdict", "%s after %q: library verdict %v, reference verdict %v", p.path, c.Mut, lerr, okRef)
		}
		if okRef != preserved {
			return finding("binding-model", "%s after %q: countersignature validity is %v, the RFC 9338 structure says %v", p.path, c.Mut, okRef, preserved)
		}
		stats.Class("mutation/" + c.Mut)
	}
	stats.Class(fmt.Sprintf("parent/%v/ptr=%v", p.kind, c.Pointer))
	if noncanon || c.Mut != "none" {
		stats.NTBytes(c.W.Wire, []byte(p.path), []byte(c.Mut), []byte(fmt.Sprint(c.Abbrev, c.Pointer)))
		stats.Sample(fmt.Sprintf("c10/%v/%s", p.kind, c.Mut), map[string]any{"parent_kind": p.kind.String(), "parent_path": p.path, "abbreviated": c.Abbrev, "mutation": c.Mut, "to_be_signed": rc.Hex(want)})
	}
	return nil
}

func maxInt(a, b int) int {
	if a > b {
		return a
	}
	return b
}

func minW(n int) int {
	switch {
	case n < 24:
		return 0
	case n < 256:
		return 1
	case n < 65536:
		return 2
	}
	return 4
}

func init() { register("c10", checkC10) }

func genC10Case(t *rapid.T) c10Case {
	o := c07Opts()
	o.HugeLens = false
	o.MaxSigners = 3
	o.Hdr.MaxEntries = 8
	a := refcose.AlgEdDSA
	o.FixedAlg = &a
	wc, _ := genWireCase(t, o, true)
	c := c10Case{W: wc, Sel: rapid.IntRange(0, 11).Draw(t, "parent"), Pointer: rapid.Bool().Draw(t, "pointer"), Abbrev: rapid.Bool().Draw(t, "abbrev")}
	c.Key = gen.KeyMat(t, rapid.SampledFrom([]int64{refcose.AlgEdDSA, refcose.AlgEdDSA, refcose.AlgES256, refcose.AlgES384, refcose.AlgPS256}).Draw(t, "csalg"))
	if rapid.IntRange(0, 2).Draw(t, "has-ext") == 0 {
		c.Ext = gen.Blob(t, "ext", 1+rapid.IntRange(0, 40).Draw(t, "extlen"))
	}
	ho := peerHdrOpts()
	ho.MaxEntries = 6
	ho.Val.NaN = false
	if len(c.Ext) == 0 || rapid.Bool().Draw(t, "cs-alg") {
		if rapid.IntRange(0, 2).Draw(t, "cs-alg-present") != 0 || len(c.Ext) > 0 {
			alg := c.Key.Alg
			ho.Alg = &alg
		}
	}
	c.CsProt, c.CsUnprot = gen.Headers(t, ho)
	if rapid.IntRange(0, 3).Draw(t, "raw-cs") == 0 {
		c.RawWidth = rapid.SampledFrom([]int{1, 2, 4, 8}).Draw(t, "raw-width")
	}
	c.Mut = rapid.SampledFrom([]string{"none", "unprotected", "protected-head-width", "protected-content", "payload", "parent-signature", "external", "kind-swap", "form-swap"}).Draw(t, "mut")
	return c
}

func TestC10_Decoded(t *testing.T) {
	begin(t, "C10", "decoded")
	prop(t, func(rt *rapid.T) {
		c := genC10Case(rt)
		stats.Eval()
		judge(rt, "c10", c, checkC10)
	})
}

// ---------------------------------------------------------------------------
// refusals

type c10RefusalCase struct {
	Parent string `json:"parent"`
	Op     string `json:"op"`
}

func c10RefusalParent(name string) any {
	signed1 := cose.Sign1Message{Headers: cose.Headers{Protected: cose.ProtectedHeader{}}, Payload: []byte("p"), Signature: []byte{1}}
	switch name {
	case "Sign1-unsigned":
		m := signed1
		m.Signature = nil
		return &m
	case "Sign1-unsigned-value":
		m := signed1
		m.Signature = []byte{}
		return m
	case "Sign1-nil-payload":
		m := signed1
		m.Payload = nil
		return &m
	case "Sign1-nil-payload-value":
		m := signed1
		m.Payload = nil
		return m
	case "Sign-no-signatures":
		return &cose.SignMessage{Payload: []byte("p")}
	case "Sign-no-signatures-value":
		return cose.SignMessage{Payload: []byte("p"), Signatures: []*cose.Signature{}}
	case "Sign-nil-payload":
		return &cose.SignMessage{Signatures: []*cose.Signature{{Signature: []byte{1}}}}
	case "Signature-unsigned":
		return &cose.Signature{}
	case "Signature-unsigned-value":
		return cose.Signature{Signature: []byte{}}
	case "Countersignature-unsigned":
		return &cose.Countersignature{}
	case "Countersignature-unsigned-value":
		return cose.Countersignature{}
	case "Untagged-pointer":
		m := cose.UntaggedSign1Message(signed1)
		return &m
	case "Untagged-value":
		return cose.UntaggedSign1Message(signed1)
	case "nil":
		return nil
	case "string":
		return "parent"
	case "bytes":
		return []byte{0xd2, 0x84, 0x40, 0xa0, 0x41, 0x70, 0x41, 0x01}
	case "Headers":
		return &cose.Headers{}
	case "pointer-to-pointer":
		p := &signed1
		return &p
	}
	panic("unknown refusal parent " + name)
}

var c10RefusalParents = []string{"Sign1-unsigned", "Sign1-unsigned-value", "Sign1-nil-payload", "Sign1-nil-payload-value", "Sign-no-signatures",
	"Sign-no-signatures-value", "Sign-nil-payload", "Signature-unsigned", "Signature-unsigned-value", "Countersignature-unsigned",
	"Countersignature-unsigned-value", "Untagged-pointer", "Untagged-value", "nil", "string", "bytes", "Headers", "pointer-to-pointer"}

func checkC10Refusal(c c10RefusalCase) error {
	parent := c10RefusalParent(c.Parent)
	spyS := &bridge.SpySigner{Alg: cose.AlgorithmEdDSA}
	spyV := &bridge.SpyVerifier{Alg: cose.AlgorithmEdDSA}
	var err error
	var out []byte
	switch c.Op {
	case "Sign":
		cs := cose.NewCountersignature()
		err = cs.Sign(refcose.NewEntropy(nil), spyS, parent, nil)
		out = cs.Signature
	case "Countersign0":
		out, err = cose.Countersign0(refcose.NewEntropy(nil), spyS, parent, []byte("x"))
	case "Verify":
		cs := &cose.Countersignature{Headers: cose.Headers{Protected: cose.ProtectedHeader{int64(1): cose.AlgorithmEdDSA}}, Signature: []byte{1}}
		err = cs.Verify(spyV, parent, nil)
	case "VerifyCountersign0":
		err = cose.VerifyCountersign0(spyV, parent, nil, []byte{1})
	}
	if err == nil {
		return finding("refusal-missing", "%s over parent %q succeeds; unsigned, payload-less and unsupported parents must be refused", c.Op, c.Parent)
	}
	if spyS.NCalls()+spyV.NCalls() != 0 {
		return finding("key-invoked-on-refused-parent", "%s over parent %q: key invoked although the parent is refused (%v)", c.Op, c.Parent, err)
	}
	if len(out) != 0 {
		return finding("bytes-with-refusal", "%s over parent %q returned bytes with an error", c.Op, c.Parent)
	}
	return nil
}

func init() { register("c10refusal", checkC10Refusal) }

func TestC10_Refusals(t *testing.T) {
	begin(t, "C10", "refusals")
	n := 0
	for _, p := range c10RefusalParents {
		for _, op := range []string{"Sign", "Countersign0", "Verify", "VerifyCountersign0"} {
			c := c10RefusalCase{Parent: p, Op: op}
			n++
			stats.Eval()
			judge(t, "c10refusal", c, checkC10Refusal)
			stats.NTBytes([]byte(p), []byte(op))
			stats.Class("refused-parent")
			if n%7 == 0 {
				stats.Sample("refusal", c)
			}
		}
	}
	stats.ExhaustivePart("refusal-table", n)
}
