package props

import (
	"fmt"
	"strings"
	"testing"

	cose "github.com/veraison/go-cose"

	"verifharness/bridge"
	rc "verifharness/refcbor"
	"verifharness/refcose"
	"verifharness/stats"
)

// Deterministic tables for two refusal clauses that the random parts reach
// only through their negation: (C02) the payload position of a Sig_structure
// holds the payload byte string, so a message without payload (detached, not
// supplied again) is refused before any key is invoked, or at least no key is
// ever handed a structure with null in that position; (C03) a message without a signature is not
// validly signed, whatever the verifier would say.

type refusalCase struct {
	Kind      string `json:"kind"`      // Sign1, Untagged, Sign, Signature
	Op        string `json:"op"`        // sign, verify
	Payload   string `json:"payload"`   // nil, empty, set
	Signature string `json:"signature"` // nil, empty, set (verify only)
	Ext       bool   `json:"ext"`
}

func checkRefusal(c refusalCase) error {
	var payload []byte
	switch c.Payload {
	case "empty":
		payload = []byte{}
	case "set":
		payload = []byte("payload")
	}
	var sig []byte
	switch c.Signature {
	case "empty":
		sig = []byte{}
	case "set":
		sig = []byte{1, 2, 3}
	}
	var ext []byte
	if c.Ext {
		ext = []byte("external")
	}
	spyS := &bridge.SpySigner{Alg: cose.AlgorithmEdDSA}
	spyV := &bridge.SpyVerifier{Alg: cose.AlgorithmEdDSA} // accepts everything
	hdr := func() cose.Headers {
		return cose.Headers{Protected: cose.ProtectedHeader{int64(1): cose.AlgorithmEdDSA}, Unprotected: cose.UnprotectedHeader{}}
	}
	rnd := refcose.NewEntropy(nil)
	var err error
	switch c.Kind {
	case "Sign1":
		m := &cose.Sign1Message{Headers: hdr(), Payload: payload, Signature: sig}
		if c.Op == "sign" {
			err = m.Sign(rnd, ext, spyS)
		} else {
			err = m.Verify(ext, spyV)
		}
	case "Untagged":
		m := &cose.UntaggedSign1Message{Headers: hdr(), Payload: payload, Signature: sig}
		if c.Op == "sign" {
			err = m.Sign(rnd, ext, spyS)
		} else {
			err = m.Verify(ext, spyV)
		}
	case "Sign":
		m := &cose.SignMessage{Headers: cose.Headers{Protected: cose.ProtectedHeader{}}, Payload: payload, Signatures: []*cose.Signature{{Headers: hdr(), Signature: sig}}}
		if c.Op == "sign" {
			err = m.Sign(rnd, ext, spyS)
		} else {
			err = m.Verify(ext, spyV)
		}
	case "Signature":
		s := &cose.Signature{Headers: hdr(), Signature: sig}
		if c.Op == "sign" {
			err = s.Sign(rnd, spyS, []byte{0x40}, payload, ext)
		} else {
			err = s.Verify(spyV, []byte{0x40}, payload, ext)
		}
	case "Csig/Sign1", "Csig0/Sign1", "Csig/Sign", "Csig0/Sign", "Csig/Sign1-value", "Csig0/Sign-value":
		// a countersignature (full / abbreviated) over a parent whose payload / signature is as the case says
		var parent any
		switch {
		case strings.Contains(c.Kind, "/Sign1"):
			p := &cose.Sign1Message{Headers: hdr(), Payload: payload, Signature: sig}
			parent = p
			if strings.HasSuffix(c.Kind, "-value") {
				parent = *p
			}
		default:
			p := &cose.SignMessage{Headers: cose.Headers{Protected: cose.ProtectedHeader{}}, Payload: payload, Signatures: []*cose.Signature{{Headers: hdr(), Signature: []byte{1, 2, 3}}}}
			parent = p
			if strings.HasSuffix(c.Kind, "-value") {
				parent = *p
			}
		}
		abbrev := strings.HasPrefix(c.Kind, "Csig0")
		switch {
		case abbrev && c.Op == "sign":
			_, err = cose.Countersign0(rnd, spyS, parent, ext)
		case abbrev:
			err = cose.VerifyCountersign0(spyV, parent, ext, []byte{4, 5, 6})
		case c.Op == "sign":
			err = (&cose.Countersignature{Headers: hdr()}).Sign(rnd, spyS, parent, ext)
		default:
			err = (&cose.Countersignature{Headers: hdr(), Signature: []byte{4, 5, 6}}).Verify(spyV, parent, ext)
		}
		if strings.Contains(c.Kind, "/Sign1") {
			// a COSE_Sign1 parent must itself be signed (its signature is part of what is countersigned)
			if c.Signature != "set" && c.Payload != "nil" {
				if err == nil || spyS.NCalls()+spyV.NCalls() != 0 {
					return finding("unsigned-parent-countersigned", "%+v: a countersignature operation over an unsigned COSE_Sign1 proceeds (err=%v, key invoked %d times)", c, err, spyS.NCalls()+spyV.NCalls())
				}
				stats.Class("refused/countersign/unsigned-parent")
				return nil
			}
		}
		if c.Payload != "nil" {
			if err != nil {
				return finding("refuses-complete-message", "%+v: %v", c, err)
			}
			stats.Class("proceeds/countersign/" + c.Op)
			return nil
		}
		c.Signature = "set" // (payload-less parent: judged by the rules below)
	}
	calls := spyS.NCalls() + spyV.NCalls()
	desc := fmt.Sprintf("%+v", c)
	if c.Payload == "nil" && err == nil && (c.Op == "sign" || c.Signature == "set") {
		// (the library refuses with ErrMissingPayload today; what the statement excludes is a key that is
		// handed a structure without a byte string in the payload position)
		tbs := spyS.Last()
		if c.Op == "verify" && len(spyV.Calls) > 0 {
			tbs = spyV.Calls[len(spyV.Calls)-1].Content
		}
		n, perr := rc.Parse(tbs)
		if perr != nil || n.Major != 4 || len(n.Items) < 4 || n.Items[len(n.Items)-1].Major != 2 {
			return finding("no-payload-in-payload-position", "%s: proceeds without a payload and hands the key a structure whose payload position is not a byte string: %x", desc, tbs)
		}
		stats.Class("proceeds-without-payload/bstr-in-position")
		return nil
	}
	mustRefuse := c.Payload == "nil" || (c.Op == "verify" && c.Signature != "set")
	if mustRefuse {
		if err == nil {
			return finding("unsigned-message-verifies", "%s: succeeds (key invoked %d times)", desc, calls)
		}
		if calls != 0 {
			return finding("key-invoked-on-refused-message", "%s: the key was invoked %d times although the call failed (%v)", desc, calls, err)
		}
		stats.Class("refused/" + c.Op + "/payload=" + c.Payload + "/signature=" + c.Signature)
		return nil
	}
	if err != nil {
		return finding("refuses-complete-message", "%s: %v", desc, err)
	}
	if calls != 1 {
		return finding("key-calls", "%s: key invoked %d times", desc, calls)
	}
	stats.Class("proceeds/" + c.Op + "/payload=" + c.Payload)
	return nil
}

func init() { register("refusal", checkRefusal) }

func runRefusals(t *testing.T, ops []string) int {
	n := 0
	for _, kind := range []string{"Sign1", "Untagged", "Sign", "Signature", "Csig/Sign1", "Csig0/Sign1", "Csig/Sign", "Csig0/Sign", "Csig/Sign1-value", "Csig0/Sign-value"} {
		for _, op := range ops {
			for _, p := range []string{"nil", "empty", "set"} {
				for _, sg := range []string{"nil", "empty", "set"} {
					for _, ext := range []bool{false, true} {
						if op == "sign" && sg != "nil" && !strings.HasPrefix(kind, "Csig") {
							continue // signing over an existing signature is not the subject here
						}
						if strings.HasPrefix(kind, "Csig") && strings.Contains(kind, "/Sign") && !strings.Contains(kind, "/Sign1") && sg != "set" {
							continue // (a COSE_Sign parent: its signers are not part of what is countersigned)
						}
						c := refusalCase{Kind: kind, Op: op, Payload: p, Signature: sg, Ext: ext}
						n++
						stats.Eval()
						stats.NTBytes([]byte(fmt.Sprintf("%+v", c)))
						judge(t, "refusal", c, checkRefusal)
					}
				}
			}
		}
	}
	return n
}

// TestC02_MissingPayload: sign and verify entry points x payload nil / empty /
// set: without payload no key is ever invoked (the payload position of the
// Sig_structure is a byte string); with an empty payload signing proceeds.
func TestC02_MissingPayload(t *testing.T) {
	begin(t, "C02", "missingpayload")
	stats.ExhaustivePart("entry point x op x payload x signature x external", runRefusals(t, []string{"sign", "verify"}))
}

// TestC03_Unsigned: a message or signature whose signature field is nil or
// empty never verifies, and the verifier is not even asked.
func TestC03_Unsigned(t *testing.T) {
	begin(t, "C03", "unsigned")
	stats.ExhaustivePart("entry point x payload x signature x external (verify)", runRefusals(t, []string{"verify"}))
}
