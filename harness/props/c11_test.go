package props

import (
	"crypto"
	"crypto/ecdsa"
	"errors"
	"fmt"
	"io"
	"sync"
	"testing"

	cose "github.com/veraison/go-cose"
	"pgregory.net/rapid"

	"verifharness/bridge"
	"verifharness/gen"
	rc "verifharness/refcbor"
	"verifharness/refcose"
	"verifharness/stats"
)

// pairwise distinct keys of mixed algorithms, by signer position (+1 spare)
var c11Keys = []refcose.KeyMat{
	{Alg: refcose.AlgEdDSA, D: rc.Hex("c11-key-0-ed25519-seed-32-bytes!")},
	{Alg: refcose.AlgES256, D: rc.Hex("c11-key-1")},
	{Alg: refcose.AlgES384, D: rc.Hex("c11-key-2")},
	{Alg: refcose.AlgPS256, RSA: "rsa2048"},
	{Alg: refcose.AlgEdDSA, D: rc.Hex("c11-key-4-ed25519-seed-32-bytes!")},
	{Alg: refcose.AlgES256, D: rc.Hex("c11-key-5")},
	{Alg: refcose.AlgPS256, RSA: "rsa2048b"},
}

type c11Case struct {
	N       int   `json:"n"`
	Slots   []int `json:"slots"`  // per signature: 0 intact, 1 bit flipped, 2 emptied
	VDelta  int   `json:"vdelta"` // number of verifiers minus n: -1, 0, +1
	Perm    int   `json:"perm"`   // 0 identity, 1 transposition of first and last, 2 rotation by one
	Decoded bool  `json:"decoded"`
	ExtNil  bool  `json:"ext_nil"`
	AlgLess bool  `json:"alg_less,omitempty"` // no signer carries alg (allowed with external data): all signer protected headers are the same empty bucket
	// PanicAt (position + 1; 0: none): the verifier at that position panics when it is invoked (a key
	// binding that dies on the data it is handed). Whatever the library does with that, it does not report success.
	PanicAt int `json:"panic_at,omitempty"`
	// IndefRaw (constructed messages): every signer's RawProtected is supplied by the caller as another valid
	// CBOR encoding of its map (indefinite-length map), next to the filled Protected map, and the signatures
	// are the reference's over exactly those bytes
	IndefRaw bool `json:"indef_raw,omitempty"`
	// WideHeads (decoded messages): every protected bucket travels behind a two-byte bstr head (58 nn). The
	// Sig_structure takes them in shortest form, so the signatures of the base message stay valid; with
	// RawFormSig the LAST slot instead carries a signature over the structure with the items as transmitted,
	// which is not that signer's Sig_structure
	WideHeads  bool `json:"wide_heads,omitempty"`
	RawFormSig bool `json:"raw_form_sig,omitempty"`
}

type panickingVerifier struct{ cose.Verifier }

func (p panickingVerifier) Verify(content, sig []byte) error {
	panic("verifier: device lost")
}

type c11Base struct {
	wire     []byte
	env      *refcose.Env
	sigs     [][]byte
	payload  []byte
	external []byte
}

var (
	c11BaseMu sync.Mutex
	c11Bases  = map[[2]int]*c11Base{}
)

// c11NewMessage builds the unsigned in-memory n-signer message.
func c11NewMessage(n int, algLess ...bool) *cose.SignMessage {
	m := &cose.SignMessage{
		Headers: cose.Headers{Protected: cose.ProtectedHeader{int64(3): "text/plain"}, Unprotected: cose.UnprotectedHeader{int64(4): []byte("body")}},
		Payload: []byte("positional payload"),
	}
	for i := 0; i < n; i++ {
		sig := &cose.Signature{Headers: cose.Headers{
			Protected:   cose.ProtectedHeader{int64(1): cose.Algorithm(c11Keys[i].Alg)},
			Unprotected: cose.UnprotectedHeader{int64(4): []byte{byte('a' + i)}},
		}}
		if len(algLess) > 0 && algLess[0] {
			sig.Headers.Protected = cose.ProtectedHeader{}
		}
		m.Signatures = append(m.Signatures, sig)
	}
	return m
}

func c11base(n int, algLess bool) (*c11Base, error) {
	c11BaseMu.Lock()
	defer c11BaseMu.Unlock()
	ck := [2]int{n, 0}
	if algLess {
		ck[1] = 1
	}
	if b, ok := c11Bases[ck]; ok {
		return b, nil
	}
	m := c11NewMessage(n, algLess)
	var ss []cose.Signer
	for i := 0; i < n; i++ {
		s, err := libSigner(c11Keys[i], false)
		if err != nil {
			return nil, err
		}
		ss = append(ss, s)
	}
	b := &c11Base{payload: m.Payload, external: []byte("c11 external")}
	if err := m.Sign(refcose.NewEntropy([]byte("c11")), b.external, ss...); err != nil {
		return nil, fmt.Errorf("signing the base message: %w", err)
	}
	for i, s := range m.Signatures {
		if len(s.Signature) == 0 {
			return nil, finding("sign-left-empty-slot", "Sign returned nil but slot %d of %d is empty", i, n)
		}
		b.sigs = append(b.sigs, append([]byte{}, s.Signature...))
	}
	w, err := m.MarshalCBOR()
	if err != nil {
		return nil, fmt.Errorf("encoding the base message: %w", err)
	}
	b.wire = w
	b.env, err = refcose.ParseEnv(refcose.KSign, w)
	if err != nil {
		return nil, err
	}
	c11Bases[ck] = b
	return b, nil
}

func permIndex(perm, n, i int) int {
	if n < 2 {
		return i
	}
	switch perm {
	case 1:
		if i == 0 {
			return n - 1
		}
		if i == n-1 {
			return 0
		}
	case 2:
		return (i + 1) % n
	}
	return i
}

func checkC11(c c11Case) error {
	n := c.N
	b, err := c11base(n, c.AlgLess)
	if err != nil {
		return err
	}
	var m *cose.SignMessage
	if c.Decoded {
		wire := b.wire
		if c.WideHeads {
			root, err := rc.MParse(b.wire, false)
			if err != nil {
				return fmt.Errorf("harness: %v", err)
			}
			arr := root.Child
			arr.Items[0].W = 1
			for _, sg := range arr.Items[3].Items {
				sg.Items[0].W = 1
			}
			wire = root.Enc()
			stats.Class("protected-buckets-behind-two-byte-heads")
		}
		m = &cose.SignMessage{}
		if err := m.UnmarshalCBOR(append([]byte{}, wire...)); err != nil {
			return finding("own-output-rejected", "%v", err)
		}
	} else {
		m = c11NewMessage(n, c.AlgLess)
	}
	sigs := make([][]byte, n)
	for i := 0; i < n; i++ {
		s := append([]byte{}, b.sigs[i]...)
		switch c.Slots[i] {
		case 1:
			s[len(s)/2] ^= 0x04
		case 2:
			s = []byte{}
			if i%2 == 1 {
				s = nil
			}
		}
		sigs[i] = s
		m.Signatures[i].Signature = s
	}
	rawFormSlot := -1
	if c.Decoded && c.WideHeads && c.RawFormSig && n >= 1 && c.Slots[n-1] == 0 {
		rawFormSlot = n - 1
		wide := func(content []byte) []byte { return append([]byte{0x58, byte(len(content))}, content...) }
		tbs := append([]byte{0x85, 0x69}, "Signature"...)
		tbs = append(tbs, wide(b.env.ProtContent())...)
		tbs = append(tbs, wide(b.env.Sigs[rawFormSlot].ProtContent())...)
		tbs = append(tbs, rc.Encode(rc.Bytes(b.external), nil)...)
		tbs = append(tbs, rc.Encode(rc.Bytes(b.payload), nil)...)
		s := refcose.Sign(c11Keys[rawFormSlot].Alg, c11Keys[rawFormSlot], tbs, []byte("raw-form"))
		sigs[rawFormSlot] = s
		m.Signatures[rawFormSlot].Signature = s
		stats.Class("signature-over-the-structure-with-items-as-transmitted")
	}
	signProt := func(i int) []byte { return b.env.Sigs[i].ProtContent() }
	if c.IndefRaw && !c.Decoded && !c.AlgLess {
		for i := 0; i < n; i++ {
			content := append(append([]byte{0xbf, 0x01}, rc.Encode(rc.Int(c11Keys[i].Alg), nil)...), 0xff)
			m.Signatures[i].Headers.RawProtected = rc.Encode(rc.Bytes(content), nil)
			tbs := refcose.SigStructure(b.env.ProtContent(), content, b.external, b.payload)
			s := refcose.Sign(c11Keys[i].Alg, c11Keys[i], tbs, []byte{byte(i)})
			switch c.Slots[i] {
			case 1:
				s[len(s)/2] ^= 0x04
			case 2:
				s = sigs[i]
			}
			sigs[i] = s
			m.Signatures[i].Signature = s
		}
		signProt = func(i int) []byte {
			return append(append([]byte{0xbf, 0x01}, rc.Encode(rc.Int(c11Keys[i].Alg), nil)...), 0xff)
		}
		stats.Class("caller-supplied-raw-protected/indefinite-length-map")
	}
	// verifiers
	nv := n + c.VDelta
	var vs []cose.Verifier
	var vkeys []refcose.KeyMat
	for i := 0; i < nv; i++ {
		k := c11Keys[len(c11Keys)-1]
		if i < n {
			k = c11Keys[permIndex(c.Perm, n, i)]
		}
		v, err := libVerifier(k, false)
		if err != nil {
			return err
		}
		if c.Decoded {
			// half of the table: every key runs other library operations before it looks at its bytes
			v = reentrantVerifier{v}
		}
		if c.PanicAt == i+1 {
			v = panickingVerifier{v}
		}
		vs = append(vs, v)
		vkeys = append(vkeys, k)
	}
	ext := b.external
	var libErr error
	panicked := false
	func() {
		defer func() {
			if r := recover(); r != nil {
				if c.PanicAt == 0 {
					panic(r)
				}
				panicked = true
				libErr = fmt.Errorf("panic: %v", r)
			}
		}()
		libErr = m.Verify(ext, vs...)
	}()
	if c.PanicAt != 0 {
		if libErr == nil {
			return finding("verifies-though-verifier-panicked", "SignMessage.Verify returns nil for %+v although the verifier at position %d never returned a verdict (it panicked)", c, c.PanicAt-1)
		}
		stats.Class(fmt.Sprintf("panicking-verifier/propagated=%v", panicked))
		return nil
	}
	// reference verdict, slot by slot
	want := nv == n && n >= 1
	model := want
	anyBad, moved := false, false
	for i := 0; i < n && i < nv; i++ {
		tbs := refcose.SigStructure(b.env.ProtContent(), signProt(i), ext, b.payload)
		ok := len(sigs[i]) > 0 && (c.AlgLess || vkeys[i].Alg == c11Keys[i].Alg) && refcose.Verify(vkeys[i].Alg, vkeys[i].Public(), tbs, sigs[i])
		if !ok {
			want = false
		}
		mok := c.Slots[i] == 0 && permIndex(c.Perm, n, i) == i && i != rawFormSlot
		if !mok {
			model = false
		}
		if c.Slots[i] != 0 {
			anyBad = true
		}
		if permIndex(c.Perm, n, i) != i {
			moved = true
		}
	}
	if want != model {
		return fmt.Errorf("harness: reference verdict %v differs from the positional model %v for %+v", want, model, c)
	}
	if (libErr == nil) != want {
		if libErr == nil {
			return finding("verifies-though-invalid", "SignMessage.Verify returns nil for %+v (n=%d, verifiers=%d): not every signature verifies under the verifier at its position", c, n, nv)
		}
		return finding("rejects-though-valid", "SignMessage.Verify fails (%v) for %+v although every signature verifies positionally", libErr, c)
	}
	// encoding: any empty slot (or n = 0) must make the message unencodable
	hasEmpty := false
	for _, s := range c.Slots {
		if s == 2 {
			hasEmpty = true
		}
	}
	out, encErr := m.MarshalCBOR()
	if (hasEmpty || n == 0) && encErr == nil {
		return finding("encodes-empty-signature", "MarshalCBOR emits a COSE_Sign with an empty signature / no signatures for %+v: %x", c, out)
	}
	if !hasEmpty && n > 0 && encErr != nil {
		return finding("cannot-encode", "MarshalCBOR fails for a fully signed message: %v", encErr)
	}
	// decoding: the reference encoding of the same message with empty slots must be refused
	if hasEmpty || n == 0 {
		root, err := rc.MParse(b.wire, true)
		if err == nil {
			for _, s := range sigSlots(refcose.KSign, &root) {
				var i int
				fmt.Sscanf(s.Path, "/t/3/%d/2", &i)
				if i < n && c.Slots[i] == 2 {
					s.Get().Bytes = []byte{}
				}
			}
			var d cose.SignMessage
			if err := d.UnmarshalCBOR(root.Enc()); err == nil {
				return finding("decodes-empty-signature", "UnmarshalCBOR accepts a COSE_Sign with an empty signature: %x", root.Enc())
			}
		}
	}
	stats.Class(fmt.Sprintf("n/%d", n))
	stats.Class(fmt.Sprintf("verifiers/n%+d", c.VDelta))
	stats.Class(fmt.Sprintf("perm/%d", c.Perm))
	if want {
		stats.Class("verdict/nil")
	} else {
		stats.Class("verdict/error")
	}
	if n >= 2 && (anyBad || moved) {
		stats.NTBytes([]byte(fmt.Sprintf("%+v", c)))
	}
	return nil
}

func init() { register("c11", checkC11) }

func c11MaxN() int {
	if tierThorough() {
		return 6
	}
	return 5
}

// TestC11_Table enumerates all combinations for n <= 5 (quick) / 6 (thorough).
func TestC11_Table(t *testing.T) {
	begin(t, "C11", "table")
	sh, nsh := gridShard()
	cnt := 0
	for n := 1; n <= c11MaxN(); n++ {
		total := 1
		for i := 0; i < n; i++ {
			total *= 3
		}
		for code := 0; code < total; code++ {
			slots := make([]int, n)
			x := code
			for i := range slots {
				slots[i] = x % 3
				x /= 3
			}
			for _, vd := range []int{-1, 0, 1} {
				for perm := 0; perm < 3; perm++ {
					for di := 0; di < 3; di++ {
						dec, algLess := di == 1, di == 2
						cnt++
						if cnt%nsh != sh {
							continue
						}
						c := c11Case{N: n, Slots: slots, VDelta: vd, Perm: perm, Decoded: dec, AlgLess: algLess}
						if algLess {
							c.Decoded = code%2 == 0
							stats.Class("alg-less-signers")
						}
						stats.Eval()
						judge(t, "c11", c, checkC11)
						if cnt%211 == 0 {
							stats.Sample(fmt.Sprintf("table/n=%d", n), c)
						}
						if di == 1 && perm == 0 {
							// the same decoded cell with all protected buckets behind two-byte heads, and once more with a
							// signature over the as-transmitted structure in the last slot
							for _, rf := range []bool{false, true} {
								c4 := c
								c4.WideHeads, c4.RawFormSig = true, rf
								stats.Eval()
								judge(t, "c11", c4, checkC11)
							}
						}
						if di == 0 && perm == 0 {
							// the same cell with every signer's raw protected bytes supplied by the caller
							c2 := c
							c2.IndefRaw = true
							stats.Eval()
							judge(t, "c11", c2, checkC11)
						}
						if vd == 0 && perm == 0 && code < n {
							// all signatures intact but one (or none): the verifier at each position in turn panics
							for at := 1; at <= n; at++ {
								c3 := c
								c3.PanicAt = at
								stats.Eval()
								judge(t, "c11", c3, checkC11)
							}
						}
					}
				}
			}
		}
	}
	stats.ExhaustivePart(fmt.Sprintf("bad-subset x verifier-count x permutation x origin, n<=%d", c11MaxN()), cnt/nsh)
}

// ---------------------------------------------------------------------------
// zero signatures, signer-count mismatch, failing signer at each position

type c11SignCase struct {
	N      int `json:"n"`
	Delta  int `json:"delta"`   // signers minus n
	FailAt int `json:"fail_at"` // -1: none
	// OpaqueAt >= 1: the signer of that slot minus one is a built-in ES256 signer over an opaque
	// crypto.Signer whose DER signature is followed by two padding bytes (a PKCS#11-style buffer)
	OpaqueAt int `json:"opaque_at,omitempty"`
	// FailBytes: the failing signer returns bytes together with its error
	FailBytes bool `json:"fail_bytes,omitempty"`
	// NilAt >= 1: that entry (minus one) of the Signatures list is a nil pointer; SignedAt >= 1: that entry already
	// holds signature bytes. Whatever the signer count, Sign does not report success for such a message
	NilAt    int `json:"nil_at,omitempty"`
	SignedAt int `json:"signed_at,omitempty"`
}

// trailingDERSigner wraps a real ECDSA key; its signatures carry trailing bytes.
type trailingDERSigner struct{ priv *ecdsa.PrivateKey }

func (t trailingDERSigner) Public() crypto.PublicKey { return &t.priv.PublicKey }
func (t trailingDERSigner) Sign(r io.Reader, digest []byte, o crypto.SignerOpts) ([]byte, error) {
	der, err := t.priv.Sign(r, digest, o)
	if err != nil {
		return nil, err
	}
	return append(der, 0x00, 0x00), nil
}

func checkC11Sign(c c11SignCase) error {
	m := c11NewMessage(c.N)
	ns := c.N + c.Delta
	var ss []cose.Signer
	for i := 0; i < ns; i++ {
		k := c11Keys[i%len(c11Keys)]
		sp := bridge.RefSigner(k, []byte("c11sign"))
		sp.Reenter = reenterLibrary
		if i == c.FailAt {
			sp.Mode = bridge.SignErr
			if c.FailBytes {
				sp.Mode = bridge.SignPartial
			}
		}
		if c.OpaqueAt == i+1 {
			priv := refcose.KeyMat{Alg: refcose.AlgES256, D: rc.Hex("c11-opaque")}.Private().(*ecdsa.PrivateKey)
			os, err := cose.NewSigner(cose.AlgorithmES256, trailingDERSigner{priv})
			if err != nil {
				return err
			}
			m.Signatures[i].Headers.Protected = cose.ProtectedHeader{int64(1): cose.AlgorithmES256}
			ss = append(ss, os)
			continue
		}
		ss = append(ss, sp)
	}
	if c.NilAt >= 1 && c.NilAt <= len(m.Signatures) {
		m.Signatures[c.NilAt-1] = nil
	}
	if c.SignedAt >= 1 && c.SignedAt <= len(m.Signatures) && m.Signatures[c.SignedAt-1] != nil {
		m.Signatures[c.SignedAt-1].Signature = []byte{1, 2, 3}
	}
	err := func() (err error) {
		defer func() {
			if r := recover(); r != nil && c.NilAt >= 1 {
				err = fmt.Errorf("panic: %v", r) // a nil entry may be refused by a panic; never by success
			} else if r != nil {
				panic(r)
			}
		}()
		return m.Sign(refcose.NewEntropy(nil), nil, ss...)
	}()
	if c.NilAt >= 1 || c.SignedAt >= 1 {
		if err == nil {
			return finding("sign-succeeds", "SignMessage.Sign returns nil for %+v: the list holds a nil entry / an entry that was signed before", c)
		}
		if _, encErr := m.MarshalCBOR(); encErr == nil && c.NilAt >= 1 {
			return finding("encodes-half-signed", "a COSE_Sign whose signature list holds a nil entry is encodable")
		}
		stats.Class("sign-side/odd-slots")
		return nil
	}
	filled := 0
	for _, s := range m.Signatures {
		if len(s.Signature) > 0 {
			filled++
		}
	}
	shouldFail := c.N == 0 || c.Delta != 0 || c.FailAt >= 0
	if shouldFail && err == nil {
		return finding("sign-succeeds", "SignMessage.Sign returns nil for %+v", c)
	}
	if err == nil && filled != c.N {
		return finding("sign-left-empty-slot", "Sign returned nil with %d of %d slots filled", filled, c.N)
	}
	if c.FailAt >= 0 && c.Delta == 0 && !errors.Is(err, bridge.ErrInjected) {
		return finding("sign-error-lost", "Sign returned %v, not the failing signer's error", err)
	}
	_, encErr := m.MarshalCBOR()
	if (err != nil || c.N == 0) && encErr == nil {
		return finding("encodes-half-signed", "a message for which Sign failed (%v) is encodable (%d of %d slots hold bytes)", err, filled, c.N)
	}
	if c.FailAt >= 0 && c.Delta == 0 && c.FailAt < len(m.Signatures) && len(m.Signatures[c.FailAt].Signature) != 0 {
		return finding("signature-stored-on-failure", "the slot of the failing signer %d holds %x", c.FailAt, m.Signatures[c.FailAt].Signature)
	}
	if c.N == 0 {
		if encErr == nil {
			return finding("encodes-no-signatures", "a COSE_Sign without signatures is encodable")
		}
		if err := m.Verify(nil); err == nil {
			return finding("verifies-no-signatures", "a COSE_Sign without signatures verifies with zero verifiers")
		}
		var d cose.SignMessage
		if err := d.UnmarshalCBOR([]byte{0xd8, 0x62, 0x84, 0x40, 0xa0, 0x41, 0x70, 0x80}); err == nil {
			return finding("decodes-no-signatures", "a COSE_Sign with an empty signatures array is decodable")
		}
	}
	if err == nil {
		// fully signed: verifies positionally
		var vs []cose.Verifier
		for i := 0; i < c.N; i++ {
			if c.OpaqueAt == i+1 {
				vs = append(vs, bridge.RefVerifier(refcose.KeyMat{Alg: refcose.AlgES256, D: rc.Hex("c11-opaque")}))
				continue
			}
			rv := bridge.RefVerifier(c11Keys[i])
			rv.Reenter = reenterLibrary
			vs = append(vs, rv)
		}
		if err := m.Verify(nil, vs...); err != nil {
			return finding("fresh-message-rejected", "%v", err)
		}
		for _, sg := range ss {
			if sp, ok := sg.(*bridge.SpySigner); ok && sp.Corrupted {
				return finding("tbs-unstable-while-in-use", "the bytes handed to a signer changed while it was still using them (another library operation ran in between)")
			}
		}
	}
	stats.Class("sign-side")
	stats.NTBytes([]byte(fmt.Sprintf("%+v", c)))
	return nil
}

func init() { register("c11sign", checkC11Sign) }

func TestC11_SignSide(t *testing.T) {
	begin(t, "C11", "signside")
	cnt := 0
	for n := 0; n <= 6; n++ {
		for _, d := range []int{-1, 0, 1} {
			if n+d < 0 {
				continue
			}
			for f := -1; f < n+d; f++ {
				for op := 0; op <= n && (op == 0 || (d == 0 && f < 0)); op++ {
					for _, fb := range []bool{false, true} {
						if fb && f < 0 {
							continue
						}
						c := c11SignCase{N: n, Delta: d, FailAt: f, OpaqueAt: op, FailBytes: fb}
						cnt++
						stats.Eval()
						judge(t, "c11sign", c, checkC11Sign)
						if cnt%9 == 0 {
							stats.Sample("sign-side", c)
						}
					}
				}
			}
		}
	}
	// nil entries and already signed entries at every position, with as many signers as entries, as open entries, one less, one more
	for n := 1; n <= 4; n++ {
		for at := 1; at <= n; at++ {
			for _, d := range []int{-2, -1, 0, 1} {
				if n+d < 0 {
					continue
				}
				for _, which := range []int{0, 1} {
					c := c11SignCase{N: n, Delta: d, FailAt: -1}
					if which == 0 {
						c.NilAt = at
					} else {
						c.SignedAt = at
					}
					cnt++
					stats.Eval()
					judge(t, "c11sign", c, checkC11Sign)
				}
			}
		}
	}
	stats.ExhaustivePart("signer-count x failing-position, n<=6", cnt)
}

// ---------------------------------------------------------------------------
// random: reference-signed peer-encoded COSE_Sign with generated headers

type c11RandCase struct {
	W     wireCase `json:"w"`
	Slots []int    `json:"slots"` // 0 intact, 1 flipped
	Perm  []int    `json:"perm"`  // verifier i uses key Perm[i]
	Drop  int      `json:"drop"`  // -1 / 0 / +1 verifiers
}

func checkC11Rand(c c11RandCase) error {
	spec := &c.W.Spec
	n := len(spec.Sigs)
	root, err := rc.MParse(c.W.Wire, true)
	if err != nil {
		return err
	}
	for _, s := range sigSlots(refcose.KSign, &root) {
		var i int
		fmt.Sscanf(s.Path, "/t/3/%d/2", &i)
		if c.Slots[i] == 1 {
			x := s.Get()
			x.Bytes[len(x.Bytes)-1] ^= 1
		}
	}
	wire := root.Enc()
	m, err := decodeLib(refcose.KSign, wire)
	if err != nil {
		return finding("rejected", "%v", err)
	}
	if spec.Detached {
		*m.payload() = append([]byte{}, spec.Payload...)
	}
	var vs []cose.Verifier
	want := c.Drop == 0
	for i := 0; i < n+c.Drop; i++ {
		k := spec.Sigs[c.Perm[i%n]].Key
		v, err := libVerifier(k, false)
		if err != nil {
			return err
		}
		vs = append(vs, v)
		if i < n {
			same := fmt.Sprint(k) == fmt.Sprint(spec.Sigs[i].Key)
			if c.Slots[i] != 0 || !same {
				want = false
			}
		}
	}
	libErr := m.verify(spec.Ext(), vs...)
	if (libErr == nil) != want {
		return finding("positional-verdict", "Verify = %v, positional model says valid=%v (slots=%v perm=%v drop=%d)\nwire=%x", libErr, want, c.Slots, c.Perm, c.Drop, wire)
	}
	stats.Class(fmt.Sprintf("random/n=%d", n))
	if want {
		stats.Class("random/verdict-nil")
	} else {
		stats.Class("random/verdict-error")
	}
	if n >= 2 {
		stats.NTBytes(wire, []byte(fmt.Sprint(c.Perm, c.Drop)))
	}
	return nil
}

func init() { register("c11rand", checkC11Rand) }

func TestC11_Random(t *testing.T) {
	begin(t, "C11", "random")
	prop(t, func(rt *rapid.T) {
		o := c07Opts()
		o.Kinds = []refcose.Kind{refcose.KSign}
		o.Csigs = false
		o.HugeLens = false
		o.Hdr.MaxEntries = 6
		wc, _ := genWireCase(rt, o, true)
		n := len(wc.Spec.Sigs)
		// distinct keys are needed for the positional model
		seen := map[string]bool{}
		for _, s := range wc.Spec.Sigs {
			id := fmt.Sprint(s.Key)
			if seen[id] {
				stats.Excluded("duplicate-key-in-one-message")
				return
			}
			seen[id] = true
		}
		c := c11RandCase{W: wc, Slots: make([]int, n), Drop: rapid.SampledFrom([]int{0, 0, 0, -1, 1}).Draw(rt, "drop")}
		for i := range c.Slots {
			if rapid.IntRange(0, 3).Draw(rt, "bad") == 0 {
				c.Slots[i] = 1
			}
		}
		id := make([]int, n)
		for i := range id {
			id[i] = i
		}
		c.Perm = id
		if n > 1 && rapid.Bool().Draw(rt, "permute") {
			c.Perm = rapid.Permutation(id).Draw(rt, "perm")
		}
		stats.Eval()
		judge(rt, "c11rand", c, checkC11Rand)
	})
}

var _ = gen.Alg
