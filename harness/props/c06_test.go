package props

import (
	"crypto/ecdsa"
	"crypto/ed25519"
	"crypto/sha256"
	"crypto/x509"
	"fmt"
	"math"
	"runtime/debug"
	"testing"
	"time"

	cose "github.com/veraison/go-cose"
	"pgregory.net/rapid"

	"verifharness/gen"
	rc "verifharness/refcbor"
	"verifharness/refcose"
	"verifharness/stats"
)

// fixed keys used by the follow-up operations of C06 (one per family).
var (
	c06Keys = []refcose.KeyMat{
		{Alg: refcose.AlgEdDSA, D: rc.Hex("0123456789abcdef0123456789abcdef")},
		{Alg: refcose.AlgES256, D: rc.Hex("c06-es256")},
		{Alg: refcose.AlgES384, D: rc.Hex("c06-es384")},
		{Alg: refcose.AlgES512, D: rc.Hex("c06-es512")},
		{Alg: refcose.AlgPS256, RSA: "rsa2048"},
	}
)

type c06Tools struct {
	signers   []cose.Signer
	verifiers []cose.Verifier
}

func c06tools() (*c06Tools, error) {
	t := &c06Tools{}
	for _, km := range c06Keys {
		s, err := libSigner(km, false)
		if err != nil {
			return nil, err
		}
		v, err := libVerifier(km, false)
		if err != nil {
			return nil, err
		}
		t.signers = append(t.signers, s)
		t.verifiers = append(t.verifiers, v)
	}
	return t, nil
}

// guard runs f and turns a panic into a finding keyed by the panic message
// and the operation.
func guard(op string, wire []byte, f func()) (err error) {
	// the operation runs under a watchdog: a call that has not returned after 60 s on an input of a few kilobytes
	// (the unchanged library answers in microseconds) is reported as a hang; the stuck goroutine is left behind
	done := make(chan error, 1)
	go func() {
		defer func() {
			if r := recover(); r != nil {
				done <- finding("panic/"+op, "%s panics on a value decoded from %x: %v\n%s", op, wire, r, debug.Stack())
				return
			}
			done <- nil
		}()
		f()
	}()
	select {
	case err = <-done:
		return err
	case <-time.After(60 * time.Second):
		return finding("hang/"+op, "%s has not returned after 60 s on (a value decoded from) %x", op, wire)
	}
}

// exerciseHeaders calls the header accessors and verifies every nested
// countersignature against parent.
func exerciseHeaders(tl *c06Tools, h *cose.Headers, parent any, depth int) {
	if h == nil {
		return
	}
	h.Protected.Algorithm()
	h.Protected.Critical()
	h.Protected.PayloadHashAlgorithm()
	h.MarshalProtected()
	h.MarshalUnprotected()
	for _, l := range []int64{7, 11} {
		switch c := h.Unprotected[l].(type) {
		case *cose.Countersignature:
			exerciseCsig(tl, c, parent, depth)
		case []*cose.Countersignature:
			for _, x := range c {
				exerciseCsig(tl, x, parent, depth)
			}
		}
	}
	for _, l := range []int64{9, 12} {
		if sig, ok := h.Unprotected[l].([]byte); ok {
			for _, v := range tl.verifiers[:2] {
				cose.VerifyCountersign0(v, parent, nil, sig)
			}
		}
	}
}

func exerciseCsig(tl *c06Tools, c *cose.Countersignature, parent any, depth int) {
	if depth > 6 {
		return
	}
	for _, v := range tl.verifiers {
		c.Verify(v, parent, nil)
		c.Verify(v, parent, []byte("ext"))
	}
	c.MarshalCBOR()
	// a decoded countersignature is itself a countersigning parent (exactly as the decoder handed it out)
	if depth <= 2 {
		countersignAll(tl, c)
	}
	if c != nil {
		exerciseHeaders(tl, &c.Headers, c, depth+1)
		exerciseHeaders(tl, &c.Headers, *c, depth+1)
	}
}

// countersignAll makes new full and abbreviated countersignatures over parent.
func countersignAll(tl *c06Tools, parent any) {
	rnd := refcose.NewEntropy([]byte("c06"))
	for i, s := range tl.signers[:2] {
		cs := cose.NewCountersignature()
		if err := cs.Sign(rnd, s, parent, nil); err == nil {
			cs.Verify(tl.verifiers[i], parent, nil)
			cs.MarshalCBOR()
		}
		if sig, err := cose.Countersign0(rnd, s, parent, []byte("x")); err == nil {
			cose.VerifyCountersign0(tl.verifiers[i], parent, []byte("x"), sig)
		}
	}
}

// followUps runs every operation reachable from a value a decoder returned.
func followUps(tl *c06Tools, kind refcose.Kind, v any, wire []byte) error {
	bodyProt := []byte{0x40}
	payload := []byte("payload")
	switch m := v.(type) {
	case *cose.Sign1Message:
		return guard("Sign1Message follow-ups", wire, func() {
			exerciseHeaders(tl, &m.Headers, m, 0)
			exerciseHeaders(tl, &m.Headers, *m, 0)
			countersignAll(tl, m)
			countersignAll(tl, *m)
			m.MarshalCBOR()
			for _, ver := range tl.verifiers {
				m.Verify(nil, ver)
				m.Verify([]byte("ext"), ver)
			}
			exerciseHeaders(tl, &m.Headers, m, 0)
			exerciseHeaders(tl, &m.Headers, *m, 0)
			countersignAll(tl, m)
			countersignAll(tl, *m)
			if m.Payload == nil {
				m.Payload = []byte("detached")
				m.Verify(nil, tl.verifiers[0])
				countersignAll(tl, m)
			}
			m.Headers.RawProtected, m.Headers.RawUnprotected = nil, nil
			m.MarshalCBOR()
			m.Verify(nil, tl.verifiers[0])
			m.Signature = nil
			m.Sign(refcose.NewEntropy(nil), nil, tl.signers[0])
			m.Sign(refcose.NewEntropy(nil), []byte("e"), tl.signers[1])
		})
	case *cose.UntaggedSign1Message:
		return guard("UntaggedSign1Message follow-ups", wire, func() {
			m.MarshalCBOR()
			for _, ver := range tl.verifiers {
				m.Verify(nil, ver)
				m.Verify([]byte("ext"), ver)
			}
			s1 := (*cose.Sign1Message)(m)
			exerciseHeaders(tl, &m.Headers, s1, 0)
			countersignAll(tl, s1)
			// ... and the value exactly as the decoder handed it out, by pointer and by value (today: an
			// error, "unsupported target")
			exerciseHeaders(tl, &m.Headers, m, 0)
			exerciseHeaders(tl, &m.Headers, *m, 0)
			countersignAll(tl, m)
			countersignAll(tl, *m)
			m.Headers.RawProtected, m.Headers.RawUnprotected = nil, nil
			m.MarshalCBOR()
			m.Signature = nil
			m.Sign(refcose.NewEntropy(nil), nil, tl.signers[0])
		})
	case *cose.SignMessage:
		return guard("SignMessage follow-ups", wire, func() {
			m.MarshalCBOR()
			for _, ver := range tl.verifiers {
				vs := make([]cose.Verifier, len(m.Signatures))
				for i := range vs {
					vs[i] = ver
				}
				m.Verify(nil, vs...)
				m.Verify([]byte("ext"), vs...)
			}
			m.Verify(nil)
			m.Verify(nil, tl.verifiers[0])
			exerciseHeaders(tl, &m.Headers, m, 0)
			exerciseHeaders(tl, &m.Headers, *m, 0)
			countersignAll(tl, m)
			countersignAll(tl, *m)
			bp, _ := m.Headers.MarshalProtected()
			for _, s := range m.Signatures {
				if s == nil {
					continue
				}
				exerciseHeaders(tl, &s.Headers, s, 0)
				exerciseHeaders(tl, &s.Headers, *s, 0)
				countersignAll(tl, s)
				s.MarshalCBOR()
				for _, ver := range tl.verifiers[:2] {
					s.Verify(ver, bp, payload, nil)
				}
			}
			if m.Payload == nil {
				m.Payload = []byte("detached")
				m.Verify(nil, tl.verifiers[0])
			}
			m.Headers.RawProtected, m.Headers.RawUnprotected = nil, nil
			for _, s := range m.Signatures {
				if s != nil {
					s.Headers.RawProtected, s.Headers.RawUnprotected = nil, nil
				}
			}
			m.MarshalCBOR()
			ss := make([]cose.Signer, len(m.Signatures))
			for i := range ss {
				ss[i] = tl.signers[i%len(tl.signers)]
				if m.Signatures[i] != nil {
					m.Signatures[i].Signature = nil
				}
			}
			m.Sign(refcose.NewEntropy(nil), []byte("e"), ss...)
		})
	case *cose.Signature:
		return guard("Signature follow-ups", wire, func() {
			m.MarshalCBOR()
			for _, ver := range tl.verifiers {
				m.Verify(ver, bodyProt, payload, nil)
				m.Verify(ver, bodyProt, payload, []byte("ext"))
				m.Verify(ver, nil, payload, nil)
			}
			exerciseHeaders(tl, &m.Headers, m, 0)
			exerciseHeaders(tl, &m.Headers, *m, 0)
			countersignAll(tl, m)
			countersignAll(tl, *m)
			m.Headers.RawProtected, m.Headers.RawUnprotected = nil, nil
			m.MarshalCBOR()
			m.Signature = nil
			m.Sign(refcose.NewEntropy(nil), tl.signers[0], bodyProt, payload, nil)
		})
	case *cose.Countersignature:
		return guard("Countersignature follow-ups", wire, func() {
			m.MarshalCBOR()
			parent := &cose.Sign1Message{Headers: cose.Headers{Protected: cose.ProtectedHeader{}}, Payload: payload, Signature: []byte{1, 2, 3}}
			exerciseCsig(tl, m, parent, 0)
			exerciseCsig(tl, m, cose.Signature{Signature: []byte{1}}, 0)
			countersignAll(tl, m)
			countersignAll(tl, *m)
			m.Headers.RawProtected, m.Headers.RawUnprotected = nil, nil
			m.MarshalCBOR()
			m.Signature = nil
			m.Sign(refcose.NewEntropy(nil), tl.signers[0], parent, nil)
		})
	case *cose.ProtectedHeader:
		return guard("ProtectedHeader follow-ups", wire, func() {
			m.MarshalCBOR()
			m.Algorithm()
			m.Critical()
			m.PayloadHashAlgorithm()
			msg := &cose.Sign1Message{Headers: cose.Headers{Protected: *m}, Payload: payload}
			if msg.Sign(refcose.NewEntropy(nil), []byte("e"), tl.signers[0]) == nil {
				msg.MarshalCBOR()
				msg.Verify([]byte("e"), tl.verifiers[0])
			}
		})
	case *cose.UnprotectedHeader:
		return guard("UnprotectedHeader follow-ups", wire, func() {
			m.MarshalCBOR()
			msg := &cose.Sign1Message{Headers: cose.Headers{Unprotected: *m}, Payload: payload}
			if msg.Sign(refcose.NewEntropy(nil), nil, tl.signers[0]) == nil {
				msg.MarshalCBOR()
				msg.Verify(nil, tl.verifiers[0])
				exerciseHeaders(tl, &msg.Headers, msg, 0)
			}
		})
	}
	return nil
}

// keyFollowUps runs everything reachable from a decoded COSE_Key.
func keyFollowUps(k *cose.Key, wire []byte) error {
	return guard("Key follow-ups", wire, func() {
		k.MarshalCBOR()
		// a key handed out without error is used the way applications use keys: compared, fed back into the
		// constructors, serialised by the standard library
		if pub, err := k.PublicKey(); err == nil {
			switch p := pub.(type) {
			case *ecdsa.PublicKey:
				p.Equal(p)
				p.Curve.IsOnCurve(p.X, p.Y)
				x509.MarshalPKIXPublicKey(p)
			case ed25519.PublicKey:
				p.Equal(p)
				x509.MarshalPKIXPublicKey(p)
			}
			if k2, err := cose.NewKeyFromPublic(pub); err == nil {
				k2.MarshalCBOR()
			}
		}
		if priv, err := k.PrivateKey(); err == nil {
			switch p := priv.(type) {
			case *ecdsa.PrivateKey:
				p.Equal(p)
				p.PublicKey.Equal(&p.PublicKey)
			case ed25519.PrivateKey:
				p.Equal(p)
			}
			if k2, err := cose.NewKeyFromPrivate(priv); err == nil {
				k2.MarshalCBOR()
			}
		}
		k.AlgorithmOrDefault()
		k.EC2()
		k.OKP()
		k.Symmetric()
		for _, l := range []any{int64(-1), int64(-2), int64(-3), int64(-4), "x", int64(99)} {
			k.ParamBytes(l)
			k.ParamInt(l)
			k.ParamUint(l)
			k.ParamString(l)
			k.ParamBool(l)
		}
		rnd := refcose.NewEntropy([]byte("c06key"))
		var sig []byte
		if s, err := k.Signer(); err == nil && s != nil {
			s.Algorithm()
			sig, _ = s.Sign(rnd, []byte("content"))
			if ds, ok := s.(cose.DigestSigner); ok {
				d := sha256.Sum256([]byte("content"))
				ds.SignDigest(rnd, d[:])
			}
		}
		if v, err := k.Verifier(); err == nil && v != nil {
			v.Algorithm()
			v.Verify([]byte("content"), sig)
			v.Verify([]byte("content"), []byte{1, 2, 3})
			v.Verify(nil, nil)
		}
	})
}

func nan() float64 { return math.NaN() }

const c06Deadline = 5 * time.Second

// checkC06: no decoding entry point panics or takes long on any input, and
// no follow-up operation on a decoded value panics.
func checkC06(c mutCase) error {
	tl, err := c06tools()
	if err != nil {
		return fmt.Errorf("harness: %v", err)
	}
	t0 := time.Now()
	decoded := false
	for _, k := range allKinds {
		var v any
		var derr error
		if err := guard(k.String()+" decoder", c.Wire, func() { v, derr = decodeAny(k, c.Wire) }); err != nil {
			return err
		}
		if derr != nil {
			continue
		}
		decoded = true
		stats.Class("decoded/" + k.String())
		if err := followUps(tl, k, v, c.Wire); err != nil {
			return err
		}
	}
	// COSE_Key
	var key cose.Key
	var kerr error
	if err := guard("Key decoder", c.Wire, func() { kerr = key.UnmarshalCBOR(append([]byte{}, c.Wire...)) }); err != nil {
		return err
	}
	if kerr == nil {
		decoded = true
		stats.Class("decoded/Key")
		if err := keyFollowUps(&key, c.Wire); err != nil {
			return err
		}
	}
	// hash envelope verification
	hvers := tl.verifiers[:2]
	if c.HKey != nil {
		if hv, err := libVerifier(*c.HKey, false); err == nil {
			hvers = append([]cose.Verifier{hv}, hvers...)
		}
	}
	for _, ver := range hvers {
		var m *cose.Sign1Message
		var herr error
		if err := guard("VerifyHashEnvelope", c.Wire, func() { m, herr = cose.VerifyHashEnvelope(ver, append([]byte{}, c.Wire...)) }); err != nil {
			return err
		}
		if herr == nil && m != nil {
			stats.Class("decoded/HashEnvelope")
		}
	}
	if el := time.Since(t0); el > c06Deadline && len(c.Wire) <= 1<<16 {
		// re-measure alone before it counts
		slow := 0
		for i := 0; i < 3; i++ {
			t1 := time.Now()
			for _, k := range allKinds {
				decodeAny(k, c.Wire)
			}
			var k2 cose.Key
			k2.UnmarshalCBOR(append([]byte{}, c.Wire...))
			if time.Since(t1) > c06Deadline {
				slow++
			}
		}
		if slow == 3 {
			return finding("slow", "decoding a %d-byte input takes more than %v (first run %v)\nwire=%x", len(c.Wire), c06Deadline, el, []byte(c.Wire))
		}
	}
	for _, m := range c.Muts {
		stats.Class("op/" + m.Op)
	}
	if decoded {
		stats.NTBytes(c.Wire)
		stats.Class("nontrivial")
		stats.Sample("decoded-mutant/"+c.SeedKind.String(), map[string]any{"seed_kind": c.SeedKind.String(), "wire": c.Wire, "mutations": c.Muts})
	}
	return nil
}

func init() { register("c06", checkC06) }

// genC06Case draws a mutated message / header / key, raw random bytes or a
// hostile constant.
func genC06Case(t *rapid.T) mutCase {
	switch rapid.IntRange(0, 9).Draw(t, "c06class") {
	case 0:
		b := rapid.SliceOfN(rapid.Byte(), 0, 64).Draw(t, "random-bytes")
		return mutCase{SeedKind: -1, Wire: b, Muts: []gen.Mutation{{Op: "random-bytes"}}}
	case 1, 2, 3:
		seed := genKeySeed(t)
		n := rapid.SampledFrom([]int{0, 1, 1, 2}).Draw(t, "nfaults")
		wire := seed
		var muts []gen.Mutation
		if n > 0 {
			wire, muts = gen.MutateWire(t, seed, n, gen.MutOpts{Key: true})
		}
		return mutCase{SeedKind: -2, Seed: seed, Wire: wire, Muts: muts}
	case 5:
		// a reference-built hash envelope (conforming or with governed labels moved around), possibly mutated
		hc := genC12VerifyCase(t)
		seed := c12Envelope(&hc)
		wire := seed
		var muts []gen.Mutation
		if n := rapid.SampledFrom([]int{0, 1, 1, 2}).Draw(t, "nfaults"); n > 0 {
			wire, muts = gen.MutateWire(t, seed, n, gen.MutOpts{})
		}
		return mutCase{SeedKind: refcose.KSign1, Seed: seed, Wire: wire, Muts: append(muts, gen.Mutation{Op: "hash-envelope-seed"}), HKey: &hc.Key}
	case 4:
		// deep nesting / huge declared lengths
		d := rapid.IntRange(1, 300).Draw(t, "depth")
		lead := rapid.SampledFrom([]byte{0x81, 0xa1, 0xc1, 0xd2, 0x9f, 0xbf, 0x5f}).Draw(t, "nest-byte")
		var b []byte
		if rapid.Bool().Draw(t, "msg-prefix") {
			b = []byte{0xd2, 0x84, 0x40}
		}
		for i := 0; i < d; i++ {
			b = append(b, lead)
			if lead == 0xa1 {
				b = append(b, 0x01)
			}
		}
		b = append(b, rapid.SampledFrom([][]byte{{0x00}, {0x5b, 0x7f, 0xff, 0xff, 0xff, 0xff, 0xff, 0xff, 0xff}, {0x9b, 0, 0, 0, 1, 0, 0, 0, 0}, {0xbb, 0xff, 0xff, 0xff, 0xff, 0xff, 0xff, 0xff, 0xff}, {}}).Draw(t, "tail")...)
		return mutCase{SeedKind: -1, Wire: b, Muts: []gen.Mutation{{Op: "deep-nesting"}}}
	}
	c := genMutCase(t, false)
	if rapid.IntRange(0, 3).Draw(t, "unmutated") == 0 {
		c.Wire, c.Muts = c.Seed, nil
	}
	return c
}

func TestC06_Mutants(t *testing.T) {
	begin(t, "C06", "mutants")
	prop(t, func(rt *rapid.T) {
		c := genC06Case(rt)
		stats.Eval()
		judge(rt, "c06", c, checkC06)
	})
}

// TestC06_KeyGrid runs the key decoder and every follow-up operation over the
// complete COSE_Key grid of C15 (kty x crv x alg x key_ops x lengths of x, y, d).
func TestC06_KeyGrid(t *testing.T) {
	begin(t, "C06", "keygrid")
	sh, nsh := gridShard()
	accepted := 0
	cnt := forEachKeyGridCell(sh, nsh, func(cell string, wire []byte) {
		stats.Eval()
		var key cose.Key
		var kerr error
		c := mutCase{SeedKind: -2, Wire: wire, Muts: []gen.Mutation{{Op: "key-grid", Path: cell}}}
		judge(t, "c06", c, func(c mutCase) error {
			if err := guard("Key decoder", c.Wire, func() { kerr = key.UnmarshalCBOR(append([]byte{}, c.Wire...)) }); err != nil {
				return err
			}
			if kerr != nil {
				return nil
			}
			accepted++
			stats.NTBytes(c.Wire)
			stats.Class("decoded/Key-grid")
			return keyFollowUps(&key, c.Wire)
		})
	})
	stats.ExhaustivePart("COSE_Key grid cells (decoder + follow-ups)", cnt/nsh)
}

// TestC06_HeaderGrid runs every decoder (and the follow-ups on success) over
// the reference encodings of the single-parameter header cells of C13 (25
// labels x 30 value kinds x both buckets x 7 contexts) and the same headers
// inside a COSE_Signature of a COSE_Sign and inside a nested countersignature.
func TestC06_HeaderGrid(t *testing.T) {
	begin(t, "C06", "headergrid")
	sh, nsh := gridShard()
	n := 0
	// values outside the documented data model (integers beyond int64, bignums, tagged items, deep nesting):
	// refusing them is fine, panicking is not
	deep := rc.Int(1)
	for i := 0; i < 40; i++ {
		deep = rc.Array(deep)
	}
	extra := []namedVal{
		{"uint>int64", rc.Uint(1 << 63)}, {"nint<int64", rc.NegU(1 << 63)}, {"array-uint>int64", rc.Array(rc.Uint(1<<64 - 1))},
		{"array-nint<int64", rc.Array(rc.NegU(1<<64 - 1))}, {"array-nint<int64-and-label", rc.Array(rc.Int(4), rc.NegU(1<<63))},
		{"bignum", rc.Tag(2, rc.Bytes([]byte{1, 0, 0, 0, 0, 0, 0, 0, 0}))}, {"array-bignum", rc.Array(rc.Tag(3, rc.Bytes([]byte{1})))},
		{"tagged-time", rc.Tag(1, rc.Int(1700000000))}, {"tagged-text-time", rc.Tag(0, rc.Text("not a time"))}, {"tag55799", rc.Tag(55799, rc.Int(-7))},
		{"deep-array", deep}, {"undefined", rc.Undef}, {"simple", rc.Simple(100)}, {"float16-nan", rc.Val{K: rc.KFloat16, F: 0x7e00}},
		{"map-with-array-key", rc.Map(rc.E(rc.Array(rc.Int(1)), rc.Int(1)))}, {"map-with-nan-keys", rc.Map(rc.E(rc.Float(nan()), rc.Int(1)), rc.E(rc.Float(nan()), rc.Int(2)))},
	}
	forEachSingleParamCell(false, func(hc c13Case) {
		n++
		if n%nsh != sh {
			return
		}
		_, wire := c13Wire(hc.Ctx, hc.Prot, hc.Unprot)
		wires := [][]byte{wire}
		if hc.Ctx == "signature" {
			// as the signer layer of a COSE_Sign and as a countersignature value
			wires = append(wires, append([]byte{0xd8, 0x62, 0x84, 0x40, 0xa0, 0x41, 'p', 0x81}, wire...))
			wires = append(wires, append(append([]byte{0xd2, 0x84, 0x40, 0xa1, 0x07}, wire...), 0x41, 'p', 0x41, 1))
		}
		for _, w := range wires {
			stats.Eval()
			c := mutCase{SeedKind: -1, Wire: w, Muts: []gen.Mutation{{Op: "header-grid", Path: hc.Cell}}}
			judge(t, "c06", c, checkC06)
		}
	}, extra...)
	stats.ExhaustivePart("single-parameter header cells (all decoders + follow-ups)", n/nsh)
}

// FuzzC06 is the native coverage-guided target for all nine entry points.
func FuzzC06(f *testing.F) {
	cur = propCtx{Property: "C06", Part: "fuzz"}
	for _, s := range fuzzSeeds() {
		f.Add(s)
	}
	f.Fuzz(func(t *testing.T, b []byte) {
		if len(b) > 1<<16 {
			return
		}
		judge(t, "c06", mutCase{SeedKind: -1, Wire: b}, checkC06)
	})
}
