package props

import (
	"bytes"
	"fmt"
	"testing"

	cose "github.com/veraison/go-cose"
	"pgregory.net/rapid"

	"verifharness/gen"
	rc "verifharness/refcbor"
	"verifharness/refcose"
	"verifharness/stats"
)

// wireCase is a reference-built, reference-signed message.
type wireCase struct {
	Spec gen.MsgSpec `json:"spec"`
	Wire rc.Hex      `json:"wire"`
	// Reentrant: every verifier runs other library operations between being handed its bytes and
	// reading them (see reenterLibrary)
	Reentrant bool `json:"reentrant,omitempty"`
}

func peerHdrOpts() gen.HeaderOpts {
	return gen.HeaderOpts{
		Val:        gen.ValOpts{Depth: 3, Floats: true, NaN: true, Tags: true, BstrKeys: true, BigInts: true},
		MaxEntries: 40,
	}
}

// genWireCase draws a conforming message and encodes it the way a peer may.
func genWireCase(t *rapid.T, o gen.MsgOpts, free bool) (wireCase, *gen.Builder) {
	spec := gen.Msg(t, o)
	b := &gen.Builder{T: t, Entropy: rapid.SliceOfN(rapid.Byte(), 4, 4).Draw(t, "entropy")}
	if free {
		b.Ch = &gen.RChooser{T: t, Free: true}
		b.PadProt, b.PadHuge = true, o.HugeLens
	}
	built := b.Build(&spec)
	return wireCase{Spec: spec, Wire: built.Wire}, b
}

// checkC07: a conforming message in any valid encoding is accepted and every
// reference-made signature on it verifies.
func checkC07(c wireCase) error {
	if err := refcose.WellFormed(c.Spec.Kind, c.Wire); err != nil {
		return finding("harness-inconsistent", "reference builder produced a message the reference judge rejects: %v\nwire=%x", err, []byte(c.Wire))
	}
	m, err := decodeLib(c.Spec.Kind, c.Wire)
	if err != nil {
		return finding("rejected", "conforming %v rejected: %v\nwire=%x", c.Spec.Kind, err, []byte(c.Wire))
	}
	if c.Spec.Detached {
		if *m.payload() != nil {
			return finding("detached", "nil payload decoded as %x", *m.payload())
		}
		*m.payload() = append([]byte{}, c.Spec.Payload...)
	} else if !bytes.Equal(*m.payload(), c.Spec.Payload) || *m.payload() == nil {
		return finding("payload", "payload decoded as %x (nil=%v), want %x", *m.payload(), *m.payload() == nil, []byte(c.Spec.Payload))
	}
	var vs []verifierT
	for _, s := range c.Spec.Sigs {
		v, err := libVerifier(s.Key, s.ViaKey)
		if err != nil {
			return finding("verifier", "cannot build verifier: %v", err)
		}
		if c.Reentrant {
			v = reentrantVerifier{v}
		}
		vs = append(vs, v)
	}
	var wrap func(cose.Verifier) cose.Verifier
	if c.Reentrant {
		wrap = func(v cose.Verifier) cose.Verifier { return reentrantVerifier{v} }
		stats.Class("verifiers-run-other-library-operations")
	}
	if err := m.verify(c.Spec.Ext(), vs...); err != nil {
		return finding("verify", "reference-signed %v does not verify: %v\nwire=%x", c.Spec.Kind, err, []byte(c.Wire))
	}
	// nil and empty external data are equivalent
	if len(c.Spec.Ext()) == 0 {
		alt := []byte{}
		if c.Spec.Ext() != nil {
			alt = nil
		}
		if err := m.verify(alt, vs...); err != nil {
			return finding("verify-ext-nil-empty", "nil/empty external not equivalent: %v", err)
		}
	}
	if err := verifyGroupsWith(m.headers().Unprotected, c.Spec.Groups, m.parent(len(c.Wire)%2 == 0), "msg", wrap); err != nil {
		return err
	}
	// the same conforming headers, taken in through the public Headers API into a Headers value that
	// held the headers of another message a moment ago (a receiver that keeps one Headers value): same
	// outcome as with the message decoder
	if env, err := refcose.ParseEnv(c.Spec.Kind, c.Wire); err == nil {
		used := func(prot, unprot []byte) (cose.Headers, error) {
			hh := cose.Headers{RawProtected: []byte{0x4e, 0xa3, 0x01, 0x38, 0x63, 0x05, 0x42, 0x01, 0x02, 0x18, 0x63, 0x63, 'o', 'l', 'd'}, RawUnprotected: []byte{0xa1, 0x04, 0x41, 0x09}}
			if err := hh.UnmarshalFromRaw(); err != nil {
				return hh, fmt.Errorf("harness: prior headers: %v", err)
			}
			hh.RawProtected, hh.RawUnprotected = append([]byte{}, prot...), append([]byte{}, unprot...)
			if err := hh.UnmarshalFromRaw(); err != nil {
				return hh, finding("rejected/headers-api", "Headers.UnmarshalFromRaw refuses the header buckets of a conforming %v: %v\nwire=%x", c.Spec.Kind, err, []byte(c.Wire))
			}
			return hh, nil
		}
		payload := append([]byte{}, c.Spec.Payload...)
		switch {
		case m.sm == nil:
			hh, err := used(env.Prot.Raw(), env.Unprot.Raw())
			if err != nil {
				return err
			}
			m2 := &cose.Sign1Message{Headers: hh, Payload: payload, Signature: append([]byte{}, env.Sig.Content...)}
			if err := m2.Verify(c.Spec.Ext(), vs[0]); err != nil {
				return finding("verify/headers-api", "a conforming %v whose buckets were taken in through Headers.UnmarshalFromRaw (into a Headers value used before) does not verify: %v (protected now %v)\nwire=%x", c.Spec.Kind, err, hh.Protected, []byte(c.Wire))
			}
		default:
			for i, se := range env.Sigs {
				hh, err := used(se.Prot.Raw(), se.Unprot.Raw())
				if err != nil {
					return err
				}
				sg := &cose.Signature{Headers: hh, Signature: append([]byte{}, se.Sig.Content...)}
				if err := sg.Verify(vs[i], env.Prot.Raw(), payload, c.Spec.Ext()); err != nil {
					return finding("verify/headers-api", "signer %d of a conforming COSE_Sign whose buckets were taken in through Headers.UnmarshalFromRaw (into a Headers value used before) does not verify: %v (protected now %v)\nwire=%x", i, err, hh.Protected, []byte(c.Wire))
				}
			}
		}
		stats.Class("headers-api-into-used-value")
	}
	if m.sm != nil {
		if len(m.sm.Signatures) != len(c.Spec.Sigs) {
			return finding("nsig", "%d signatures decoded, want %d", len(m.sm.Signatures), len(c.Spec.Sigs))
		}
		for i, s := range c.Spec.Sigs {
			var p any = m.sm.Signatures[i]
			if i%2 == 1 {
				p = *m.sm.Signatures[i]
			}
			if err := verifyGroupsWith(m.sm.Signatures[i].Headers.Unprotected, s.Groups, p, fmt.Sprintf("sig[%d]", i), wrap); err != nil {
				return err
			}
		}
	}
	return nil
}

func init() { register("c07", checkC07) }

func classifyWire(c *wireCase, b *gen.Builder) (nontrivial bool) {
	stats.Class("kind/" + c.Spec.Kind.String())
	for _, s := range c.Spec.Sigs {
		stats.Class("alg/" + refcose.AlgName(s.Key.Alg))
	}
	if n, d := specCsigStats(&c.Spec); n > 0 {
		stats.Class("with-countersignatures")
		stats.Class(fmt.Sprintf("csig-depth-%d", d))
	}
	if c.Spec.Detached {
		stats.Class("detached-payload")
	}
	if len(c.Spec.Sigs) >= 3 {
		stats.Class("signers>=3")
	}
	if b != nil && b.Ch != nil {
		if b.Ch.NonMinimal > 0 {
			stats.Class("choice/non-minimal-head")
			nontrivial = true
		}
		if b.Ch.Permuted > 0 {
			stats.Class("choice/key-order")
			nontrivial = true
		}
		if b.EmptyA0 > 0 {
			stats.Class("choice/empty-protected-a0")
			nontrivial = true
		}
		if b.Padded > 0 {
			stats.Class("protected-len/exactly-on-head-boundary")
		}
	}
	if env, err := refcose.ParseEnv(c.Spec.Kind, c.Wire); err == nil {
		switch n := len(env.Prot.Content); {
		case n == 0:
			stats.Class("protected-len/0")
		case n < 24:
			stats.Class("protected-len/<24")
		case n < 256:
			stats.Class("protected-len/24-255")
		default:
			stats.Class("protected-len/>=256")
		}
	}
	return
}

func c07Opts() gen.MsgOpts {
	return gen.MsgOpts{MaxSigners: 6, Csigs: true, Hdr: peerHdrOpts(), HugeLens: true, CrossCurve: true}
}

func TestC07_Random(t *testing.T) {
	begin(t, "C07", "random")
	prop(t, func(rt *rapid.T) {
		c, b := genWireCase(rt, c07Opts(), true)
		c.Reentrant = rapid.IntRange(0, 3).Draw(rt, "reentrant") == 0
		stats.Eval()
		if classifyWire(&c, b) {
			stats.NTBytes(c.Wire)
			stats.Sample("non-canonical/"+c.Spec.Kind.String(), map[string]any{"wire": c.Wire, "kind": c.Spec.Kind.String()})
		}
		judge(rt, "c07", c, checkC07)
	})
}
