package props

import (
	"bytes"
	"fmt"
	"strings"
	"testing"

	"github.com/fxamacker/cbor/v2"
	cose "github.com/veraison/go-cose"
	"pgregory.net/rapid"

	"verifharness/bridge"
	"verifharness/gen"
	rc "verifharness/refcbor"
	"verifharness/refcose"
	"verifharness/stats"
)

// The workspace machine: a generated history of operations on SEVERAL message
// objects that live side by side - construct, sign, verify, encode, decode
// into a new or a used variable, edit a header bucket / the payload / a
// signature in place, sign again, overwrite buffers the caller owns, run
// unrelated library operations. A small model knows, for every object, whether
// its signatures are valid over its current content; after every step every
// object is verified and the verdict compared with the model. The histories
// are what the single-scenario checks cannot enumerate: which object was
// encoded before which other one was decoded, what was edited in between, which
// variable was reused.
//
// One machine serves several properties; a violation is attributed to the
// property whose clause it contradicts (prefix of the finding key) and is
// reported by the run registered for that property:
//   C01  a message whose signing succeeded (and that was not touched since, or
//        that went through encode + decode) is rejected
//   C03  a message whose signed content was changed verifies
//   C09  an untouched decoded message does not re-encode to the predicted bytes
//   C19  decoding into a used variable gives another value than into a fresh one;
//        overwriting a caller-owned buffer changes an object

type wsOp struct {
	Op string `json:"op"`
	A  int    `json:"a,omitempty"`
	B  int    `json:"b,omitempty"`
	V  int    `json:"v,omitempty"`
}

type wsCase struct {
	Specs []gen.MsgSpec `json:"specs"`
	Ops   []wsOp        `json:"ops"`
}

type wsSlot struct {
	m      *libMsg
	spec   *gen.MsgSpec
	ss     []cose.Signer
	vs     []cose.Verifier
	signed bool
	valid  bool   // model: every signature is valid over the current protected bytes, payload and external data
	from   []byte // the bytes this object was decoded from, while nothing the encoder looks at was touched
	last   []byte // private copy of the last encoding
	lastOK bool   // validity of the content that encoding carried
	lastT  bool   // ... and whether its signature 0 carried the flipped bit (and the validity without it)
	lastP  bool
	born   int       // content identity the object was constructed with
	cver   int       // content identity: a fresh number whenever protected bytes or payload change; travels through encode / decode
	lastCv int       // ... of the last encoding
	csigs  []*wsCsig // countersignatures attached to the object (at most one full, one abbreviated)
	lastCs []wsCsig  // their state inside the last encoding
	pEdit  int       // value of the "ws-edit" parameter the caller last put into the protected / unprotected map (0: none)
	uEdit  int
	dec    bool // the object came out of a decoder (it retains raw header bytes, which an edit must discard)
	tmpl   bool // constructed in this history and never decoded into
	shared bool // its header maps are shared with a value copy (in-place edits would legitimately show in both)
	pure   bool // decoded and never edited since (only verified / encoded): a received message
	tamper bool // signature 0 currently has a flipped bit
	pre    bool // validity before the tamper
}

// wsCsig is a countersignature hanging in the unprotected bucket of an object (label 11: full,
// label 12: abbreviated), made by the fixed countersigner key over the object as it was then.
type wsCsig struct {
	abbrev bool
	ext    []byte
	cid    int    // identity of the parent content (protected bytes + payload) it was made over
	sig0   []byte // parent signature it was made over (COSE_Sign1 parents only)
}

var wsCsKey = refcose.KeyMat{Alg: refcose.AlgEdDSA, D: rc.Hex("workspace-countersigner-seed-32b!")}

func (s *wsSlot) sig0() []byte {
	if s.m.sm != nil {
		return nil // a countersignature on a COSE_Sign body does not cover the signers' signatures
	}
	return append([]byte{}, *s.sigs()[0]...)
}

func (s *wsSlot) csigValid(c *wsCsig) bool {
	return c.cid == s.cver && bytes.Equal(c.sig0, s.sig0())
}

func (s *wsSlot) sigs() []*[]byte {
	switch {
	case s.m.s1 != nil:
		return []*[]byte{&s.m.s1.Signature}
	case s.m.u1 != nil:
		return []*[]byte{&s.m.u1.Signature}
	}
	var out []*[]byte
	for _, sg := range s.m.sm.Signatures {
		out = append(out, &sg.Signature)
	}
	return out
}

// checkWorkspaceFor replays the history. only == "": every violation is returned; otherwise only
// violations attributed to that property end the run, the others are counted and the history goes on.
func checkWorkspaceFor(c wsCase, only string) error {
	fail := func(key, format string, args ...any) error {
		props := key[:strings.Index(key, ":")]
		if only == "" || strings.Contains(props, only) {
			return finding(key, format, args...)
		}
		stats.Class("ws/finding-of-another-property-left-to-its-own-run")
		return nil
	}
	var slots []*wsSlot
	var buffers [][]byte
	edits := 0
	nextContent := 0
	opaque := map[int][]cose.Signer{} // per spec: signers over opaque crypto.Signer wrappers, one object per key, shared by all objects made from the spec
	pick := func(i int) *wsSlot {
		if len(slots) == 0 {
			return nil
		}
		return slots[i%len(slots)]
	}
	sweep := func(step int, op wsOp) error {
		for i, s := range slots {
			if !s.signed {
				continue
			}
			err := s.m.verify(s.spec.Ext(), s.vs...)
			if (err == nil) != s.valid {
				if err != nil {
					key := "C01:valid-rejected"
					if s.pure {
						key = "C01+C07:valid-rejected" // an untouched received message that is validly signed
					}
					if e := fail(key, "after step %d (%+v): object %d (%v) carries valid signatures over its content but Verify fails: %v", step, op, i, s.spec.Kind, err); e != nil {
						return e
					}
					continue
				}
				if e := fail("C03:invalid-accepted", "after step %d (%+v): object %d (%v) verifies although its signed content was changed after signing", step, op, i, s.spec.Kind); e != nil {
					return e
				}
			}
		}
		// countersignatures bind to the exact parent they were made over
		csVer, err := libVerifier(wsCsKey, false)
		if err != nil {
			return err
		}
		for i, s := range slots {
			if !s.signed {
				continue
			}
			for ci, cs := range s.csigs {
				var verr error
				un := s.m.headers().Unprotected
				if cs.abbrev {
					sig, ok := un[int64(12)].([]byte)
					if !ok {
						verr = fmt.Errorf("abbreviated countersignature no longer in the unprotected bucket (%T)", un[int64(12)])
					} else {
						verr = cose.VerifyCountersign0(csVer, s.m.parent((step+ci)%2 == 0), cs.ext, sig)
					}
				} else {
					obj, ok := un[int64(11)].(*cose.Countersignature)
					if !ok {
						verr = fmt.Errorf("countersignature no longer in the unprotected bucket (%T)", un[int64(11)])
					} else {
						verr = obj.Verify(csVer, s.m.parent((step+ci)%2 == 1), cs.ext)
					}
				}
				if want := s.csigValid(cs); (verr == nil) != want {
					if verr != nil {
						if e := fail("C01+C10:countersignature-rejected", "after step %d (%+v): object %d (%v): a countersignature (abbreviated=%v) made over exactly the protected bytes, payload and signature the object has now is rejected: %v", step, op, i, s.spec.Kind, cs.abbrev, verr); e != nil {
							return e
						}
						continue
					}
					if e := fail("C10:countersignature-of-other-parent-accepted", "after step %d (%+v): object %d (%v): a countersignature (abbreviated=%v) verifies although the parent's protected bytes, payload or signature changed since it was made", step, op, i, s.spec.Kind, cs.abbrev); e != nil {
						return e
					}
				}
			}
		}
		return nil
	}
	for step, op := range c.Ops {
		switch op.Op {
		case "new":
			if len(c.Specs) == 0 || len(slots) >= 6 {
				continue
			}
			spec := c.Specs[op.A%len(c.Specs)]
			spec.Detached = false
			spec.Groups = nil
			for i := range spec.Sigs {
				spec.Sigs[i].Groups = nil
			}
			ss, vs, err := specSigners(&spec)
			if err != nil {
				return fmt.Errorf("harness: %v", err)
			}
			si := op.A % len(c.Specs)
			if si%2 == 1 {
				if opaque[si] == nil {
					for _, sg := range spec.Sigs {
						o, err := cose.NewSigner(cose.Algorithm(sg.Key.Alg), opaqueSigner{sg.Key.Private()})
						if err != nil {
							return fmt.Errorf("harness: %v", err)
						}
						opaque[si] = append(opaque[si], o)
					}
				}
				ss = opaque[si]
				stats.Class("ws/opaque-signers")
			}
			nextContent++
			slots = append(slots, &wsSlot{m: constructLib(&spec), spec: &spec, ss: ss, vs: vs, tmpl: true, cver: nextContent, born: nextContent})
			stats.Class("ws/new")
		case "copy-template":
			// an unsigned message used as a template: value copies, each signed on its own
			s := pick(op.A)
			if s == nil || s.signed || !s.tmpl || len(slots) >= 8 {
				continue
			}
			cp := *s
			cp.m = &libMsg{kind: s.m.kind}
			switch {
			case s.m.s1 != nil:
				v := *s.m.s1
				cp.m.s1 = &v
			case s.m.u1 != nil:
				v := *s.m.u1
				cp.m.u1 = &v
			default:
				v := *s.m.sm
				v.Signatures = nil
				for _, sg := range s.m.sm.Signatures {
					w := *sg
					v.Signatures = append(v.Signatures, &w)
				}
				cp.m.sm = &v
			}
			s.shared, cp.shared = true, true
			slots = append(slots, &cp)
			stats.Class("ws/copy-template")
		case "sign":
			s := pick(op.A)
			if s == nil || s.signed {
				continue
			}
			if err := s.m.sign(s.spec.Ext(), s.ss...); err != nil {
				// refused (e.g. alg mismatch injected by the generator): the object stays unsigned
				for _, p := range s.sigs() {
					*p = nil
				}
				stats.Class("ws/sign-refused")
				continue
			}
			s.signed, s.valid, s.from, s.tamper = true, true, nil, false
			stats.Class("ws/sign")
		case "encode":
			s := pick(op.A)
			if s == nil || !s.signed {
				continue
			}
			out, err := s.m.marshal()
			if err != nil {
				if e := fail("C01:signed-message-unencodable", "step %d: a completely signed %v cannot be encoded: %v", step, s.spec.Kind, err); e != nil {
					return e
				}
			}
			if s.from != nil {
				want, perr := predictReencode(s.spec.Kind, s.from)
				if perr == nil && !bytes.Equal(out, want) {
					if e := fail("C09:reencode-differs", "step %d: an untouched decoded %v does not re-encode to the predicted bytes\n  in=%x\n got=%x\nwant=%x", step, s.spec.Kind, s.from, out, want); e != nil {
						return e
					}
				}
				stats.Class("ws/encode-untouched-decoded")
			}
			if s.pEdit != 0 || s.uEdit != 0 {
				// what the caller put into the header maps is what gets emitted
				env, perr := refcose.ParseEnv(s.spec.Kind, out)
				if perr != nil {
					if e := fail("C01:own-output-unparseable", "step %d: %v\n%x", step, perr, out); e != nil {
						return e
					}
					continue
				}
				look := func(mp *rc.Node) int64 {
					if mp == nil {
						return 0
					}
					for i, k := range mp.Keys {
						if k.Major == 3 && string(k.Content) == "ws-edit" {
							v, _ := mp.Vals[i].Int64()
							return v
						}
					}
					return 0
				}
				if s.pEdit != 0 && look(env.ProtMap) != int64(s.pEdit) {
					if e := fail("C01:edit-ignored-by-encoder", "step %d: the protected parameter the caller set last (ws-edit = %d) is not in the emitted message\n%x", step, s.pEdit, out); e != nil {
						return e
					}
				}
				if s.uEdit != 0 && look(env.Unprot) != int64(s.uEdit) {
					if e := fail("C01:edit-ignored-by-encoder", "step %d: the unprotected parameter the caller set last (ws-edit = %d) is not in the emitted message\n%x", step, s.uEdit, out); e != nil {
						return e
					}
				}
				stats.Class("ws/encode-after-edit")
			}
			s.lastCs = nil
			for _, cs := range s.csigs {
				s.lastCs = append(s.lastCs, *cs)
			}
			s.lastCv = s.cver
			s.last, s.lastOK, s.lastT, s.lastP = append([]byte{}, out...), s.valid, s.tamper, s.pre
			buffers = append(buffers, out)
			stats.Class("ws/encode")
		case "decode", "decode-into", "copy-redecode":
			src := pick(op.A)
			if src == nil || src.last == nil {
				continue
			}
			buf := append([]byte{}, src.last...)
			buffers = append(buffers, buf)
			var dst *wsSlot
			if op.Op == "decode-into" || op.Op == "copy-redecode" {
				dst = pick(op.B)
				if dst == nil || dst.spec.Kind != src.spec.Kind {
					continue
				}
			}
			if op.Op == "copy-redecode" {
				// the caller keeps what the variable holds as a value copy (parsed = append(parsed, msg))
				// before the variable receives the next message: the copy is a message of its own
				if len(slots) >= 8 || !dst.signed {
					continue
				}
				cp := *dst
				cp.m = &libMsg{kind: dst.m.kind}
				switch {
				case dst.m.s1 != nil:
					v := *dst.m.s1
					cp.m.s1 = &v
				case dst.m.u1 != nil:
					v := *dst.m.u1
					cp.m.u1 = &v
				default:
					v := *dst.m.sm
					cp.m.sm = &v
				}
				slots = append(slots, &cp)
				stats.Class("ws/value-copy-before-variable-reuse")
			}
			if dst == nil {
				if len(slots) >= 8 {
					continue
				}
				m, err := decodeLibFrom(src.spec.Kind, buf)
				if err != nil {
					if e := fail("C01:own-output-rejected", "step %d: the decoder rejects the encoder's output: %v\n%x", step, err, buf); e != nil {
						return e
					}
					continue
				}
				ns := &wsSlot{m: m, spec: src.spec, ss: src.ss, vs: src.vs, signed: true, dec: true, pure: true, valid: src.lastOK, tamper: src.lastT, pre: src.lastP, from: append([]byte{}, src.last...), cver: src.lastCv}
				for _, cs := range src.lastCs {
					c2 := cs
					ns.csigs = append(ns.csigs, &c2)
				}
				slots = append(slots, ns)
				if e := wsNoSharedMaps(step, ns, slots, fail); e != nil {
					return e
				}
				stats.Class("ws/decode")
				break
			}
			var derr error
			switch {
			case dst.m.s1 != nil:
				derr = dst.m.s1.UnmarshalCBOR(buf)
			case dst.m.u1 != nil:
				derr = dst.m.u1.UnmarshalCBOR(buf)
			default:
				derr = dst.m.sm.UnmarshalCBOR(buf)
			}
			if derr != nil {
				if e := fail("C01:own-output-rejected", "step %d: the decoder rejects the encoder's output (decoding into a used variable): %v\n%x", step, derr, buf); e != nil {
					return e
				}
				return nil // the variable's state is undefined from here on
			}
			fresh, err := decodeLib(src.spec.Kind, src.last)
			if err != nil {
				if e := fail("C01:own-output-rejected", "step %d: %v", step, err); e != nil {
					return e
				}
				return nil
			}
			if a, b := bridge.DumpValue(dst.m.s1)+bridge.DumpValue(dst.m.u1)+bridge.DumpValue(dst.m.sm), bridge.DumpValue(fresh.s1)+bridge.DumpValue(fresh.u1)+bridge.DumpValue(fresh.sm); a != b {
				if e := fail("C19:history-dependent", "step %d: decoding into a used variable gives another value than decoding into a fresh one\nused =%s\nfresh=%s", step, a, b); e != nil {
					return e
				}
			}
			dst.spec, dst.ss, dst.vs = src.spec, src.ss, src.vs
			dst.dec, dst.pure, dst.pEdit, dst.uEdit, dst.tmpl, dst.shared = true, true, 0, 0, false, false
			dst.signed, dst.valid, dst.from, dst.tamper, dst.pre = true, src.lastOK, append([]byte{}, src.last...), src.lastT, src.lastP
			lastCs, lastCv := src.lastCs, src.lastCv
			dst.last, dst.cver, dst.csigs = nil, lastCv, nil
			for _, cs := range lastCs {
				c2 := cs
				dst.csigs = append(dst.csigs, &c2)
			}
			if e := wsNoSharedMaps(step, dst, slots, fail); e != nil {
				return e
			}
			stats.Class("ws/decode-into-used-variable")
		case "edit-protected", "edit-payload", "edit-unprotected":
			s := pick(op.A)
			if s == nil {
				continue
			}
			if op.Op == "edit-payload" && *s.m.payload() == nil {
				// a detached payload: whatever the caller attaches may be the very content that was signed
				continue
			}
			edits++
			s.pure = false
			h := s.m.headers()
			inPlace := op.B%2 == 1 && !s.shared // the caller writes into the map it was handed instead of installing a new one
			var others []string
			for _, o := range slots {
				others = append(others, bridge.DumpValue(o.m.s1)+bridge.DumpValue(o.m.u1)+bridge.DumpValue(o.m.sm))
			}
			switch op.Op {
			case "edit-protected":
				np := cose.ProtectedHeader{}
				if inPlace && h.Protected != nil {
					np = h.Protected
				}
				for k, v := range h.Protected {
					np[k] = v
				}
				np["ws-edit"] = int64(edits)
				if op.B%4 >= 2 {
					// ... and names another algorithm (a relay re-issuing the message under its own key)
					if a, ok := np[int64(1)].(cose.Algorithm); ok {
						if a == cose.AlgorithmES256 {
							np[int64(1)] = cose.AlgorithmEdDSA
						} else {
							np[int64(1)] = cose.AlgorithmES256
						}
						stats.Class("ws/edit-protected-algorithm")
					}
				}
				s.pEdit = edits
				h.Protected = np
				if s.dec {
					h.RawProtected = nil // (documented: retained raw bytes win over the map)
				}
			case "edit-payload":
				*s.m.payload() = append(append([]byte{}, *s.m.payload()...), byte(edits))
			default:
				nu := cose.UnprotectedHeader{}
				if inPlace && h.Unprotected != nil {
					nu = h.Unprotected
				}
				for k, v := range h.Unprotected {
					nu[k] = v
				}
				nu["ws-edit"] = int64(edits)
				s.uEdit = edits
				h.Unprotected = nu
				if s.dec {
					h.RawUnprotected = nil
				}
			}
			s.from = nil
			if op.Op != "edit-unprotected" {
				nextContent++
				s.cver = nextContent
			}
			if op.Op != "edit-unprotected" && s.signed {
				s.valid, s.pre = false, false
			}
			// objects are separate values: an edit of one is invisible in every other one
			for i, o := range slots {
				if o == s {
					continue
				}
				if now := bridge.DumpValue(o.m.s1) + bridge.DumpValue(o.m.u1) + bridge.DumpValue(o.m.sm); now != others[i] {
					if e := fail("C19:objects-share-state", "step %d: editing object %d (%s, in place: %v) changed object %d, which came out of another constructor / decoder call\nbefore=%s\n after=%s", step, op.A%len(slots), op.Op, inPlace, i, others[i], now); e != nil {
						return e
					}
				}
			}
			if inPlace {
				stats.Class("ws/edit-in-place")
			}
			stats.Class("ws/" + op.Op)
		case "countersign":
			s := pick(op.A)
			if s == nil || !s.signed || *s.m.payload() == nil {
				continue
			}
			abbrev := op.B%2 == 1
			for _, c0 := range s.csigs {
				if c0.abbrev == abbrev {
					abbrev = !abbrev
				}
			}
			dup := false
			for _, c0 := range s.csigs {
				if c0.abbrev == abbrev {
					dup = true
				}
			}
			if dup {
				continue
			}
			csS, err := libSigner(wsCsKey, false)
			if err != nil {
				return err
			}
			cs := &wsCsig{abbrev: abbrev, cid: s.cver, sig0: s.sig0()}
			if op.B%3 == 0 {
				cs.ext = []byte("countersigner's external data")
			}
			h := s.m.headers()
			nu := cose.UnprotectedHeader{}
			for k, v := range h.Unprotected {
				nu[k] = v
			}
			rnd := refcose.NewEntropy([]byte("ws-cs"))
			if abbrev {
				sig, err := cose.Countersign0(rnd, csS, s.m.parent(op.B%4 < 2), cs.ext)
				if err != nil {
					if e := fail("C10:countersigning-refused", "step %d: Countersign0 over a signed %v fails: %v", step, s.spec.Kind, err); e != nil {
						return e
					}
					continue
				}
				nu[int64(12)] = sig
			} else {
				obj := cose.NewCountersignature()
				if len(cs.ext) == 0 {
					obj.Headers.Protected.SetAlgorithm(cose.AlgorithmEdDSA)
				}
				if err := obj.Sign(rnd, csS, s.m.parent(op.B%4 < 2), cs.ext); err != nil {
					if e := fail("C10:countersigning-refused", "step %d: Countersignature.Sign over a signed %v fails: %v", step, s.spec.Kind, err); e != nil {
						return e
					}
					continue
				}
				nu[int64(11)] = obj
			}
			if _, taken := h.Unprotected[int64(11)]; taken && !abbrev && false {
				continue
			}
			h.Unprotected = nu
			if s.dec {
				h.RawUnprotected = nil
			}
			s.from, s.pure = nil, false
			s.csigs = append(s.csigs, cs)
			stats.Class("ws/countersign")
		case "detach-countersign":
			// the full countersignature of an object is kept as a detached COSE_Countersignature: encoded on
			// its own, parsed back from a buffer the caller reuses at once, and the parsed object takes the
			// place of the original one. Nothing it covers has changed.
			s := pick(op.A)
			if s == nil || !s.signed {
				continue
			}
			h := s.m.headers()
			obj, ok := h.Unprotected[int64(11)].(*cose.Countersignature)
			if !ok || obj == nil {
				continue
			}
			enc, err := obj.MarshalCBOR()
			if err != nil {
				if e := fail("C10:countersignature-unencodable", "step %d: a countersignature that verifies cannot be encoded on its own: %v", step, err); e != nil {
					return e
				}
				continue
			}
			buf := append(make([]byte, 0, len(enc)+16), enc...)
			back := new(cose.Countersignature)
			if op.B%2 == 0 {
				err = back.UnmarshalCBOR(buf)
			} else {
				err = cbor.Unmarshal(buf, back)
			}
			for i := range buf[:cap(buf)] {
				buf[:cap(buf)][i] ^= 0x5a
			}
			if err != nil {
				if e := fail("C01+C10:countersignature-own-output-rejected", "step %d: a COSE_Countersignature encoded on its own is refused by its decoder: %v\n%x", step, err, enc); e != nil {
					return e
				}
				continue
			}
			nu := cose.UnprotectedHeader{}
			for k, v := range h.Unprotected {
				nu[k] = v
			}
			nu[int64(11)] = back
			h.Unprotected = nu
			if s.dec {
				h.RawUnprotected = nil
			}
			s.from, s.pure = nil, false
			stats.Class("ws/countersignature-detached-and-parsed-back")
		case "detach-signature":
			// one COSE_Signature of a COSE_Sign goes through its own encoder and decoder (a caller storing
			// signatures separately) and the parsed object takes the place of the original
			s := pick(op.A)
			if s == nil || !s.signed || s.m.sm == nil || len(s.m.sm.Signatures) == 0 {
				continue
			}
			i := op.B % len(s.m.sm.Signatures)
			enc, err := s.m.sm.Signatures[i].MarshalCBOR()
			if err != nil {
				if e := fail("C01:signature-unencodable", "step %d: a COSE_Signature that is part of an encodable COSE_Sign cannot be encoded on its own: %v", step, err); e != nil {
					return e
				}
				continue
			}
			buf := append(make([]byte, 0, len(enc)+16), enc...)
			back := new(cose.Signature)
			err = back.UnmarshalCBOR(buf)
			for j := range buf[:cap(buf)] {
				buf[:cap(buf)][j] ^= 0x5a
			}
			if err != nil {
				if e := fail("C01:signature-own-output-rejected", "step %d: a COSE_Signature encoded on its own is refused by its decoder: %v\n%x", step, err, enc); e != nil {
					return e
				}
				continue
			}
			sigs := append([]*cose.Signature{}, s.m.sm.Signatures...)
			sigs[i] = back
			s.m.sm.Signatures = sigs
			s.from, s.pure = nil, false
			stats.Class("ws/signature-detached-and-parsed-back")
		case "tamper":
			s := pick(op.A)
			if s == nil || !s.signed {
				continue
			}
			p := s.sigs()[0]
			if len(*p) == 0 {
				continue
			}
			(*p)[len(*p)/2] ^= 0x20
			s.pure = false
			if !s.tamper {
				s.pre, s.valid, s.tamper = s.valid, false, true
			} else {
				s.valid, s.tamper = s.pre, false
			}
			s.from = nil
			stats.Class("ws/tamper-or-restore-signature")
		case "re-sign":
			s := pick(op.A)
			if s == nil || !s.signed {
				continue
			}
			for _, p := range s.sigs() {
				*p = nil
			}
			s.signed, s.valid, s.tamper, s.from, s.pure = false, false, false, nil, false
			if err := s.m.sign(s.spec.Ext(), s.ss...); err != nil {
				for _, p := range s.sigs() {
					*p = nil
				}
				stats.Class("ws/sign-refused")
				continue
			}
			s.signed, s.valid = true, true
			stats.Class("ws/re-sign")
		case "scribble":
			if len(buffers) == 0 {
				continue
			}
			var before []string
			for _, s := range slots {
				before = append(before, bridge.Dump(s.m.s1)+bridge.Dump(s.m.u1)+bridge.Dump(s.m.sm))
			}
			b := buffers[op.A%len(buffers)]
			for i := range b {
				b[i] ^= 0x5a
			}
			for i, s := range slots {
				if after := bridge.Dump(s.m.s1) + bridge.Dump(s.m.u1) + bridge.Dump(s.m.sm); after != before[i] {
					if e := fail("C19:aliases-caller-buffer", "step %d: overwriting a buffer the caller owns (an earlier decoder input or encoder output) changed object %d\nbefore=%s\n after=%s", step, i, before[i], after); e != nil {
						return e
					}
				}
			}
			stats.Class("ws/scribble")
		case "verify-refused":
			s := pick(op.A)
			if s == nil || !s.signed || len(s.vs) == 0 {
				continue
			}
			if err := wsVerifyRefused(step, op, s, slots, fail); err != nil {
				return err
			}
		case "decode-refused":
			src, dst := pick(op.A), pick(op.B)
			if src == nil || src.last == nil || dst == nil {
				continue
			}
			if err := wsDecodeRefused(step, op, src, dst, slots, fail); err != nil {
				if err == errStopHistory {
					return nil
				}
				return err
			}
		case "decode-detached-into":
			src, dst := pick(op.A), pick(op.B)
			if src == nil || src.last == nil || dst == nil || dst.spec.Kind != src.spec.Kind {
				continue
			}
			nextContent++
			if err := wsDecodeDetachedInto(step, src, dst, slots, nextContent, fail); err != nil {
				if err == errStopHistory {
					return nil
				}
				return err
			}
		case "sign-refused":
			s := pick(op.A)
			if s == nil || s.signed || len(s.ss) == 0 {
				continue
			}
			if err := wsSignRefused(step, op, s, fail); err != nil {
				return err
			}
		case "countersign-refused":
			s := pick(op.A)
			if s == nil || !s.signed {
				continue
			}
			if err := wsCountersignRefused(step, op, s, slots, fail); err != nil {
				return err
			}
		case "churn":
			reenterLibrary()
			stats.Class("ws/churn")
		}
		if err := sweep(step, op); err != nil {
			return err
		}
	}
	return nil
}

func checkWorkspace(c wsCase) error { return checkWorkspaceFor(c, "") }

// decodeLibFrom decodes from the caller's own buffer (no private copy).
func decodeLibFrom(kind refcose.Kind, buf []byte) (*libMsg, error) {
	m := &libMsg{kind: kind}
	switch kind {
	case refcose.KSign1:
		m.s1 = &cose.Sign1Message{}
		return m, m.s1.UnmarshalCBOR(buf)
	case refcose.KSign1Untagged:
		m.u1 = &cose.UntaggedSign1Message{}
		return m, m.u1.UnmarshalCBOR(buf)
	case refcose.KSign:
		m.sm = &cose.SignMessage{}
		return m, m.sm.UnmarshalCBOR(buf)
	}
	return nil, fmt.Errorf("decodeLibFrom: kind %v", kind)
}

func init() { register("ws", checkWorkspace) }

func genWorkspace(t *rapid.T) wsCase {
	o := c01Opts()
	o.Csigs = false
	o.HugeLens = false
	o.MaxSigners = 3
	o.Hdr.MaxEntries = 5
	o.Hdr.PadBoundary, o.Hdr.PadHuge = false, false
	c := wsCase{}
	n := rapid.IntRange(1, 3).Draw(t, "nspecs")
	directed := rapid.IntRange(0, 2).Draw(t, "directed-prelude") == 0
	if directed && n < 2 {
		n = 2
	}
	for i := 0; i < n; i++ {
		if rapid.IntRange(0, 2).Draw(t, "cheap-alg") != 0 {
			a := rapid.SampledFrom([]int64{refcose.AlgEdDSA, refcose.AlgES256}).Draw(t, "alg")
			o.FixedAlg = &a
		} else {
			o.FixedAlg = nil
		}
		spec := gen.Msg(t, o)
		if i > 0 && (rapid.Bool().Draw(t, "same-kind") || (directed && i == 1)) {
			spec.Kind = c.Specs[0].Kind
			if spec.Kind != refcose.KSign && len(spec.Sigs) > 1 {
				spec.Sigs = spec.Sigs[:1]
			}
			if spec.Kind == refcose.KSign && len(spec.Sigs) == 0 {
				spec.Kind = refcose.KSign1
			}
		}
		c.Specs = append(c.Specs, spec)
	}
	if rapid.IntRange(0, 3).Draw(t, "template-prelude") == 0 {
		// a template and two copies, each signed on its own
		c.Ops = append(c.Ops, wsOp{Op: "new"}, wsOp{Op: "copy-template"}, wsOp{Op: "copy-template"}, wsOp{Op: "sign", A: 1}, wsOp{Op: "sign", A: 2})
	}
	if directed {
		// two different messages of one kind arrive one after the other in the same variable; the first is set aside
		// by value before the second arrives; then something the decoder must refuse arrives in that variable
		c.Ops = append(c.Ops, wsOp{Op: "new"}, wsOp{Op: "sign"}, wsOp{Op: "encode"}, wsOp{Op: "new", A: 1}, wsOp{Op: "sign", A: 1}, wsOp{Op: "encode", A: 1},
			wsOp{Op: "decode", A: 0}, wsOp{Op: "copy-redecode", A: 1, B: 2},
			wsOp{Op: "decode-refused", A: 0, B: 2, V: rapid.IntRange(0, 7).Draw(t, "refused-variant")})
		if rapid.Bool().Draw(t, "then-detached") {
			c.Ops = append(c.Ops, wsOp{Op: "decode-detached-into", A: 0, B: 2})
		}
		return wsFinish(t, c)
	}
	c.Ops = append(c.Ops, wsOp{Op: "new"}, wsOp{Op: "sign"})
	if len(c.Specs) >= 2 && rapid.IntRange(0, 2).Draw(t, "prelude") == 0 {
		// two signed and encoded objects, each decoded once: objects 2 and 3 are decoded siblings
		c.Ops = append(c.Ops, wsOp{Op: "encode"}, wsOp{Op: "new", A: 1}, wsOp{Op: "sign", A: 1}, wsOp{Op: "encode", A: 1}, wsOp{Op: "decode", A: 0}, wsOp{Op: "decode", A: 1})
	}
	return wsFinish(t, c)
}

var wsOpNames = []string{"new", "sign", "sign", "encode", "encode", "decode", "decode", "decode-into", "decode-into", "edit-protected", "edit-payload", "edit-unprotected",
	"tamper", "tamper", "re-sign", "scribble", "churn", "encode", "decode", "copy-redecode", "copy-redecode", "copy-template", "copy-template", "countersign", "countersign", "countersign", "detach-countersign", "detach-countersign", "detach-signature",
	"verify-refused", "verify-refused", "decode-refused", "decode-refused", "sign-refused", "countersign-refused", "new", "decode-detached-into"}

func wsFinish(t *rapid.T, c wsCase) wsCase {
	k := rapid.IntRange(4, 24).Draw(t, "nops")
	for i := 0; i < k; i++ {
		c.Ops = append(c.Ops, wsOp{Op: rapid.SampledFrom(wsOpNames).Draw(t, "op"), A: rapid.IntRange(0, 7).Draw(t, "a"), B: rapid.IntRange(0, 7).Draw(t, "b"), V: rapid.IntRange(0, 7).Draw(t, "v")})
	}
	return c
}

// runWorkspace runs the machine for one property: findings that belong to
// another property's clause are left to the run registered there.
func runWorkspace(t *testing.T, prop_ string) {
	begin(t, prop_, "workspace")
	prop(t, func(rt *rapid.T) {
		c := genWorkspace(rt)
		stats.Eval()
		judge(rt, "ws", c, func(c wsCase) error {
			err := safely(func() error { return checkWorkspaceFor(c, prop_) })
			if f, ok := err.(*Finding); ok && f.Key != "panic" {
				return &Finding{Key: "workspace/" + f.Key[strings.Index(f.Key, ":")+1:], Msg: f.Msg}
			}
			return err
		})
		distinct := map[string]bool{}
		for _, op := range c.Ops {
			distinct[op.Op] = true
		}
		if len(distinct) >= 4 {
			stats.NTBytes([]byte(fmt.Sprintf("%+v", c.Ops)), []byte(fmt.Sprint(len(c.Specs))))
			if len(c.Ops) <= 8 {
				stats.Sample("workspace", c.Ops)
			}
		}
	})
}

func TestC01_Workspace(t *testing.T) { runWorkspace(t, "C01") }
func TestC03_Workspace(t *testing.T) { runWorkspace(t, "C03") }
func TestC07_Workspace(t *testing.T) { runWorkspace(t, "C07") }
func TestC09_Workspace(t *testing.T) { runWorkspace(t, "C09") }
func TestC10_Workspace(t *testing.T) { runWorkspace(t, "C10") }
func TestC19_Workspace(t *testing.T) { runWorkspace(t, "C19") }
func TestC05_Workspace(t *testing.T) { runWorkspace(t, "C05") }
func TestC11_Workspace(t *testing.T) { runWorkspace(t, "C11") }
func TestC18_Workspace(t *testing.T) { runWorkspace(t, "C18") }
func TestC20_Workspace(t *testing.T) { runWorkspace(t, "C20") }

var _ = rc.Hex(nil)
