package props

import (
	"fmt"
	"testing"

	cose "github.com/veraison/go-cose"

	rc "verifharness/refcbor"
	"verifharness/refcose"
	"verifharness/stats"
)

// Boundary sizes and degenerate signature values (C06): a payload, external data or protected header whose
// length sits exactly on a CBOR head boundary, and ECDSA / EdDSA / PSS signature fields of the right length whose
// halves are all zero, all ones or equal to the group order - every decoder and follow-up operation has to get
// through them without a panic. (A size computed with `<=` in one place and `<` in another, a conversion that
// indexes the first byte of an empty remainder.)

type c06SizeCase struct {
	Kind    refcose.Kind `json:"kind"`
	Alg     int64        `json:"alg"`
	PayLen  int          `json:"payload_len"`
	ExtLen  int          `json:"external_len"`
	ProtPad int          `json:"protected_pad"` // bytes of padding parameter in the protected header (0: none)
	Sig     rc.Hex       `json:"signature"`
}

func (c c06SizeCase) wire() []byte {
	prot := rc.Map(rc.E(rc.Int(1), rc.Int(c.Alg)))
	if c.ProtPad > 0 {
		prot = prot.With(rc.Text("pad"), rc.Bytes(make([]byte, c.ProtPad)))
	}
	pb := rc.Bytes(rc.Encode(prot, nil))
	payload := rc.Bytes(make([]byte, c.PayLen))
	switch c.Kind {
	case refcose.KSign:
		return rc.Encode(rc.Tag(98, rc.Array(rc.Bytes(nil), rc.Map(), payload, rc.Array(rc.Array(pb, rc.Map(), rc.Bytes(c.Sig))))), nil)
	case refcose.KSign1Untagged:
		return rc.Encode(rc.Array(pb, rc.Map(), payload, rc.Bytes(c.Sig)), nil)
	}
	return rc.Encode(rc.Tag(18, rc.Array(pb, rc.Map(), payload, rc.Bytes(c.Sig))), nil)
}

func checkC06Size(c c06SizeCase) error {
	tl, err := c06tools()
	if err != nil {
		return fmt.Errorf("harness: %v", err)
	}
	wire := c.wire()
	if err := checkC06(mutCase{SeedKind: c.Kind, Wire: wire}); err != nil {
		return err
	}
	ext := make([]byte, c.ExtLen)
	v, derr := decodeAny(c.Kind, wire)
	if derr != nil {
		return finding("boundary-input-refused", "a well-formed %v with payload of %d bytes and a protected header padded by %d is refused: %v", c.Kind, c.PayLen, c.ProtPad, derr)
	}
	return guard(fmt.Sprintf("Verify / Sign with %d bytes of external data", c.ExtLen), wire[:min(len(wire), 96)], func() {
		for i, ver := range tl.verifiers {
			switch m := v.(type) {
			case *cose.Sign1Message:
				m.Verify(ext, ver)
				cose.Countersign0(refcose.NewEntropy(nil), tl.signers[i], m, ext)
			case *cose.UntaggedSign1Message:
				m.Verify(ext, ver)
			case *cose.SignMessage:
				m.Verify(ext, ver)
				cose.Countersign0(refcose.NewEntropy(nil), tl.signers[i], m, ext)
				cose.Countersign0(refcose.NewEntropy(nil), tl.signers[i], m.Signatures[0], ext)
			}
		}
		switch m := v.(type) {
		case *cose.Sign1Message:
			m.Signature = nil
			m.Sign(refcose.NewEntropy(nil), ext, tl.signers[0])
		case *cose.UntaggedSign1Message:
			m.Signature = nil
			m.Sign(refcose.NewEntropy(nil), ext, tl.signers[0])
		case *cose.SignMessage:
			m.Signatures[0].Signature = nil
			m.Sign(refcose.NewEntropy(nil), ext, tl.signers[0])
		}
	})
}

func init() { register("c06size", checkC06Size) }

func c06Signatures(alg int64) [][]byte {
	n := map[int64]int{refcose.AlgES256: 32, refcose.AlgES384: 48, refcose.AlgES512: 66, refcose.AlgEdDSA: 32, refcose.AlgPS256: 128}[alg]
	fill := func(b byte) []byte {
		h := make([]byte, n)
		for i := range h {
			h[i] = b
		}
		return h
	}
	zero, ones, mid := fill(0), fill(0xff), fill(0x5a)
	one := fill(0)
	one[n-1] = 1
	cat := func(a, b []byte) []byte { return append(append([]byte{}, a...), b...) }
	return [][]byte{cat(mid, mid), cat(zero, zero), cat(zero, mid), cat(mid, zero), cat(one, one), cat(ones, ones), cat(zero, one), cat(ones, zero)}
}

func TestC06_BoundarySizes(t *testing.T) {
	begin(t, "C06", "boundary-sizes")
	n := 0
	run := func(c c06SizeCase) {
		n++
		stats.Eval()
		judge(t, "c06size", c, checkC06Size)
		stats.NTBytes([]byte(fmt.Sprintf("%v/%d/%d/%d/%d/%x", c.Kind, c.Alg, c.PayLen, c.ExtLen, c.ProtPad, []byte(c.Sig)[:8])))
		stats.Class("boundary-size-cell")
		if n%17 == 0 {
			stats.Sample("boundary-size", map[string]any{"kind": c.Kind.String(), "alg": c.Alg, "payload_len": c.PayLen, "external_len": c.ExtLen, "protected_pad": c.ProtPad, "signature": rc.Hex(c.Sig)})
		}
	}
	kinds := []refcose.Kind{refcose.KSign1, refcose.KSign1Untagged, refcose.KSign}
	algs := []int64{refcose.AlgES256, refcose.AlgES384, refcose.AlgES512, refcose.AlgEdDSA, refcose.AlgPS256}
	// (1) degenerate signature values, small message
	for _, k := range kinds {
		for _, a := range algs {
			for _, s := range c06Signatures(a) {
				run(c06SizeCase{Kind: k, Alg: a, PayLen: 5, ExtLen: 0, Sig: s})
				run(c06SizeCase{Kind: k, Alg: a, PayLen: 5, ExtLen: 3, Sig: s})
			}
		}
	}
	// (2) lengths on the head boundaries, one at a time and in pairs
	lens := []int{0, 23, 24, 255, 256, 65535, 65536, 65537}
	for _, k := range kinds {
		sig := c06Signatures(refcose.AlgES256)[0]
		for _, pl := range lens {
			for _, el := range lens {
				run(c06SizeCase{Kind: k, Alg: refcose.AlgES256, PayLen: pl, ExtLen: el, Sig: sig})
			}
			for _, pp := range []int{13, 14, 245, 246, 65523, 65524, 65525, 65526} {
				run(c06SizeCase{Kind: k, Alg: refcose.AlgES256, PayLen: pl, ExtLen: 0, ProtPad: pp, Sig: sig})
			}
		}
		for _, big := range []int{1<<20 - 1, 1 << 20, 1<<20 + 1} {
			run(c06SizeCase{Kind: k, Alg: refcose.AlgES256, PayLen: big, ExtLen: 0, Sig: sig})
			run(c06SizeCase{Kind: k, Alg: refcose.AlgEdDSA, PayLen: 3, ExtLen: big, Sig: sig})
		}
	}
	stats.ExhaustivePart("boundary sizes x degenerate signature values", n)
}
