package props

import (
	"bytes"
	"crypto/rand"
	"fmt"
	"math/big"
	"sync"
	"testing"

	cose "github.com/veraison/go-cose"
	"pgregory.net/rapid"

	"verifharness/bridge"
	"verifharness/gen"
	rc "verifharness/refcbor"
	"verifharness/refcose"
	"verifharness/stats"
)

// Shared keys: ONE signer object and ONE verifier object, built once, are used
// by several goroutines at the same time, each goroutine on messages of its
// own (a server holding one key for all its connections). The result-based
// oracle needs no race detector: every message signed without error must
// verify, every changed message must be refused, whatever the interleaving.
// (The schedule is not owned by the harness: interleavings are sampled.)
type sharedKeysCase struct {
	Key      refcose.KeyMat `json:"key"`
	ViaKey   bool           `json:"via_key,omitempty"` // signer and verifier come from a COSE_Key that went through its serialiser and parser
	Workers  int            `json:"workers"`
	Rounds   int            `json:"rounds"`
	Sizes    []int          `json:"sizes"` // payload length of message i of every worker
	Seed     rc.Hex         `json:"seed"`
	External bool           `json:"external,omitempty"`
}

func sharedPayload(seed []byte, w, i, n int) []byte {
	out := make([]byte, n)
	x := uint32(w*131+i*7+1) ^ uint32(len(seed))<<8
	for _, b := range seed {
		x = x*31 + uint32(b)
	}
	x |= 1
	for j := range out {
		x ^= x << 13
		x ^= x >> 17
		x ^= x << 5
		out[j] = byte(x)
	}
	return out
}

func checkSharedKeys(c sharedKeysCase) error {
	var signer cose.Signer
	var verifier cose.Verifier
	var err error
	var sharedKey *cose.Key // the parsed COSE_Key object itself is shared, too (a key cache)
	var sharedKeyEnc []byte
	if c.ViaKey {
		// Go key -> COSE_Key -> bytes -> COSE_Key -> signer / verifier
		k, e := cose.NewKeyFromPrivate(c.Key.Private())
		if e != nil {
			return finding("key", "NewKeyFromPrivate: %v", e)
		}
		enc, e := k.MarshalCBOR()
		if e != nil {
			return finding("key", "Key.MarshalCBOR: %v", e)
		}
		var back cose.Key
		if e := back.UnmarshalCBOR(enc); e != nil {
			return finding("key", "Key.UnmarshalCBOR of own output: %v", e)
		}
		if signer, err = back.Signer(); err != nil {
			return finding("key", "Key.Signer: %v", err)
		}
		if verifier, err = back.Verifier(); err != nil {
			return finding("key", "Key.Verifier: %v", err)
		}
		// what travels is often the public key, and peers may trim leading zero octets: the shared object is the
		// parsed public COSE_Key with its coordinates as big.Int.Bytes() leaves them
		if pk, e := cose.NewKeyFromPublic(c.Key.Public()); e == nil {
			if penc, e := pk.MarshalCBOR(); e == nil {
				trimmed := c14TrimCoordinates(penc)
				var parsed cose.Key
				if e := parsed.UnmarshalCBOR(trimmed); e == nil {
					sharedKey = &parsed
					sharedKeyEnc, _ = parsed.MarshalCBOR()
					if !bytes.Equal(trimmed, penc) {
						stats.Class("shared/parsed-key-with-a-short-coordinate")
					}
					// the first use of a freshly parsed key object comes from all workers at once, many times over
					for r := 0; r < 60; r++ {
						var fresh cose.Key
						if fresh.UnmarshalCBOR(trimmed) != nil {
							break
						}
						outs := make([][]byte, c.Workers)
						var wg sync.WaitGroup
						start := make(chan struct{})
						for w := 0; w < c.Workers; w++ {
							wg.Add(1)
							go func(w int) {
								defer wg.Done()
								defer func() { recover() }()
								<-start
								outs[w], _ = fresh.MarshalCBOR()
								fresh.Verifier()
							}(w)
						}
						close(start)
						wg.Wait()
						for w, o := range outs {
							if !bytes.Equal(o, sharedKeyEnc) {
								return finding("shared/key-encoding-differs", "round %d, worker %d: a freshly parsed COSE_Key encoded by %d goroutines at once gives %x, sequentially %x", r, w, c.Workers, o, sharedKeyEnc)
							}
						}
					}
				}
			}
		}
		stats.Class("shared/keys-from-COSE_Key")
	} else {
		if signer, err = bridge.Signer(c.Key, false); err != nil {
			return finding("key", "%v", err)
		}
		if verifier, err = bridge.Verifier(c.Key, false); err != nil {
			return finding("key", "%v", err)
		}
	}
	var ext []byte
	if c.External {
		ext = []byte("shared-keys external data")
	}
	type item struct {
		good, bad *cose.Sign1Message
	}
	// sequential preparation with the reference signer: only the operations under test run concurrently
	work := make([][]item, c.Workers)
	for w := range work {
		for i, n := range c.Sizes {
			payload := sharedPayload(c.Seed, w, i, n)
			prot := rc.Encode(rc.Map(rc.KV{K: rc.Int(1), V: rc.Int(c.Key.Alg)}), nil)
			tbs := refcose.SigStructure1(prot, ext, payload)
			sig := refcose.Sign(c.Key.Alg, c.Key, tbs, []byte{byte(w), byte(i)})
			wire := rc.Encode(rc.Tag(18, rc.Array(rc.Bytes(prot), rc.Map(), rc.Bytes(payload), rc.Bytes(sig))), nil)
			good, bad := new(cose.Sign1Message), new(cose.Sign1Message)
			if err := good.UnmarshalCBOR(wire); err != nil {
				return fmt.Errorf("harness: reference message refused: %v", err)
			}
			if err := bad.UnmarshalCBOR(wire); err != nil {
				return fmt.Errorf("harness: %v", err)
			}
			if len(bad.Payload) > 0 {
				bad.Payload[len(bad.Payload)-1] ^= 1
			} else {
				bad.Payload = []byte{1}
			}
			work[w] = append(work[w], item{good, bad})
		}
	}
	var mu sync.Mutex
	var first error
	report := func(e error) {
		mu.Lock()
		if first == nil {
			first = e
		}
		mu.Unlock()
	}
	type made struct {
		w, i int
		m    *cose.Sign1Message
	}
	var signedMu sync.Mutex
	var signed []made
	start := make(chan struct{})
	var wg sync.WaitGroup
	for w := range work {
		wg.Add(1)
		go func(w int) {
			defer wg.Done()
			defer func() {
				if r := recover(); r != nil {
					report(finding("shared/panic", "worker %d: panic inside a signing / verification call on its own message with the shared key objects: %v", w, r))
				}
			}()
			<-start
			for round := 0; round < c.Rounds; round++ {
				if sharedKey != nil {
					if b, err := sharedKey.MarshalCBOR(); err != nil || !bytes.Equal(b, sharedKeyEnc) {
						report(finding("shared/key-encoding-differs", "worker %d round %d: the shared COSE_Key encodes differently (err=%v) while other goroutines encode / use it\n got=%x\nwant=%x", w, round, err, b, sharedKeyEnc))
						return
					}
					if _, err := sharedKey.Verifier(); err != nil {
						report(finding("shared/key-verifier-fails", "worker %d round %d: Key.Verifier on the shared COSE_Key fails: %v", w, round, err))
						return
					}
				}
				for i, it := range work[w] {
					if err := it.good.Verify(ext, verifier); err != nil {
						report(finding("shared/valid-rejected", "worker %d round %d: validly signed message %d (payload %d bytes, %s) is rejected while other goroutines use the same verifier object on their own messages: %v", w, round, i, len(it.good.Payload), refcose.AlgName(c.Key.Alg), err))
						return
					}
					if err := it.bad.Verify(ext, verifier); err == nil {
						report(finding("shared/invalid-accepted", "worker %d round %d: message %d with a changed payload verifies while other goroutines use the same verifier object", w, round, i))
						return
					}
					if round == 0 {
						m := &cose.Sign1Message{Headers: cose.Headers{Protected: cose.ProtectedHeader{cose.HeaderLabelAlgorithm: cose.Algorithm(c.Key.Alg)}}, Payload: append([]byte{}, it.good.Payload...)}
						if err := m.Sign(rand.Reader, ext, signer); err != nil {
							report(finding("shared/sign-fails", "worker %d: Sign of its own message with the shared signer fails: %v", w, err))
							return
						}
						signedMu.Lock()
						signed = append(signed, made{w, i, m})
						signedMu.Unlock()
					}
				}
			}
		}(w)
	}
	close(start)
	wg.Wait()
	if first != nil {
		return first
	}
	// afterwards, sequentially: everything the shared signer produced concurrently is a valid signature
	for _, s := range signed {
		prot, err := s.m.Headers.MarshalProtected()
		if err != nil {
			return finding("shared/unencodable", "%v", err)
		}
		n, err := rc.Parse(prot)
		if err != nil {
			return finding("shared/unencodable", "%v", err)
		}
		tbs := refcose.SigStructure1(n.Content, ext, s.m.Payload)
		if !refcose.Verify(c.Key.Alg, c.Key.Public(), tbs, s.m.Signature) {
			return finding("shared/signature-invalid", "worker %d message %d: the signature the shared signer returned while other goroutines were signing their own messages is not a valid %s signature over this message", s.w, s.i, refcose.AlgName(c.Key.Alg))
		}
		if err := s.m.Verify(ext, verifier); err != nil {
			return finding("shared/valid-rejected", "worker %d message %d: signed concurrently without error, does not verify: %v", s.w, s.i, err)
		}
	}
	stats.Class("shared/alg/" + refcose.AlgName(c.Key.Alg))
	stats.Class(fmt.Sprintf("shared/workers>=%d", c.Workers/4*4))
	big := false
	for _, n := range c.Sizes {
		if n >= 1<<16 {
			big = true
		}
	}
	if big {
		stats.Class("shared/long-content")
	}
	stats.NTBytes([]byte(fmt.Sprintf("%+v", c)))
	return nil
}

// c14TrimCoordinates re-encodes an EC2 COSE_Key with the leading zero octets of x and y removed.
func c14TrimCoordinates(enc []byte) []byte {
	root, err := rc.MParse(enc, false)
	if err != nil || root.Major != 5 {
		return enc
	}
	if len(root.Keys) < 1 || root.Vals[0].Major != 0 || root.Vals[0].Arg != 2 {
		return enc // not EC2
	}
	for i, k := range root.Keys {
		if k.Major == 1 && (k.Arg == 1 || k.Arg == 2) && root.Vals[i].Major == 2 { // labels -2, -3
			b := bytes.TrimLeft(root.Vals[i].Bytes, "\x00")
			if len(b) > 0 {
				root.Vals[i].Bytes, root.Vals[i].W = b, 0
			}
		}
	}
	return root.Enc()
}

func init() { register("sharedkeys", checkSharedKeys) }

func runSharedKeys(t *testing.T, property string, viaKey bool) {
	begin(t, property, "sharedkeys")
	prop(t, func(rt *rapid.T) {
		alg := gen.Alg(rt)
		c := sharedKeysCase{Key: gen.KeyMat(rt, alg), ViaKey: viaKey}
		if viaKey && c.Key.Family() == "rsa" {
			c.Key = gen.KeyMat(rt, rapid.SampledFrom([]int64{refcose.AlgES256, refcose.AlgES384, refcose.AlgES512, refcose.AlgEdDSA}).Draw(rt, "key-alg"))
		}
		if viaKey && rapid.Bool().Draw(rt, "short-coordinate-key") {
			// a key whose public point has a coordinate with leading zero octets (tabulated scalars)
			e := zeroCoordScalars[rapid.IntRange(0, len(zeroCoordScalars)-1).Draw(rt, "scalar")]
			alg := map[int]int64{256: refcose.AlgES256, 384: refcose.AlgES384, 521: refcose.AlgES512}[e.Curve]
			c.Key = refcose.KeyMat{Alg: alg, D: big.NewInt(e.D - 1).Bytes()}
		}
		c.Workers = rapid.SampledFrom([]int{2, 4, 8, 16}).Draw(rt, "workers")
		c.Rounds = rapid.IntRange(1, 4).Draw(rt, "rounds")
		n := rapid.IntRange(2, 5).Draw(rt, "messages")
		for i := 0; i < n; i++ {
			c.Sizes = append(c.Sizes, rapid.SampledFrom([]int{0, 24, 300, 1 << 16, 1 << 18, 1 << 19}).Draw(rt, "size"))
		}
		c.Seed = rapid.SliceOfN(rapid.Byte(), 4, 4).Draw(rt, "seed")
		c.External = rapid.Bool().Draw(rt, "external")
		stats.Eval()
		judge(rt, "sharedkeys", c, checkSharedKeys)
	})
}

func TestC01_SharedKeys(t *testing.T) { runSharedKeys(t, "C01", false) }
func TestC14_SharedKeys(t *testing.T) { runSharedKeys(t, "C14", true) }
