package props

import (
	"bytes"
	"fmt"
	"sync"
	"testing"

	"pgregory.net/rapid"

	cose "github.com/veraison/go-cose"

	"verifharness/bridge"
	"verifharness/gen"
	"verifharness/refcose"
	"verifharness/stats"
)

// Signing writes into the message it is asked to sign and nowhere else: a
// signed message is copied by value (the copies share the byte slices, as Go
// values do), the copies' signatures are cleared - by nil, by truncation to
// length 0, or by a fresh empty slice - and the copies are signed again, one
// after the other or at the same time with one signer. The original keeps its
// signature bytes, still verifies and encodes as before; every copy verifies.
type c18StorageCase struct {
	Spec       gen.MsgSpec `json:"spec"`
	Copies     int         `json:"copies"`
	Clear      int         `json:"clear"` // 0 nil, 1 truncated to [:0], 2 fresh empty non-nil slice
	Concurrent bool        `json:"concurrent,omitempty"`
	EditCopy   bool        `json:"edit_copy,omitempty"` // the copies get another payload before they are signed
}

func copyLib(m *libMsg) *libMsg {
	cp := &libMsg{kind: m.kind}
	switch {
	case m.s1 != nil:
		v := *m.s1
		cp.s1 = &v
	case m.u1 != nil:
		v := *m.u1
		cp.u1 = &v
	default:
		v := *m.sm
		v.Signatures = nil
		for _, sg := range m.sm.Signatures {
			w := *sg
			v.Signatures = append(v.Signatures, &w)
		}
		cp.sm = &v
	}
	return cp
}

func libSigs(m *libMsg) []*[]byte {
	switch {
	case m.s1 != nil:
		return []*[]byte{&m.s1.Signature}
	case m.u1 != nil:
		return []*[]byte{&m.u1.Signature}
	}
	var out []*[]byte
	for _, sg := range m.sm.Signatures {
		out = append(out, &sg.Signature)
	}
	return out
}

func checkC18Storage(c c18StorageCase) error {
	spec := c.Spec
	spec.Groups, spec.Detached = nil, false
	for i := range spec.Sigs {
		spec.Sigs[i].Groups = nil
	}
	ss, vs, err := specSigners(&spec)
	if err != nil {
		return fmt.Errorf("harness: %v", err)
	}
	ext := spec.Ext()
	orig := constructLib(&spec)
	if err := orig.sign(ext, ss...); err != nil {
		stats.Class("sign-refused")
		return nil
	}
	if err := orig.verify(ext, vs...); err != nil {
		return fmt.Errorf("harness: fresh message does not verify (C01's business): %v", err)
	}
	var sigWas [][]byte
	for _, p := range libSigs(orig) {
		sigWas = append(sigWas, append([]byte{}, *p...))
	}
	encWas, err := orig.marshal()
	if err != nil {
		stats.Class("marshal-refused")
		return nil
	}
	var copies []*libMsg
	for i := 0; i < c.Copies; i++ {
		cp := copyLib(orig)
		for _, p := range libSigs(cp) {
			switch c.Clear {
			case 0:
				*p = nil
			case 1:
				*p = (*p)[:0]
			default:
				*p = []byte{}
			}
		}
		if c.EditCopy {
			*cp.payload() = append(append([]byte{}, spec.Payload...), byte('a'+i))
		}
		copies = append(copies, cp)
	}
	errs := make([]error, len(copies))
	if c.Concurrent {
		var wg sync.WaitGroup
		start := make(chan struct{})
		for i, cp := range copies {
			wg.Add(1)
			go func(i int, cp *libMsg) {
				defer wg.Done()
				defer func() {
					if r := recover(); r != nil {
						errs[i] = fmt.Errorf("panic: %v", r)
					}
				}()
				<-start
				errs[i] = cp.sign(ext, ss...)
			}(i, cp)
		}
		close(start)
		wg.Wait()
		stats.Class("storage/copies-signed-at-the-same-time")
	} else {
		for i, cp := range copies {
			errs[i] = cp.sign(ext, ss...)
		}
	}
	for i, e := range errs {
		if e != nil {
			return finding("storage/copy-sign-fails", "signing value copy %d of a signed %v (signature cleared, clear=%d) fails: %v", i, spec.Kind, c.Clear, e)
		}
	}
	for i, p := range libSigs(orig) {
		if !bytes.Equal(*p, sigWas[i]) {
			return finding("storage/sign-wrote-into-another-message", "signing a value copy of a signed %v (its own signature cleared by %s) changed signature %d of the ORIGINAL message\n was=%x\n now=%x", spec.Kind, []string{"nil", "truncation to [:0]", "a fresh empty slice"}[c.Clear], i, sigWas[i], *p)
		}
	}
	if err := orig.verify(ext, vs...); err != nil {
		return finding("storage/sign-wrote-into-another-message", "the original %v no longer verifies after value copies of it were signed: %v", spec.Kind, err)
	}
	if enc, err := orig.marshal(); err != nil || !bytes.Equal(enc, encWas) {
		return finding("storage/sign-wrote-into-another-message", "the original %v encodes differently after value copies of it were signed (err=%v)", spec.Kind, err)
	}
	for i, cp := range copies {
		if err := cp.verify(ext, vs...); err != nil {
			return finding("storage/copy-does-not-verify", "value copy %d of a signed %v, cleared (clear=%d) and signed again (concurrent=%v), does not verify: %v", i, spec.Kind, c.Clear, c.Concurrent, err)
		}
	}
	stats.Class(fmt.Sprintf("storage/clear=%d", c.Clear))
	stats.Class("storage/" + spec.Kind.String())
	stats.NTBytes([]byte(fmt.Sprintf("%v %d %d %v %v", spec.Kind, c.Copies, c.Clear, c.Concurrent, c.EditCopy)), spec.Payload, bridgeSpecID(&spec))
	return nil
}

func bridgeSpecID(s *gen.MsgSpec) []byte {
	var b []byte
	for _, sg := range s.Sigs {
		b = append(b, []byte(refcose.AlgName(sg.Key.Alg))...)
		b = append(b, sg.Key.D...)
	}
	return b
}

func init() { register("c18storage", checkC18Storage) }

var _ = bridge.Dump

func TestC18_SignStorage(t *testing.T) {
	begin(t, "C18", "storage")
	o := gen.MsgOpts{MaxSigners: 3, Hdr: gen.HeaderOpts{MaxEntries: 4, Val: gen.ValOpts{Depth: 1}}}
	prop(t, func(rt *rapid.T) {
		c := c18StorageCase{Spec: gen.Msg(rt, o)}
		c.Copies = rapid.IntRange(1, 4).Draw(rt, "copies")
		c.Clear = rapid.IntRange(0, 2).Draw(rt, "clear")
		c.Concurrent = c.Copies > 1 && rapid.Bool().Draw(rt, "concurrent")
		c.EditCopy = rapid.Bool().Draw(rt, "edit-copy")
		stats.Eval()
		judge(rt, "c18storage", c, checkC18Storage)
	})
}

// TestC18_FirstUse: the very first use of the library in a process comes from
// several goroutines at once (a server that builds its messages from stored
// fields and starts its workers). Run as a process of its own under the race
// detector: nothing in this test touches the library's encoders or decoders
// before the goroutines start.
func TestC18_FirstUse(t *testing.T) {
	begin(t, "C18", "firstuse")
	c := c18FirstUseCase{Workers: 8}
	stats.Eval()
	judge(t, "c18firstuse", c, checkC18FirstUse)
	stats.NTBytes([]byte("first-use"))
	stats.Class("first-use-of-the-library-is-concurrent")
}

type c18FirstUseCase struct {
	Workers int `json:"workers"`
}

func checkC18FirstUse(c c18FirstUseCase) error {
	km := refcose.KeyMat{Alg: refcose.AlgEdDSA, D: []byte("c18-first-use-ed25519-seed-32b!!")}
	prot := []byte{0xa1, 0x01, 0x27}
	payload := []byte("first use")
	sig := refcose.Sign(km.Alg, km, refcose.SigStructure1(prot, nil, payload), nil)
	ver, err := cose.NewVerifier(cose.AlgorithmEdDSA, km.Public())
	if err != nil {
		return fmt.Errorf("harness: %v", err)
	}
	wire := append([]byte{0xd2, 0x84, 0x43}, prot...)
	wire = append(wire, 0xa0, 0x49)
	wire = append(wire, payload...)
	wire = append(wire, 0x58, 0x40)
	wire = append(wire, sig...)
	msg := &cose.Sign1Message{
		Headers:   cose.Headers{RawProtected: append([]byte{0x43}, prot...), Protected: cose.ProtectedHeader{int64(1): cose.AlgorithmEdDSA}, RawUnprotected: []byte{0xa0}, Unprotected: cose.UnprotectedHeader{}},
		Payload:   payload,
		Signature: sig,
	}
	var wg sync.WaitGroup
	start := make(chan struct{})
	errs := make([]error, c.Workers)
	for w := 0; w < c.Workers; w++ {
		wg.Add(1)
		go func(w int) {
			defer wg.Done()
			<-start
			switch w % 3 {
			case 0:
				errs[w] = msg.Verify(nil, ver)
			case 1:
				out, err := msg.MarshalCBOR()
				if err == nil && !bytes.Equal(out, wire) {
					err = fmt.Errorf("encoding differs: %x", out)
				}
				errs[w] = err
			default:
				var m cose.Sign1Message
				if err := m.UnmarshalCBOR(append([]byte{}, wire...)); err != nil {
					errs[w] = err
				} else {
					errs[w] = m.Verify(nil, ver)
				}
			}
		}(w)
	}
	close(start)
	wg.Wait()
	for w, e := range errs {
		if e != nil {
			return finding("first-use/wrong-result", "worker %d: %v", w, e)
		}
	}
	return nil
}

func init() {
	register("c18firstuse", checkC18FirstUse)
}
