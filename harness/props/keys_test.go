package props

import (
	"crypto/ecdsa"
	"crypto/ed25519"
	"fmt"
	"verifharness/stats"

	"pgregory.net/rapid"

	"verifharness/gen"
	rc "verifharness/refcbor"
	"verifharness/refcose"
)

// keySpec is an abstract COSE_Key built by the harness (reference side).
type keySpec struct {
	Kty     int64          `json:"kty"`
	Mat     refcose.KeyMat `json:"mat"`     // for EC2 / OKP keys
	Private bool           `json:"private"` // include d
	WithAlg bool           `json:"with_alg"`
	Ops     []int64        `json:"ops,omitempty"`
	HasOps  bool           `json:"has_ops,omitempty"`
	Kid     rc.Hex         `json:"kid,omitempty"`
	BaseIV  rc.Hex         `json:"base_iv,omitempty"`
	Extra   []rc.KV        `json:"extra,omitempty"`
	Trim    bool           `json:"trim,omitempty"`   // emit x / y without their leading zero bytes (a peer that trims)
	TrimD   bool           `json:"trim_d,omitempty"` // d without its leading zero bytes (what NewKeyFromPrivate stores: big.Int.Bytes(); d is emitted as held)
	Shape   int            `json:"shape,omitempty"`  // EC2: 0 x,y(,d); 1 d only; 2 x only (y absent); 3 y as bool (compressed point, RFC 9053 7.1.1)
	SymK    rc.Hex         `json:"k,omitempty"`
	// Zero (EC2): coordinates that are numerically zero - 1 x, 2 y, 3 x and y, 4 d, 5 all three. No point of the
	// curve, but a key object a caller can build and the decoder accepts (lengths are all the decoder looks at)
	Zero int `json:"zero,omitempty"`
}

func crvOf(km refcose.KeyMat) int64 {
	switch km.Alg {
	case refcose.AlgES256:
		return 1
	case refcose.AlgES384:
		return 2
	case refcose.AlgES512:
		return 3
	}
	return 6
}

func trimZeros(b []byte) []byte {
	for len(b) > 1 && b[0] == 0 {
		b = b[1:]
	}
	return b
}

// val renders the key as an abstract CBOR map (entry order as listed).
func (k *keySpec) val() rc.Val {
	m := rc.Map(rc.E(rc.Int(1), rc.Int(k.Kty)))
	add := func(l int64, v rc.Val) { m.M = append(m.M, rc.E(rc.Int(l), v)) }
	switch k.Kty {
	case 2:
		priv := k.Mat.Private().(*ecdsa.PrivateKey)
		size := (priv.Curve.Params().BitSize + 7) / 8
		x, y, d := make([]byte, size), make([]byte, size), make([]byte, size)
		priv.X.FillBytes(x)
		priv.Y.FillBytes(y)
		priv.D.FillBytes(d)
		switch k.Zero {
		case 1:
			x = make([]byte, size)
		case 2:
			y = make([]byte, size)
		case 3:
			x, y = make([]byte, size), make([]byte, size)
		case 4:
			d = make([]byte, size)
		case 5:
			x, y, d = make([]byte, size), make([]byte, size), make([]byte, size)
		}
		if k.Trim {
			x, y = trimZeros(x), trimZeros(y)
		}
		if k.TrimD {
			d = trimZeros(d)
		}
		add(-1, rc.Int(crvOf(k.Mat)))
		switch k.Shape {
		case 1:
			add(-4, rc.Bytes(d))
		case 2:
			add(-2, rc.Bytes(x))
		case 3:
			add(-2, rc.Bytes(x))
			add(-3, rc.Bool(y[len(y)-1]&1 == 1))
		default:
			add(-2, rc.Bytes(x))
			add(-3, rc.Bytes(y))
		}
		if k.Private && k.Shape != 1 {
			add(-4, rc.Bytes(d))
		}
	case 1:
		priv := k.Mat.Private().(ed25519.PrivateKey)
		add(-1, rc.Int(6))
		add(-2, rc.Bytes(priv[32:]))
		if k.Private {
			add(-4, rc.Bytes(priv[:32]))
		}
	case 4:
		add(-1, rc.Bytes(k.SymK))
	}
	if k.WithAlg && (k.Kty == 1 || k.Kty == 2) {
		add(3, rc.Int(k.Mat.Alg))
	}
	if k.HasOps {
		var a []rc.Val
		for _, o := range k.Ops {
			a = append(a, rc.Int(o))
		}
		add(4, rc.Array(a...))
	}
	if k.Kid != nil {
		add(2, rc.Bytes(k.Kid))
	}
	if k.BaseIV != nil {
		add(5, rc.Bytes(k.BaseIV))
	}
	m.M = append(m.M, k.Extra...)
	return m
}

func genKeySpec(t *rapid.T) keySpec {
	k := keySpec{}
	switch rapid.IntRange(0, 9).Draw(t, "ktyclass") {
	case 0:
		k.Kty = 4
		n := rapid.SampledFrom([]int{1, 16, 24, 32, 32, 48, 64, 65, -1}).Draw(t, "symk-len")
		if n < 0 {
			n = rapid.IntRange(1, 40).Draw(t, "symk-anylen")
		}
		k.SymK = rapid.SliceOfN(rapid.Byte(), n, n).Draw(t, "symk")
	case 1:
		k.Kty = rapid.SampledFrom([]int64{3, 5, 6, 100, -1}).Draw(t, "customkty")
	case 2, 3, 4:
		k.Kty = 1
		k.Mat = gen.KeyMat(t, refcose.AlgEdDSA)
	default:
		k.Kty = 2
		alg := rapid.SampledFrom([]int64{refcose.AlgES256, refcose.AlgES256, refcose.AlgES384, refcose.AlgES512}).Draw(t, "ecalg")
		k.Mat = gen.KeyMat(t, alg)
		k.Trim = rapid.IntRange(0, 3).Draw(t, "trim") == 0
		k.TrimD = rapid.IntRange(0, 2).Draw(t, "trim-d") == 0
		if rapid.IntRange(0, 4).Draw(t, "odd-shape") == 0 {
			k.Shape = rapid.IntRange(1, 3).Draw(t, "shape")
		} else if rapid.IntRange(0, 7).Draw(t, "zero-coordinates") == 0 {
			k.Zero = rapid.IntRange(1, 5).Draw(t, "zero")
			stats.Class("key/zero-coordinates")
		}
	}
	k.Private = rapid.Bool().Draw(t, "private")
	k.WithAlg = rapid.Bool().Draw(t, "withalg")
	if rapid.IntRange(0, 2).Draw(t, "hasops") == 0 {
		k.HasOps = true
		n := rapid.IntRange(0, 3).Draw(t, "nops")
		for i := 0; i < n; i++ {
			k.Ops = append(k.Ops, int64(rapid.IntRange(1, 10).Draw(t, "op")))
		}
	}
	if rapid.IntRange(0, 2).Draw(t, "haskid") == 0 {
		k.Kid = rapid.SliceOfN(rapid.Byte(), 0, 8).Draw(t, "kid")
		if k.Kid == nil {
			k.Kid = rc.Hex{}
		}
	}
	if rapid.IntRange(0, 3).Draw(t, "hasiv") == 0 {
		k.BaseIV = rapid.SliceOfN(rapid.Byte(), 0, 8).Draw(t, "baseiv")
		if k.BaseIV == nil {
			k.BaseIV = rc.Hex{}
		}
	}
	switch rapid.IntRange(0, 14).Draw(t, "extra-odd") {
	case 0:
		k.Extra = append(k.Extra, rc.E(rc.Text(rapid.SampledFrom([]string{"-1", "-2", "-3", "-4", "1", "2", "3", "4", "5", "0", ""}).Draw(t, "extra-numeric-tlabel")), gen.Leaf(t, gen.ValOpts{})))
		stats.Class("extra/text-label-spelling-a-number")
		return k
	case 1:
		l := int64(rapid.SampledFrom([]int{-70001, -7, 6, 99, 65536}).Draw(t, "extra-twin-label"))
		k.Extra = append(k.Extra, rc.E(rc.Int(l), gen.Leaf(t, gen.ValOpts{})), rc.E(rc.Text(fmt.Sprint(l)), gen.Leaf(t, gen.ValOpts{})))
		stats.Class("extra/integer-and-text-twin")
		return k
	case 2:
		n := rapid.SampledFrom([]int{9, 10, 11, 12, 13, 14, 15, 16, 17, 20, 30, 33, 64, 65, 130}).Draw(t, "extra-many")
		for i := 0; i < n; i++ {
			if i%2 == 0 {
				k.Extra = append(k.Extra, rc.E(rc.Int(int64(1000+i)), rc.Int(int64(i))))
			} else {
				k.Extra = append(k.Extra, rc.E(rc.Text(fmt.Sprintf("p%d", i)), rc.Bytes([]byte{byte(i)})))
			}
		}
		stats.Class("extra/many-parameters")
		return k
	}
	if rapid.IntRange(0, 2).Draw(t, "hasextra") == 0 {
		n := rapid.IntRange(1, 3).Draw(t, "nextra")
		taken := map[string]bool{}
		for i := 0; i < n; i++ {
			var l rc.Val
			if rapid.Bool().Draw(t, "extra-text") {
				l = rc.Text(rapid.StringMatching(`[a-z]{1,6}`).Draw(t, "extra-tlabel"))
			} else {
				l = rc.Int(int64(rapid.IntRange(-70000, 70000).Draw(t, "extra-ilabel")))
				if i64, _ := l.Int64(); i64 >= -6 && i64 <= 5 {
					continue
				}
			}
			id := string(rc.Encode(l, nil))
			if taken[id] {
				continue
			}
			taken[id] = true
			k.Extra = append(k.Extra, rc.E(l, gen.Value(t, gen.ValOpts{Depth: 2, BigInts: true})))
		}
	}
	return k
}

// genKeySeed draws the bytes of a valid COSE_Key as a peer might encode it.
func genKeySeed(t *rapid.T) []byte {
	k := genKeySpec(t)
	return rc.Encode(k.val(), &gen.RChooser{T: t, Free: true})
}
