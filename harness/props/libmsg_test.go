package props

import (
	"fmt"
	"io"
	"sync"

	"github.com/fxamacker/cbor/v2"
	cose "github.com/veraison/go-cose"

	"verifharness/bridge"
	"verifharness/gen"
	rc "verifharness/refcbor"
	"verifharness/refcose"
)

// libMsg wraps the three message types behind one interface.
type libMsg struct {
	kind refcose.Kind
	s1   *cose.Sign1Message
	u1   *cose.UntaggedSign1Message
	sm   *cose.SignMessage
}

func decodeLib(kind refcose.Kind, wire []byte) (*libMsg, error) {
	// the decoder reads from a buffer of its caller, and the caller reuses that buffer as soon as the
	// decoder has returned (a receive loop with one buffer): everything the checks do with the decoded
	// message afterwards happens with the input bytes gone
	buf := append([]byte{}, wire...)
	defer func() {
		for i := range buf {
			buf[i] ^= 0xa5
		}
	}()
	wire = buf
	m := &libMsg{kind: kind}
	switch kind {
	case refcose.KSign1:
		m.s1 = &cose.Sign1Message{}
		return m, m.s1.UnmarshalCBOR(wire)
	case refcose.KSign1Untagged:
		m.u1 = &cose.UntaggedSign1Message{}
		return m, m.u1.UnmarshalCBOR(wire)
	case refcose.KSign:
		m.sm = &cose.SignMessage{}
		return m, m.sm.UnmarshalCBOR(wire)
	}
	return nil, fmt.Errorf("decodeLib: unsupported kind %v", kind)
}

func (m *libMsg) marshal() ([]byte, error) {
	switch m.kind {
	case refcose.KSign1:
		return m.s1.MarshalCBOR()
	case refcose.KSign1Untagged:
		return m.u1.MarshalCBOR()
	}
	return m.sm.MarshalCBOR()
}

func (m *libMsg) headers() *cose.Headers {
	switch m.kind {
	case refcose.KSign1:
		return &m.s1.Headers
	case refcose.KSign1Untagged:
		return &m.u1.Headers
	}
	return &m.sm.Headers
}

func (m *libMsg) payload() *[]byte {
	switch m.kind {
	case refcose.KSign1:
		return &m.s1.Payload
	case refcose.KSign1Untagged:
		return &m.u1.Payload
	}
	return &m.sm.Payload
}

func (m *libMsg) verify(ext []byte, vs ...cose.Verifier) error {
	switch m.kind {
	case refcose.KSign1:
		return m.s1.Verify(ext, vs[0])
	case refcose.KSign1Untagged:
		return m.u1.Verify(ext, vs[0])
	}
	return m.sm.Verify(ext, vs...)
}

func (m *libMsg) sign(ext []byte, ss ...cose.Signer) error {
	rnd := refcose.NewEntropy([]byte("lib-sign"))
	switch m.kind {
	case refcose.KSign1:
		return m.s1.Sign(rnd, ext, ss[0])
	case refcose.KSign1Untagged:
		return m.u1.Sign(rnd, ext, ss[0])
	}
	return m.sm.Sign(rnd, ext, ss...)
}

// parent returns the value handed to the countersignature API. An
// UntaggedSign1Message is not a supported parent type, so it is converted to
// Sign1Message (same fields) as a caller would.
func (m *libMsg) parent(pointer bool) any {
	switch m.kind {
	case refcose.KSign1:
		if pointer {
			return m.s1
		}
		return *m.s1
	case refcose.KSign1Untagged:
		if pointer {
			return (*cose.Sign1Message)(m.u1)
		}
		return cose.Sign1Message(*m.u1)
	}
	if pointer {
		return m.sm
	}
	return *m.sm
}

// discardRaw drops the retained raw header bytes in every layer, including
// nested countersignatures.
func (m *libMsg) discardRaw() {
	discardHeaders(m.headers())
	if m.sm != nil {
		for _, s := range m.sm.Signatures {
			discardHeaders(&s.Headers)
		}
	}
}

// discardEmpty: the caller drops the retained raw bytes by truncating them (an empty non-nil slice)
// instead of assigning nil
var discardEmpty bool

func discardHeaders(h *cose.Headers) {
	h.RawProtected = nil
	h.RawUnprotected = nil
	if discardEmpty {
		h.RawProtected, h.RawUnprotected = cbor.RawMessage{}, make(cbor.RawMessage, 0, 8)
	}
	for _, v := range h.Unprotected {
		switch c := v.(type) {
		case *cose.Countersignature:
			if c != nil {
				discardHeaders(&c.Headers)
			}
		case []*cose.Countersignature:
			for _, x := range c {
				if x != nil {
					discardHeaders(&x.Headers)
				}
			}
		}
	}
}

var (
	keyCacheMu    sync.Mutex
	verifierCache = map[string]cose.Verifier{}
	signerCache   = map[string]cose.Signer{}
)

func keyID(km refcose.KeyMat, viaKey bool) string {
	return fmt.Sprintf("%d/%d/%x/%s/%v", km.Alg, km.Curve, []byte(km.D), km.RSA, viaKey)
}

// libVerifier returns (and caches) a built-in verifier. Built-in verifiers are
// stateless, so sharing them between cases is sound.
func libVerifier(km refcose.KeyMat, viaKey bool) (cose.Verifier, error) {
	id := keyID(km, viaKey)
	keyCacheMu.Lock()
	v, ok := verifierCache[id]
	keyCacheMu.Unlock()
	if ok {
		return v, nil
	}
	v, err := bridge.Verifier(km, viaKey)
	if err != nil {
		return nil, err
	}
	keyCacheMu.Lock()
	if len(verifierCache) > 4096 {
		verifierCache = map[string]cose.Verifier{}
	}
	verifierCache[id] = v
	keyCacheMu.Unlock()
	return v, nil
}

func libSigner(km refcose.KeyMat, viaKey bool) (cose.Signer, error) {
	id := keyID(km, viaKey)
	keyCacheMu.Lock()
	s, ok := signerCache[id]
	keyCacheMu.Unlock()
	if ok {
		return s, nil
	}
	s, err := bridge.Signer(km, viaKey)
	if err != nil {
		return nil, err
	}
	keyCacheMu.Lock()
	if len(signerCache) > 4096 {
		signerCache = map[string]cose.Signer{}
	}
	signerCache[id] = s
	keyCacheMu.Unlock()
	return s, nil
}

// verifyGroups verifies, with the library, every countersignature the spec
// says is attached to a layer whose decoded unprotected header is un.
// usePointer alternates pointer / value parents.
func verifyGroups(un cose.UnprotectedHeader, groups []gen.CsigGroup, parent any, where string) error {
	return verifyGroupsWith(un, groups, parent, where, nil)
}

// verifyGroupsWith: like verifyGroups, every verifier passed through wrap first.
func verifyGroupsWith(un cose.UnprotectedHeader, groups []gen.CsigGroup, parent any, where string, wrap func(cose.Verifier) cose.Verifier) error {
	libVerifier := func(km refcose.KeyMat, viaKey bool) (cose.Verifier, error) {
		v, err := libVerifier(km, viaKey)
		if err == nil && wrap != nil {
			v = wrap(v)
		}
		return v, err
	}
	for _, g := range groups {
		v, ok := un[int64(g.Label)]
		if !ok {
			return finding("csig-missing", "%s: label %d missing from decoded unprotected header", where, g.Label)
		}
		if g.Abbrev() {
			sig, ok := v.([]byte)
			if !ok {
				return finding("csig-type", "%s: label %d decoded as %T, want []byte", where, g.Label, v)
			}
			c := g.Items[0]
			ver, err := libVerifier(c.Key, false)
			if err != nil {
				return finding("verifier", "%s: %v", where, err)
			}
			if err := cose.VerifyCountersign0(ver, parent, c.External, sig); err != nil {
				return finding("csig0-verify", "%s: VerifyCountersign0 (label %d): %v", where, g.Label, err)
			}
			continue
		}
		var list []*cose.Countersignature
		switch x := v.(type) {
		case *cose.Countersignature:
			if g.AsList {
				return finding("csig-type", "%s: label %d: list decoded as single object", where, g.Label)
			}
			list = []*cose.Countersignature{x}
		case []*cose.Countersignature:
			if !g.AsList {
				return finding("csig-type", "%s: label %d: single object decoded as list", where, g.Label)
			}
			list = x
		default:
			return finding("csig-type", "%s: label %d decoded as %T", where, g.Label, v)
		}
		if len(list) != len(g.Items) {
			return finding("csig-count", "%s: label %d: %d countersignatures decoded, want %d", where, g.Label, len(list), len(g.Items))
		}
		for i, c := range g.Items {
			ver, err := libVerifier(c.Key, false)
			if err != nil {
				return finding("verifier", "%s: %v", where, err)
			}
			if list[i] == nil {
				return finding("csig-nil", "%s: label %d[%d] is nil", where, g.Label, i)
			}
			if err := list[i].Verify(ver, parent, c.External); err != nil {
				return finding("csig-verify", "%s: countersignature %d[%d] does not verify: %v", where, g.Label, i, err)
			}
			var p any = list[i]
			if i%2 == 1 {
				p = *list[i]
			}
			if err := verifyGroupsWith(list[i].Headers.Unprotected, c.Groups, p, fmt.Sprintf("%s/%d[%d]", where, g.Label, i), wrap); err != nil {
				return err
			}
		}
	}
	return nil
}

// countGroups counts countersignatures in a spec (all levels).
func countGroups(gs []gen.CsigGroup) (n, maxDepth int) {
	for _, g := range gs {
		for _, c := range g.Items {
			n++
			cn, cd := countGroups(c.Groups)
			n += cn
			if cd+1 > maxDepth {
				maxDepth = cd + 1
			}
		}
	}
	return
}

func specCsigStats(m *gen.MsgSpec) (n, depth int) {
	n, depth = countGroups(m.Groups)
	for _, s := range m.Sigs {
		sn, sd := countGroups(s.Groups)
		n += sn
		if sd > depth {
			depth = sd
		}
	}
	return
}

var _ = rc.Int

type verifierT = cose.Verifier

// discardAny drops the retained raw header bytes of every layer of a decoded
// value of any kind.
func discardAny(v any) {
	switch m := v.(type) {
	case *cose.Sign1Message:
		discardHeaders(&m.Headers)
	case *cose.UntaggedSign1Message:
		discardHeaders(&m.Headers)
	case *cose.SignMessage:
		discardHeaders(&m.Headers)
		for _, s := range m.Signatures {
			if s != nil {
				discardHeaders(&s.Headers)
			}
		}
	case *cose.Signature:
		discardHeaders(&m.Headers)
	case *cose.Countersignature:
		discardHeaders(&m.Headers)
	}
}

func bridgeToGoImpl(v rc.Val) any { return bridge.ToGo(v) }

// reenterLibrary performs a few unrelated signing / verification operations.
// It is run from inside recording signers and verifiers while they still
// hold the bytes they were handed: a key may itself use the library, and
// concurrent callers interleave in exactly this way.
func reenterLibrary() {
	pad := make([]byte, 300)
	for i := range pad {
		pad[i] = 0xee
	}
	rnd := refcose.NewEntropy(nil)
	// the shortest structures first: whatever scratch memory the outer operation has just released is
	// large enough for them
	tiny := &cose.Sign1Message{Headers: cose.Headers{Protected: cose.ProtectedHeader{int64(1): cose.AlgorithmEdDSA}}, Payload: []byte{}}
	_ = tiny.Sign(rnd, nil, &bridge.SpySigner{Alg: cose.AlgorithmEdDSA})
	_ = tiny.Verify(nil, &bridge.SpyVerifier{Alg: cose.AlgorithmEdDSA})
	if sig, err := cose.Countersign0(rnd, &bridge.SpySigner{Alg: cose.AlgorithmEdDSA}, tiny, nil); err == nil {
		_ = cose.VerifyCountersign0(&bridge.SpyVerifier{Alg: cose.AlgorithmEdDSA}, tiny, nil, sig)
	}
	if w, err := tiny.MarshalCBOR(); err == nil {
		var back cose.Sign1Message
		_ = back.UnmarshalCBOR(w)
	}
	m := &cose.Sign1Message{Headers: cose.Headers{Protected: cose.ProtectedHeader{int64(1): cose.AlgorithmEdDSA, "nested": pad}}, Payload: pad}
	_ = m.Sign(rnd, []byte("nested"), &bridge.SpySigner{Alg: cose.AlgorithmEdDSA})
	_ = m.Verify([]byte("nested"), &bridge.SpyVerifier{Alg: cose.AlgorithmEdDSA})
	sm := &cose.SignMessage{Headers: cose.Headers{Protected: cose.ProtectedHeader{"nested": pad}}, Payload: pad,
		Signatures: []*cose.Signature{{Headers: cose.Headers{Protected: cose.ProtectedHeader{int64(1): cose.AlgorithmEdDSA}}}}}
	_ = sm.Sign(rnd, nil, &bridge.SpySigner{Alg: cose.AlgorithmEdDSA})
	_ = sm.Verify(nil, &bridge.SpyVerifier{Alg: cose.AlgorithmEdDSA})
	if sig, err := cose.Countersign0(rnd, &bridge.SpySigner{Alg: cose.AlgorithmEdDSA}, m, pad); err == nil {
		_ = cose.VerifyCountersign0(&bridge.SpyVerifier{Alg: cose.AlgorithmEdDSA}, m, pad, sig)
	}
	cs := cose.NewCountersignature()
	if cs.Sign(rnd, &bridge.SpySigner{Alg: cose.AlgorithmEdDSA}, sm, pad) == nil {
		_ = cs.Verify(&bridge.SpyVerifier{Alg: cose.AlgorithmEdDSA}, sm, pad)
	}
}

// reentrantSigner / reentrantVerifier wrap a real signer / verifier the way a
// key that itself uses the library (or that simply takes long while other
// callers use the library) behaves: other library operations run between the
// moment the key is handed its bytes and the moment it reads them. The bytes a
// key is handed belong to that call, so the outcome must be the same as without
// the nested operations.
type reentrantSigner struct{ cose.Signer }

func (r reentrantSigner) Sign(rand io.Reader, content []byte) ([]byte, error) {
	reenterLibrary()
	return r.Signer.Sign(rand, content)
}

type reentrantVerifier struct{ cose.Verifier }

func (r reentrantVerifier) Verify(content, sig []byte) error {
	reenterLibrary()
	return r.Verifier.Verify(content, sig)
}
