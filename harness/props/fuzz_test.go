package props

import (
	"encoding/hex"
	"os"
	"sync"

	"pgregory.net/rapid"

	"verifharness/refcose"
)

var (
	fuzzSeedOnce sync.Once
	fuzzSeedList [][]byte
)

// fuzzSeeds returns the starting corpus of the native fuzz targets: valid
// encodings of every kind drawn from the generators at fixed seeds, plus
// hostile constants.
func fuzzSeeds() [][]byte {
	if os.Getenv("VERIF_FUZZ_NOSEEDS") != "" {
		return nil // empty-corpus campaign
	}
	fuzzSeedOnce.Do(func() {
		for _, k := range allKinds {
			k := k
			g := rapid.Custom(func(t *rapid.T) []byte { return seedFor(t, k) })
			for i := 1; i <= 4; i++ {
				fuzzSeedList = append(fuzzSeedList, g.Example(i))
			}
		}
		kg := rapid.Custom(func(t *rapid.T) []byte { return genKeySeed(t) })
		for i := 1; i <= 8; i++ {
			fuzzSeedList = append(fuzzSeedList, kg.Example(i))
		}
		for _, h := range []string{
			"a20102206161",       // COSE_Key with textual curve (F1)
			"d28440a10780f640",   // Sign1 {7: []}
			"d28440a107f6f64101", // Sign1 {7: null}
			"d28440a1fb7ff8000000000000a2f97e0001f97e000241004101", // NaN duplicate keys in a nested map
			"d284405fff4041ff", "d2849f40a0f64101ff",
			"d28441a0a0f64101", "8441a0a0f64101", "d8628440a0f68183 40a04101",
			"d28443a10126a104423131f64101",
			"a401022001215820" + "00", "a1010180",
		} {
			b, err := hex.DecodeString(stripSpaces(h))
			if err == nil {
				fuzzSeedList = append(fuzzSeedList, b)
			}
		}
	})
	return fuzzSeedList
}

func stripSpaces(s string) string {
	out := make([]byte, 0, len(s))
	for i := 0; i < len(s); i++ {
		if s[i] != ' ' {
			out = append(out, s[i])
		}
	}
	return string(out)
}

var _ = refcose.KSign1
