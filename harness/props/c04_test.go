package props

import (
	"bytes"
	"errors"
	"fmt"
	"testing"

	cose "github.com/veraison/go-cose"
	"pgregory.net/rapid"

	"verifharness/bridge"
	"verifharness/gen"
	rc "verifharness/refcbor"
	"verifharness/refcose"
	"verifharness/stats"
)

// c04Case is one cell of the algorithm-agreement model.
type c04Case struct {
	Struct    string `json:"struct"` // Sign1, Untagged, Signature, Countersignature, HashEnvelope
	Mode      string `json:"mode"`   // constructed, decoded, raw+map, raw-only
	Op        string `json:"op"`     // sign, verify
	Absent    bool   `json:"absent,omitempty"`
	Alg       rc.Val `json:"alg"`      // header alg value (any kind; ints carry their Go spelling)
	LabelSp   uint8  `json:"label_sp"` // Go spelling of label 1 (constructed)
	SignerAlg int64  `json:"signer_alg"`
	Ext       int    `json:"ext"`             // 0 nil, 1 empty, 2 non-empty
	Extra     rc.Val `json:"extra,omitempty"` // further protected entries (map)
	// UnprotAlg: the unprotected bucket also holds label 1 (which must not matter): 0 no, 1 the key's
	// algorithm, 2 another algorithm
	UnprotAlg int `json:"unprot_alg,omitempty"`
	// StaleRaw (hash envelope, constructed, sign): the headers handed to SignHashEnvelope still carry the raw
	// protected bytes of another message, naming another algorithm
	StaleRaw bool `json:"stale_raw,omitempty"`
	// Rich: the caller's signer / verifier is a Go type with further methods (Algorithms(), Algorithm-set style
	// conveniences, DigestSigner-like extras): what counts is what Algorithm() reports
	Rich bool `json:"rich,omitempty"`
}

// richSigner / richVerifier: keys of a caller's own type that offer more than the two interface methods.
type richSigner struct{ *bridge.SpySigner }

func c04AllAlgs() []cose.Algorithm {
	return []cose.Algorithm{cose.AlgorithmES256, cose.AlgorithmES384, cose.AlgorithmES512, cose.AlgorithmPS256, cose.AlgorithmPS384, cose.AlgorithmPS512, cose.AlgorithmEdDSA, cose.Algorithm(-65537), cose.Algorithm(7), cose.Algorithm(-37)}
}
func (richSigner) Algorithms() []cose.Algorithm          { return c04AllAlgs() }
func (richSigner) SupportedAlgorithms() []cose.Algorithm { return c04AllAlgs() }
func (richSigner) Supports(cose.Algorithm) bool          { return true }
func (richSigner) AnyAlgorithm() bool                    { return true }

type richVerifier struct{ *bridge.SpyVerifier }

func (richVerifier) Algorithms() []cose.Algorithm          { return c04AllAlgs() }
func (richVerifier) SupportedAlgorithms() []cose.Algorithm { return c04AllAlgs() }
func (richVerifier) Supports(cose.Algorithm) bool          { return true }
func (richVerifier) AnyAlgorithm() bool                    { return true }

// unprotAlg returns the value placed under label 1 of the unprotected bucket.
func (c *c04Case) unprotAlg() (int64, bool) {
	switch c.UnprotAlg {
	case 1:
		return c.SignerAlg, true
	case 2:
		if c.SignerAlg == -7 {
			return -8, true
		}
		return -7, true
	}
	return 0, false
}

// unprotGo / unprotWire: the unprotected bucket of the case as a Go map and as bytes.
func (c *c04Case) unprotGo() cose.UnprotectedHeader {
	u := cose.UnprotectedHeader{}
	if a, ok := c.unprotAlg(); ok {
		u[int64(1)] = cose.Algorithm(a)
	}
	return u
}

func (c *c04Case) unprotWire() []byte {
	if a, ok := c.unprotAlg(); ok {
		return rc.Encode(rc.Map(rc.E(rc.Int(1), rc.Int(a))), nil)
	}
	return []byte{0xa0}
}

func (c *c04Case) id() string {
	return fmt.Sprintf("%s/%s/%s/absent=%v/alg=%s/lsp=%d/signer=%d/ext=%d/extra=%d/ualg=%d/stale=%v", c.Struct, c.Mode, c.Op, c.Absent, c.Alg.String(), c.LabelSp, c.SignerAlg, c.Ext, len(c.Extra.M), c.UnprotAlg, c.StaleRaw)
}

func (c *c04Case) ext() []byte {
	switch c.Ext {
	case 0:
		return nil
	case 1:
		return []byte{}
	}
	return []byte("external data")
}

// protMap returns the abstract protected map of the case.
func (c *c04Case) protMap() rc.Val {
	m := rc.Map()
	if c.Extra.K == rc.KMap {
		m.M = append(m.M, c.Extra.M...)
	}
	if !c.Absent {
		m.M = append(m.M, rc.E(rc.IntSp(1, c.LabelSp), c.Alg))
	}
	if c.Struct == "HashEnvelope" && c.Op == "verify" {
		m.M = append(m.M, rc.E(rc.Int(258), rc.Int(-16)))
	}
	return m
}

func protBstr(m rc.Val) []byte {
	if len(m.M) == 0 {
		return []byte{0x40}
	}
	return rc.Encode(rc.Bytes(rc.Encode(m, nil)), nil)
}

// signedSpelling reports whether the alg value is an integer spelt with a
// signed Go type (or cose.Algorithm), for which the mismatch error class is
// asserted.
func signedSpelling(v rc.Val) bool {
	if v.K != rc.KInt {
		return false
	}
	switch v.Sp {
	case rc.SpInt64, rc.SpInt, rc.SpInt8, rc.SpInt16, rc.SpInt32, rc.SpAlgorithm:
		return true
	}
	return false
}

// tbsProtectedAlg extracts alg from the protected field (index idx) of a
// recorded ToBeSigned.
func tbsProtectedAlg(tbs []byte, idx int) (int64, bool) {
	n, err := rc.Parse(tbs)
	if err != nil || n.Major != 4 || len(n.Items) <= idx || n.Items[idx].Major != 2 {
		return 0, false
	}
	if len(n.Items[idx].Content) == 0 {
		return 0, false
	}
	pm, err := rc.Parse(n.Items[idx].Content)
	if err != nil {
		return 0, false
	}
	v := pm.Lookup(1)
	if v == nil || !v.IsInt() {
		return 0, false
	}
	return v.Int64()
}

// c04Decode decodes from a buffer that its owner reuses as soon as the decoder has returned.
func c04Decode(dst interface{ UnmarshalCBOR([]byte) error }, w []byte) error {
	buf := append([]byte{}, w...)
	err := dst.UnmarshalCBOR(buf)
	for i := range buf {
		buf[i] ^= 0x3c
	}
	return err
}

var c04Parent = &cose.Sign1Message{Headers: cose.Headers{Protected: cose.ProtectedHeader{}}, Payload: []byte("parent"), Signature: []byte{9, 9, 9}}

// checkC04 runs one cell and compares with the model of the statement.
func checkC04(c c04Case) error {
	pm := c.protMap()
	ext := c.ext()
	hasExt := len(ext) > 0
	present := !c.Absent
	algVal, isInt := c.Alg.Int64()
	isInt = isInt && present
	equal := isInt && algVal == c.SignerAlg
	mismatch := present && !equal
	payload := []byte("payload")

	// headers as the mode prescribes
	var h cose.Headers
	var decodedMsg *cose.Sign1Message
	var decodedSig *cose.Signature
	switch c.Mode {
	case "constructed", "re-issued":
		h = cose.Headers{Protected: bridge.ToProtected(pm), Unprotected: c.unprotGo()}
		if c.StaleRaw && c.Struct == "HashEnvelope" && c.Op == "sign" {
			other := int64(-7)
			if c.SignerAlg == -7 {
				other = -8
			}
			h.RawProtected = protBstr(rc.Map(rc.E(rc.Int(1), rc.Int(other)), rc.E(rc.Int(258), rc.Int(-16))))
			stats.Class("hash-envelope-from-headers-with-stale-raw-bytes")
		}
	case "re-decoded":
		// a Headers value that held another message before is re-used through the public
		// UnmarshalFromRaw: what counts is the protected header decoded last
		prior := rc.Map(rc.E(rc.Int(1), rc.Int(c.SignerAlg)), rc.E(rc.Int(4), rc.Bytes([]byte("prior"))))
		h = cose.Headers{RawProtected: protBstr(prior), RawUnprotected: []byte{0xa0}}
		if err := h.UnmarshalFromRaw(); err != nil {
			return fmt.Errorf("harness: prior headers do not decode: %v", err)
		}
		h.RawProtected, h.RawUnprotected = protBstr(pm), c.unprotWire()
		if err := h.UnmarshalFromRaw(); err != nil {
			stats.Class("skipped/undecodable-header")
			return nil
		}
	case "raw+map", "raw-only", "decoded":
		wireMap := pm
		raw := protBstr(wireMap)
		if c.Mode == "raw-only" {
			h = cose.Headers{RawProtected: raw, Unprotected: c.unprotGo()}
			break
		}
		// what a decoder would produce
		var ph cose.ProtectedHeader
		if err := ph.UnmarshalCBOR(raw); err != nil {
			stats.Class("skipped/undecodable-header")
			return nil
		}
		if present && isInt {
			if got, ok := ph[int64(1)].(cose.Algorithm); !ok || int64(got) != algVal {
				return finding("decoded-alg-untyped", "decoded protected header holds alg as %T(%v), want cose.Algorithm(%d)", ph[int64(1)], ph[int64(1)], algVal)
			}
		}
		if c.Mode == "raw+map" {
			h = cose.Headers{RawProtected: raw, Protected: ph, Unprotected: c.unprotGo()}
			break
		}
		// decoded: run the real message decoder on reference-built wire
		switch c.Struct {
		case "Sign1", "Untagged", "HashEnvelope", "Countersignature":
			w := []byte{0x84}
			w = append(w, raw...)
			w = append(w, c.unprotWire()...)
			w = append(w, rc.Encode(rc.Bytes(payload), nil)...)
			if c.Struct == "HashEnvelope" {
				w = w[:len(w)-len(payload)-1]
				w = append(w, rc.Encode(rc.Bytes(make([]byte, 32)), nil)...)
			}
			w = append(w, 0x43, 1, 2, 3)
			if c.Struct == "Countersignature" {
				w = append([]byte{0x83}, raw...)
				w = append(w, c.unprotWire()...)
				w = append(w, 0x43, 1, 2, 3)
				var cs cose.Countersignature
				if err := c04Decode(&cs, w); err != nil {
					stats.Class("skipped/undecodable-message")
					return nil
				}
				h = cs.Headers
				break
			}
			var m cose.Sign1Message
			if err := c04Decode(&m, append([]byte{0xd2}, w...)); err != nil {
				stats.Class("skipped/undecodable-message")
				return nil
			}
			decodedMsg = &m
			h = m.Headers
		case "Signature":
			w := append([]byte{0x83}, raw...)
			w = append(w, c.unprotWire()...)
			w = append(w, 0x43, 1, 2, 3)
			var s cose.Signature
			if err := c04Decode(&s, w); err != nil {
				stats.Class("skipped/undecodable-message")
				return nil
			}
			decodedSig = &s
			h = s.Headers
		}
		if present && isInt {
			if got, ok := h.Protected[int64(1)].(cose.Algorithm); !ok || int64(got) != algVal {
				return finding("decoded-alg-untyped", "decoded message holds alg as %T(%v), protected bytes say %d", h.Protected[int64(1)], h.Protected[int64(1)], algVal)
			}
		}
	}
	_ = decodedSig
	if c.Mode == "decoded" {
		// another message of the same kind, naming another algorithm in a protected header of the same
		// length, is decoded (into its own variable) before the first one is used
		other := rc.Int(-8)
		if a, ok := c.Alg.Int64(); ok && c.Alg.K == rc.KInt {
			switch {
			case a == -8:
				other = rc.Int(-7)
			case a < -24 && a >= -256:
				other = rc.Int(a - 1)
			}
		}
		sib := rc.Map()
		if c.Extra.K == rc.KMap {
			sib.M = append(sib.M, c.Extra.M...)
		}
		sib.M = append(sib.M, rc.E(rc.Int(1), other))
		if c.Struct == "HashEnvelope" {
			sib.M = append(sib.M, rc.E(rc.Int(258), rc.Int(-16)))
		}
		sraw := protBstr(sib)
		w := append([]byte{0x83}, sraw...)
		w = append(w, 0xa0, 0x43, 9, 9, 9)
		switch c.Struct {
		case "Signature":
			var s2 cose.Signature
			_ = s2.UnmarshalCBOR(w)
		case "Countersignature":
			var s2 cose.Countersignature
			_ = s2.UnmarshalCBOR(w)
		default:
			w = append([]byte{0xd2, 0x84}, sraw...)
			w = append(w, 0xa0, 0x47)
			w = append(w, "sibling"...)
			w = append(w, 0x43, 9, 9, 9)
			var m2 cose.Sign1Message
			_ = m2.UnmarshalCBOR(w)
			var u2 cose.UntaggedSign1Message
			_ = u2.UnmarshalCBOR(w[1:])
		}
	}

	// "re-issued": what the message object was before
	priorAlg := cose.AlgorithmPS512
	if c.SignerAlg == int64(cose.AlgorithmPS512) {
		priorAlg = cose.AlgorithmES384
	}
	priorHeaders := func() cose.Headers {
		return cose.Headers{Protected: cose.ProtectedHeader{int64(1): priorAlg, int64(4): []byte("prior")}, Unprotected: cose.UnprotectedHeader{}}
	}
	priorSigner := func() cose.Signer { return &bridge.SpySigner{Alg: priorAlg} }
	spyS := &bridge.SpySigner{Alg: cose.Algorithm(c.SignerAlg)}
	spyV := &bridge.SpyVerifier{Alg: cose.Algorithm(c.SignerAlg)}
	var useS cose.Signer = spyS
	var useV cose.Verifier = spyV
	if c.Rich {
		useS, useV = richSigner{spyS}, richVerifier{spyV}
		stats.Class("caller-key-type-with-further-methods")
	}
	rnd := refcose.NewEntropy(nil)
	var opErr error
	var emitted []byte // message emitted after a successful sign (when the structure has one)
	tbsIdx := 1        // index of this layer's protected field in ToBeSigned
	switch c.Struct {
	case "Sign1", "Untagged":
		m := &cose.Sign1Message{Headers: h, Payload: payload}
		if decodedMsg != nil {
			m = decodedMsg
		}
		if c.Mode == "re-issued" {
			// the same message object was signed under another algorithm and encoded before; its
			// header maps are then replaced and it is signed / verified again
			m.Headers = priorHeaders()
			if err := m.Sign(rnd, nil, priorSigner()); err != nil {
				return fmt.Errorf("harness: prior signing: %v", err)
			}
			if _, err := m.MarshalCBOR(); err != nil {
				return fmt.Errorf("harness: prior encoding: %v", err)
			}
			m.Headers.Protected, m.Headers.Unprotected = h.Protected, h.Unprotected
			m.Signature = nil
		}
		if c.Op == "sign" {
			m.Signature = nil
			if c.Struct == "Untagged" {
				opErr = (*cose.UntaggedSign1Message)(m).Sign(rnd, ext, useS)
			} else {
				opErr = m.Sign(rnd, ext, useS)
			}
			if opErr == nil {
				emitted, _ = m.MarshalCBOR()
			}
		} else {
			m.Signature = []byte{1, 2, 3}
			if c.Struct == "Untagged" {
				opErr = (*cose.UntaggedSign1Message)(m).Verify(ext, useV)
			} else {
				opErr = m.Verify(ext, useV)
			}
		}
	case "Signature":
		tbsIdx = 2
		s := &cose.Signature{Headers: h}
		if c.Mode == "re-issued" {
			s.Headers = priorHeaders()
			if err := s.Sign(rnd, priorSigner(), []byte{0x40}, payload, nil); err != nil {
				return fmt.Errorf("harness: prior signing: %v", err)
			}
			if _, err := s.MarshalCBOR(); err != nil {
				return fmt.Errorf("harness: prior encoding: %v", err)
			}
			s.Headers.Protected, s.Headers.Unprotected = h.Protected, h.Unprotected
			s.Signature = nil
		}
		if c.Op == "sign" {
			opErr = s.Sign(rnd, useS, []byte{0x40}, payload, ext)
			if opErr == nil {
				emitted, _ = s.MarshalCBOR()
			}
		} else {
			s.Signature = []byte{1, 2, 3}
			opErr = s.Verify(useV, []byte{0x40}, payload, ext)
		}
	case "Countersignature":
		tbsIdx = 2
		cs := &cose.Countersignature{Headers: h}
		if c.Mode == "re-issued" {
			cs.Headers = priorHeaders()
			if err := cs.Sign(rnd, priorSigner(), c04Parent, nil); err != nil {
				return fmt.Errorf("harness: prior signing: %v", err)
			}
			if _, err := cs.MarshalCBOR(); err != nil {
				return fmt.Errorf("harness: prior encoding: %v", err)
			}
			cs.Headers.Protected, cs.Headers.Unprotected = h.Protected, h.Unprotected
			cs.Signature = nil
		}
		if c.Op == "sign" {
			opErr = cs.Sign(rnd, useS, c04Parent, ext)
			if opErr == nil {
				emitted, _ = cs.MarshalCBOR()
			}
		} else {
			cs.Signature = []byte{1, 2, 3}
			opErr = cs.Verify(useV, c04Parent, ext)
		}
	case "HashEnvelope":
		// no external data in this structure
		ext, hasExt = nil, false
		if c.Op == "sign" {
			if c.Mode != "constructed" {
				stats.Class("skipped/hash-envelope-mode")
				return nil
			}
			emitted, opErr = cose.SignHashEnvelope(rnd, useS, h, cose.HashEnvelopePayload{HashAlgorithm: cose.AlgorithmSHA256, HashValue: make([]byte, 32)})
		} else {
			if c.Mode != "decoded" {
				stats.Class("skipped/hash-envelope-mode")
				return nil
			}
			w, _ := decodedMsg.MarshalCBOR()
			_, opErr = cose.VerifyHashEnvelope(useV, w)
		}
	}

	calls := spyS.NCalls()
	if c.Op == "verify" {
		calls = spyV.NCalls()
	}
	where := c.id()
	rawOnlyKey := func(k string) string {
		if c.Mode == "raw-only" {
			return "raw-only/" + k
		}
		return k
	}
	switch {
	case mismatch:
		if opErr == nil {
			return finding(rawOnlyKey("proceeds-under-other-alg"), "%s: %s succeeds although the protected alg (%s) differs from the key's algorithm %d (key invoked %d times)", where, c.Op, c.Alg, c.SignerAlg, calls)
		}
		if calls != 0 {
			return finding(rawOnlyKey("key-invoked-before-alg-check"), "%s: the key was invoked %d times although the algorithms differ (err=%v)", where, calls, opErr)
		}
		if isInt && signedSpelling(c.Alg) && c.Mode != "raw-only" && !errors.Is(opErr, cose.ErrAlgorithmMismatch) {
			return finding("wrong-error-class", "%s: error %q is not ErrAlgorithmMismatch", where, opErr)
		}
		stats.Class("refused/mismatch")
	case !present && !hasExt:
		if c.Op == "verify" {
			if opErr == nil {
				return finding("verified-without-alg", "%s: verification succeeds without alg and without external data", where)
			}
			if calls != 0 {
				return finding("key-invoked-before-alg-check", "%s: verifier invoked although alg is absent (err=%v)", where, opErr)
			}
			stats.Class("refused/alg-absent")
			break
		}
		if opErr != nil {
			if calls != 0 {
				return finding("key-invoked-before-alg-check", "%s: signer invoked although signing failed on the algorithm check (err=%v)", where, opErr)
			}
			stats.Class("refused/alg-absent")
			break
		}
		// success: alg must have been inserted into the signed bytes and the emitted message
		a, ok := tbsProtectedAlg(spyS.Last(), tbsIdx)
		if !ok || a != c.SignerAlg {
			return finding("signed-without-alg", "%s: signing succeeded without external data but the signed protected header does not carry alg %d (ToBeSigned=%x)", where, c.SignerAlg, spyS.Last())
		}
		if emitted != nil {
			kind := map[string]refcose.Kind{"Sign1": refcose.KSign1, "Untagged": refcose.KSign1, "HashEnvelope": refcose.KSign1, "Signature": refcose.KSignature, "Countersignature": refcose.KSignature}[c.Struct]
			env, err := refcose.ParseEnv(kind, emitted)
			if err != nil {
				return finding("emitted-unparseable", "%s: %v", where, err)
			}
			if ea, p, i := env.AlgOf(); !p || !i || ea != c.SignerAlg {
				return finding("emitted-without-alg", "%s: emitted message does not carry alg %d in its protected header: %x", where, c.SignerAlg, emitted)
			}
			tn, _ := rc.Parse(spyS.Last())
			if !bytes.Equal(tn.Items[tbsIdx].Content, env.ProtContent()) {
				return finding("signed-vs-emitted", "%s: protected bytes signed differ from those emitted", where)
			}
		}
		stats.Class("alg-injected")
	default:
		// present-and-equal, or absent with external data: proceeding is allowed
		if opErr == nil {
			if calls != 1 {
				return finding("key-calls", "%s: success with %d key invocations", where, calls)
			}
			if equal && c.Op == "sign" {
				if a, ok := tbsProtectedAlg(spyS.Last(), tbsIdx); !ok || a != c.SignerAlg {
					return finding("signed-without-alg", "%s: signed protected header does not carry the agreed alg (ToBeSigned=%x)", where, spyS.Last())
				}
			}
			if equal && c.Op == "verify" && c.Mode != "raw-only" && len(spyV.Calls) == 1 {
				// the algorithm that was checked is the one in the bytes the verifier is given
				if a, ok := tbsProtectedAlg(spyV.Calls[0].Content, tbsIdx); !ok || a != c.SignerAlg {
					return finding("verified-bytes-carry-other-alg", "%s: the verifier (algorithm %d) was handed a structure whose protected header does not carry that alg (ToBeSigned=%x)", where, c.SignerAlg, spyV.Calls[0].Content)
				}
			}
			stats.Class("proceeds/" + map[bool]string{true: "equal", false: "absent-with-external"}[equal])
		} else {
			stats.Class("refused-though-allowed/" + shortErr(opErr))
		}
	}
	if mismatch || (!present && !hasExt) {
		stats.NTBytes([]byte(where))
		stats.Sample("c04/"+c.Struct+"/"+c.Mode, map[string]any{"cell": where, "outcome": fmt.Sprint(opErr)})
	}
	stats.Class("struct/" + c.Struct)
	stats.Class("mode/" + c.Mode)
	stats.Class(fmt.Sprintf("unprotected-alg/%d", c.UnprotAlg))
	return nil
}

func init() { register("c04", checkC04) }

func c04AlgValues() []rc.Val {
	var out []rc.Val
	for _, a := range []int64{-7, -8, -35, -36, -37, -38, -39, -65537, 7, 0, -9223372036854775808} {
		out = append(out, rc.Int(a))
	}
	// unsigned values beyond int64, in particular the two's-complement images of the signer algorithms
	for _, u := range []uint64{1 << 63, 1<<64 - 7, 1<<64 - 8, 1<<64 - 37, 1<<64 - 65537, 1<<64 - 1} {
		out = append(out, rc.Uint(u))
	}
	out = append(out, rc.Text("ES256"), rc.Text(""), rc.Bytes([]byte{1}), rc.Float(1.5), rc.Bool(true), rc.Null, rc.Array(rc.Int(-7)))
	// text that spells the signer's algorithm id, held as a plain string, as json.Number and as a named string type
	// (all emitted as text: no integer alg), and the id itself held as a named integer type
	for _, a := range []string{"-7", "-8", "-37", "7"} {
		out = append(out, rc.Text(a), rc.Val{K: rc.KText, B: rc.Hex(a), Sp: rc.SpJSONNumber}, rc.Val{K: rc.KText, B: rc.Hex(a), Sp: rc.SpNamedString})
	}
	for _, a := range []int64{-7, -8, 7} {
		out = append(out, rc.IntSp(a, rc.SpNamedInt))
	}
	return out
}

func valueSpellings(v rc.Val) []uint8 {
	if v.K != rc.KInt || v.Sp == rc.SpNamedInt {
		return []uint8{v.Sp}
	}
	i, _ := v.Int64()
	var out []uint8
	for _, sp := range []uint8{rc.SpAlgorithm, rc.SpInt64, rc.SpInt, rc.SpInt8, rc.SpInt16, rc.SpInt32, rc.SpUint, rc.SpUint8, rc.SpUint64} {
		if sp == rc.SpAlgorithm || bridge.SpellingFits(i, sp) {
			out = append(out, sp)
		}
	}
	return out
}

// TestC04_Grid enumerates the model grid completely.
func TestC04_Grid(t *testing.T) {
	begin(t, "C04", "grid")
	n := 0
	run := func(c c04Case) {
		n++
		stats.Eval()
		judge(t, "c04", c, checkC04)
	}
	structs := []string{"Sign1", "Untagged", "Signature", "Countersignature", "HashEnvelope"}
	signerAlgs := []int64{-7, -8, -37, -65537, 7, 0}
	for _, st := range structs {
		for _, mode := range []string{"constructed", "decoded", "raw+map", "raw-only", "re-decoded", "re-issued"} {
			for _, op := range []string{"sign", "verify"} {
				if mode == "decoded" && op == "sign" {
					continue
				}
				for _, sa := range signerAlgs {
					for ext := 0; ext < 3; ext++ {
						for ua := 0; ua < 3; ua++ {
							run(c04Case{Struct: st, Mode: mode, Op: op, Absent: true, SignerAlg: sa, Ext: ext, UnprotAlg: ua})
						}
						for _, av := range c04AlgValues() {
							lsps := []uint8{0}
							vsps := []uint8{av.Sp}
							if mode == "constructed" {
								lsps = []uint8{0, 1, 2, 3, 4, 5, 6, 7, 8, 9}
								vsps = valueSpellings(av)
							}
							if mode == "re-issued" && st == "HashEnvelope" {
								continue
							}
							for _, lsp := range lsps {
								for _, vsp := range vsps {
									v := av
									v.Sp = vsp
									run(c04Case{Struct: st, Mode: mode, Op: op, Alg: v, LabelSp: lsp, SignerAlg: sa, Ext: ext})
									if st == "HashEnvelope" && mode == "constructed" && op == "sign" && lsp == 0 {
										run(c04Case{Struct: st, Mode: mode, Op: op, Alg: v, LabelSp: lsp, SignerAlg: sa, Ext: ext, StaleRaw: true})
									}
									if lsp == 0 && vsp == av.Sp {
										run(c04Case{Struct: st, Mode: mode, Op: op, Alg: v, LabelSp: lsp, SignerAlg: sa, Ext: ext, Rich: true})
										// the unprotected bucket names the key's algorithm (or another one) as well
										run(c04Case{Struct: st, Mode: mode, Op: op, Alg: v, LabelSp: lsp, SignerAlg: sa, Ext: ext, UnprotAlg: 1})
										run(c04Case{Struct: st, Mode: mode, Op: op, Alg: v, LabelSp: lsp, SignerAlg: sa, Ext: ext, UnprotAlg: 2})
									}
								}
							}
						}
					}
				}
			}
		}
	}
	stats.ExhaustivePart("alg-agreement-grid", n)
}

// TestC04_Random embeds the alg cell in generated headers of any size.
func TestC04_Random(t *testing.T) {
	begin(t, "C04", "random")
	prop(t, func(rt *rapid.T) {
		c := c04Case{
			Struct:    rapid.SampledFrom([]string{"Sign1", "Untagged", "Signature", "Countersignature", "HashEnvelope"}).Draw(rt, "struct"),
			Mode:      rapid.SampledFrom([]string{"constructed", "constructed", "decoded", "raw+map", "re-decoded", "re-issued"}).Draw(rt, "mode"),
			Op:        rapid.SampledFrom([]string{"sign", "verify"}).Draw(rt, "op"),
			SignerAlg: rapid.SampledFrom([]int64{-7, -8, -35, -36, -37, -38, -39, -65537, 7, 1 << 40}).Draw(rt, "signer-alg"),
			Ext:       rapid.IntRange(0, 2).Draw(rt, "ext"),
		}
		if c.Mode == "decoded" {
			c.Op = "verify"
		}
		c.UnprotAlg = rapid.SampledFrom([]int{0, 0, 1, 2}).Draw(rt, "unprot-alg")
		switch rapid.IntRange(0, 3).Draw(rt, "algclass") {
		case 0:
			c.Absent = true
		case 1:
			c.Alg = rc.Int(c.SignerAlg)
		case 2:
			c.Alg = gen.Int64Val(rt, gen.ValOpts{BigInts: true})
		default:
			c.Alg = rapid.SampledFrom(c04AlgValues()).Draw(rt, "algvalue")
		}
		if c.Alg.K == rc.KInt && c.Mode == "constructed" {
			i, _ := c.Alg.Int64()
			sp := rapid.SampledFrom([]uint8{rc.SpAlgorithm, rc.SpInt64, rc.SpInt, rc.SpInt8, rc.SpInt16, rc.SpInt32}).Draw(rt, "valsp")
			if sp == rc.SpAlgorithm || bridge.SpellingFits(i, sp) {
				c.Alg.Sp = sp
			}
			c.LabelSp = uint8(rapid.IntRange(0, 9).Draw(rt, "labelsp"))
		}
		ho := constructedHdrOpts()
		ho.MaxEntries = 30
		ho.NoCty = true
		ho.Val.NaN = false
		if c.Mode != "constructed" {
			ho.Val.Spellings = false
		}
		p, _ := gen.Headers(rt, ho)
		c.Extra = p.Without(1).Without(258).Without(2)
		stats.Eval()
		judge(rt, "c04", c, checkC04)
	})
}

// ---------------------------------------------------------------------------
// sibling layers of one decoded message: every COSE_Signature has its own
// protected header, also when several of them are byte-identical on the wire.
// The algorithm consulted for one layer is the one in that layer's bytes,
// whatever the caller did to the typed header of a sibling.

type c04SiblingCase struct {
	AlgA int64 `json:"alg_a"` // on the wire, in every signer's protected header
	AlgB int64 `json:"alg_b"` // written into signer 0's typed header after decoding
	N    int   `json:"n"`
}

func checkC04Siblings(c c04SiblingCase) error {
	prot := protBstr(rc.Map(rc.E(rc.Int(1), rc.Int(c.AlgA))))
	w := []byte{0xd8, 0x62, 0x84, 0x40, 0xa0, 0x47}
	w = append(w, "payload"...)
	w = append(w, byte(0x80+c.N))
	for i := 0; i < c.N; i++ {
		w = append(w, 0x83)
		w = append(w, prot...)
		w = append(w, 0xa0, 0x43, 1, 2, byte(i))
	}
	var m cose.SignMessage
	if err := m.UnmarshalCBOR(append([]byte{}, w...)); err != nil {
		return fmt.Errorf("harness: %v", err)
	}
	before := bridge.DumpValue(m.Signatures[c.N-1])
	// the caller re-issues signer 0 under another algorithm: typed header edited in place, raw bytes dropped
	m.Signatures[0].Headers.Protected[int64(1)] = cose.Algorithm(c.AlgB)
	m.Signatures[0].Headers.RawProtected = nil
	if after := bridge.DumpValue(m.Signatures[c.N-1]); after != before {
		return finding("sibling-layers-share-header", "editing the typed protected header of signer 0 changed signer %d of the same decoded message\nbefore=%s\n after=%s", c.N-1, before, after)
	}
	body, _ := m.Headers.MarshalProtected()
	for i := 1; i < c.N; i++ {
		vA := &bridge.SpyVerifier{Alg: cose.Algorithm(c.AlgA)}
		if err := m.Signatures[i].Verify(vA, body, m.Payload, nil); err != nil || vA.NCalls() != 1 {
			return finding("refused-though-allowed/sibling-edited", "signer %d (alg %d on the wire) is refused for a verifier of that algorithm after signer 0 was edited: %v", i, c.AlgA, err)
		}
		if a, ok := tbsProtectedAlg(vA.Calls[0].Content, 2); !ok || a != c.AlgA {
			return finding("verified-bytes-carry-other-alg", "signer %d: bytes handed to the verifier do not carry alg %d", i, c.AlgA)
		}
		vB := &bridge.SpyVerifier{Alg: cose.Algorithm(c.AlgB)}
		if err := m.Signatures[i].Verify(vB, body, m.Payload, nil); err == nil || vB.NCalls() != 0 {
			return finding("proceeds-under-other-alg/sibling-edited", "signer %d (alg %d in its signed bytes) is verified by a verifier of algorithm %d after that algorithm was written into signer 0's header (key invoked %d times, err=%v)", i, c.AlgA, c.AlgB, vB.NCalls(), err)
		}
	}
	stats.Class("sibling-signatures")
	return nil
}

func init() { register("c04sib", checkC04Siblings) }

func TestC04_SiblingSignatures(t *testing.T) {
	begin(t, "C04", "siblings")
	algs := []int64{-7, -8, -35, -36, -37, -38, -39, -65537}
	n := 0
	for _, a := range algs {
		for _, b := range algs {
			if a == b {
				continue
			}
			for _, k := range []int{2, 3, 4} {
				c := c04SiblingCase{AlgA: a, AlgB: b, N: k}
				n++
				stats.Eval()
				stats.NTBytes([]byte(fmt.Sprint(c)))
				judge(t, "c04sib", c, checkC04Siblings)
			}
		}
	}
	stats.ExhaustivePart("sibling-signature cells", n)
}
