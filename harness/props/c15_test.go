package props

import (
	"bytes"
	"crypto/ecdsa"
	"crypto/ed25519"
	"crypto/elliptic"
	"fmt"
	"math/big"
	"strings"
	"testing"

	cose "github.com/veraison/go-cose"
	"pgregory.net/rapid"

	"verifharness/bridge"
	"verifharness/gen"
	rc "verifharness/refcbor"
	"verifharness/refcose"
	"verifharness/stats"
)

type c15Case struct {
	Prior rc.Hex         `json:"prior,omitempty"` // decoded into the same Key variable first (a re-used variable)
	Wire  rc.Hex         `json:"wire"`
	Cell  string         `json:"cell,omitempty"`
	Muts  []gen.Mutation `json:"mutations,omitempty"`
}

func ec2CurveAlg(crv int64) (elliptic.Curve, int64, int) {
	switch crv {
	case 1:
		return elliptic.P256(), refcose.AlgES256, 32
	case 2:
		return elliptic.P384(), refcose.AlgES384, 48
	case 3:
		return elliptic.P521(), refcose.AlgES512, 66
	}
	return nil, 0, 0
}

// keyOpsAllow reads key_ops from the bytes: absent = every operation.
func keyOpsAllow(n *rc.Node, op int64, name string) bool {
	v := n.Lookup(4)
	if v == nil {
		return true
	}
	if v.Major != 4 {
		return false
	}
	for _, it := range v.Items {
		if i, ok := it.Int64(); ok && it.IsInt() && i == op {
			return true
		}
		if it.Major == 3 && string(it.Content) == name {
			return true
		}
	}
	return false
}

func bstrOf(n *rc.Node, l int64) ([]byte, bool) {
	v := n.Lookup(l)
	if v == nil || v.Major != 2 {
		return nil, false
	}
	return v.Content, true
}

// refKeyRules: the consistency clauses of the statement on the bytes.
func refKeyRules(n *rc.Node) error {
	if n.Major != 5 {
		return fmt.Errorf("not a map")
	}
	if n.Indef {
		// (the key decoder is not an envelope decoder; indefinite length is refused by the CBOR library anyway)
		return fmt.Errorf("indefinite-length map")
	}
	seen := map[string]bool{}
	for _, k := range n.Keys {
		if !labelOK(k) {
			return fmt.Errorf("label at offset %d is not int64 / tstr", k.Start)
		}
		ck := k.CanonKey()
		if seen[ck] {
			return fmt.Errorf("duplicate label")
		}
		seen[ck] = true
	}
	ktyN := n.Lookup(1)
	if ktyN == nil || !ktyN.IsInt() {
		return fmt.Errorf("kty missing or not an integer")
	}
	kty, ok := ktyN.Int64()
	if !ok || kty == 0 {
		return fmt.Errorf("kty reserved / out of range")
	}
	if kty != 1 && kty != 2 {
		return nil
	}
	crvN := n.Lookup(-1)
	if crvN == nil || !crvN.IsInt() {
		return fmt.Errorf("EC2/OKP key without an integer curve")
	}
	crv, ok := crvN.Int64()
	if !ok || crv == 0 {
		return fmt.Errorf("curve reserved / out of range")
	}
	x, _ := bstrOf(n, -2)
	y, _ := bstrOf(n, -3)
	d, _ := bstrOf(n, -4)
	var algWant int64
	if kty == 2 {
		if crv >= 4 && crv <= 7 {
			return fmt.Errorf("EC2 key on an OKP curve")
		}
		if _, a, size := ec2CurveAlg(crv); size > 0 {
			algWant = a
			if len(x) > size || len(y) > size || len(d) > size {
				return fmt.Errorf("coordinate longer than the curve size")
			}
		}
	} else {
		if crv >= 1 && crv <= 3 {
			return fmt.Errorf("OKP key on an EC2 curve")
		}
		if crv == 6 {
			algWant = refcose.AlgEdDSA
			if (len(x) > 0 && len(x) != 32) || (len(d) > 0 && len(d) != 32) {
				return fmt.Errorf("Ed25519 x / d not 32 bytes")
			}
		}
		// the other registered OKP curves have fixed key sizes too (RFC 7748 / RFC 8032): X25519 32,
		// X448 56, Ed448 57 bytes; nothing longer is "within the curve's size"
		if size := map[int64]int{4: 32, 5: 56, 7: 57}[crv]; size > 0 && (len(x) > size || len(d) > size) {
			return fmt.Errorf("OKP coordinate longer than the size of curve %d", crv)
		}
	}
	if a := n.Lookup(3); a != nil && algWant != 0 {
		if ai, ok := a.Int64(); a.IsInt() && ok && ai != 0 && ai != algWant {
			return fmt.Errorf("alg %d does not match the curve's algorithm %d", ai, algWant)
		}
	}
	// an algorithm given as anything but an integer identifier (text, bstr, ...) matches no curve: none
	// of the curves' algorithms has a textual identifier
	if a := n.Lookup(3); a != nil && !a.IsInt() {
		return fmt.Errorf("alg is present but is not an integer algorithm identifier, so it cannot match curve %d", crv)
	}
	// the same clause read from the algorithm's side: an algorithm that is tied to one curve
	// (ES256 / ES384 / ES512 as the library binds them, EdDSA to the Edwards curves) matches no other
	if a := n.Lookup(3); a != nil && a.IsInt() {
		if ai, ok := a.Int64(); ok {
			want := map[int64][][2]int64{refcose.AlgES256: {{2, 1}}, refcose.AlgES384: {{2, 2}}, refcose.AlgES512: {{2, 3}}, refcose.AlgEdDSA: {{1, 6}, {1, 7}}}[ai]
			if want != nil {
				match := false
				for _, w := range want {
					if w[0] == kty && w[1] == crv {
						match = true
					}
				}
				if !match {
					return fmt.Errorf("alg %d on kty %d curve %d, which is not that algorithm's curve", ai, kty, crv)
				}
			}
		}
	}
	return nil
}

func labelOK(k *rc.Node) bool {
	if k.IsInt() {
		_, ok := k.Int64()
		return ok
	}
	return k.Major == 3
}

// checkC15: everything the key decoder accepts is consistent, closed under
// re-encoding, and yields signers / verifiers only within its restrictions.
func checkC15(c c15Case) error {
	var k cose.Key
	if c.Prior != nil {
		_ = k.UnmarshalCBOR(append([]byte{}, c.Prior...))
		stats.Class("decoded-into-used-variable")
	}
	if err := k.UnmarshalCBOR(append([]byte{}, c.Wire...)); err != nil {
		stats.Class("refused")
		return nil
	}
	if c.Prior != nil {
		var fresh cose.Key
		if err := fresh.UnmarshalCBOR(append([]byte{}, c.Wire...)); err != nil {
			return finding("history-dependent", "a key is accepted into a previously used Key variable but refused into a fresh one: %v\nprior=%x\nwire=%x", err, []byte(c.Prior), []byte(c.Wire))
		}
		if a, b := bridge.DumpValue(k), bridge.DumpValue(fresh); a != b {
			return finding("history-dependent", "decoding a key into a previously used Key variable differs from decoding it into a fresh one\nused =%s\nfresh=%s\nprior=%x\nwire=%x", a, b, []byte(c.Prior), []byte(c.Wire))
		}
	}
	n, perr := rc.Parse(c.Wire)
	if perr != nil {
		return finding("accepted-illformed-cbor", "Key.UnmarshalCBOR accepts bytes that are not one CBOR item: %v\n%x", perr, []byte(c.Wire))
	}
	// the key decoder is not an envelope decoder: the CBOR library looks through tags
	// around the map and strips tag 55799 anywhere (cf. finding F9 of C05); the clauses
	// of C15 do not speak about tags, so the rules are applied to the untagged content
	if root, err := rc.MParse(c.Wire, false); err == nil {
		stripped := rc.StripTag(&root, 55799)
		for root.Verb == nil && root.Major == 6 && root.Child != nil {
			root = root.Child
			stripped++
		}
		if stripped > 0 {
			stats.Class("accepted/tags-looked-through")
			if nn, err := rc.Parse(root.Enc()); err == nil {
				n = nn
			}
		}
	}
	if err := refKeyRules(n); err != nil {
		return finding("accepted-inconsistent", "Key.UnmarshalCBOR accepts an inconsistent key: %v\n%x %s", err, []byte(c.Wire), c.Cell)
	}
	stats.Class("accepted")
	kty, _ := n.Lookup(1).Int64()
	stats.Class(fmt.Sprintf("accepted/kty=%d", kty))
	// closure
	b1, err := k.MarshalCBOR()
	if err != nil {
		return finding("accepted-key-unencodable", "an accepted key cannot be encoded: %v\n%x", err, []byte(c.Wire))
	}
	var k2 cose.Key
	if err := k2.UnmarshalCBOR(append([]byte{}, b1...)); err != nil {
		key := "own-key-rejected"
		if hasIntBeyondInt64(mustParse(b1)) {
			key = "own-key-rejected/bignum-beyond-int64"
		} else if taggedMapKey(c.Wire) {
			key = "own-key-rejected/tagged-map-key"
		}
		return finding(key, "re-encoded key is rejected: %v\n in=%x\nout=%x", err, []byte(c.Wire), b1)
	}
	b2, err := k2.MarshalCBOR()
	if err != nil || !bytes.Equal(b1, b2) {
		return finding("key-not-canonical-fixpoint", "re-encoding twice differs (err=%v)\n b1=%x\n b2=%x", err, b1, b2)
	}
	if is := rc.DeterminismIssues(mustParse(b1)); len(is) > 0 {
		return finding("key-not-deterministic", "%+v\n%x", is, b1)
	}
	// the re-encoded key is the same logical key: same labels, same values up to coordinate padding
	if err := sameKey(n, mustParse(b1)); err != nil {
		return finding("key-changed-by-reencoding", "%v\n in=%x\nout=%x", err, []byte(c.Wire), b1)
	}
	// signer / verifier gates
	var crv int64
	if cn := n.Lookup(-1); cn != nil && cn.IsInt() {
		crv, _ = cn.Int64()
	}
	x, _ := bstrOf(n, -2)
	y, _ := bstrOf(n, -3)
	d, _ := bstrOf(n, -4)
	var algWant int64
	supported := false
	var curve elliptic.Curve
	if kty == 2 {
		curve, algWant, _ = ec2CurveAlg(crv)
		supported = curve != nil
	} else if kty == 1 && crv == 6 {
		algWant, supported = refcose.AlgEdDSA, true
	}
	msg := []byte("c15 message")
	sg, serr := k.Signer()
	if serr == nil {
		switch {
		case !supported:
			return finding("signer-for-unsupported-key", "Signer() succeeds for kty=%d crv=%d\n%x", kty, crv, []byte(c.Wire))
		case len(d) == 0:
			return finding("signer-without-private-material", "Signer() succeeds without d\n%x", []byte(c.Wire))
		case !keyOpsAllow(n, 1, "sign"):
			return finding("signer-against-key-ops", "Signer() succeeds although key_ops does not include sign\n%x", []byte(c.Wire))
		case int64(sg.Algorithm()) != algWant:
			return finding("signer-algorithm", "signer reports %v, the key fixes %d", sg.Algorithm(), algWant)
		}
		stats.Class("signer")
		if sig, err := safeSign(sg, msg); err == nil {
			// valid under the public key that belongs to d
			if kty == 2 {
				dd := new(big.Int).SetBytes(d)
				if dd.Sign() > 0 && dd.Cmp(curve.Params().N) < 0 {
					buf := make([]byte, (curve.Params().BitSize+7)/8)
					dd.FillBytes(buf)
					px, py := curve.ScalarBaseMult(buf)
					if !refcose.Verify(algWant, &ecdsa.PublicKey{Curve: curve, X: px, Y: py}, msg, sig) {
						return finding("signer-wrong-signature", "signature by the key's signer does not verify under d*G with %s\n%x", refcose.AlgName(algWant), []byte(c.Wire))
					}
					stats.Class("signer-signature-checked")
				}
			} else if len(d) == 32 {
				pk := ed25519.NewKeyFromSeed(d).Public().(ed25519.PublicKey)
				if len(x) == 0 || bytes.Equal(x, pk) {
					if !ed25519.Verify(pk, msg, sig) {
						return finding("signer-wrong-signature", "Ed25519 signature by the key's signer does not verify under the seed's public key\n%x", []byte(c.Wire))
					}
					stats.Class("signer-signature-checked")
				}
			}
		}
	}
	vf, verr := k.Verifier()
	if verr == nil {
		switch {
		case !supported:
			return finding("verifier-for-unsupported-key", "Verifier() succeeds for kty=%d crv=%d\n%x", kty, crv, []byte(c.Wire))
		case len(x) == 0 || (kty == 2 && len(y) == 0):
			return finding("verifier-without-public-point", "Verifier() succeeds without the public point\n%x", []byte(c.Wire))
		case !keyOpsAllow(n, 2, "verify"):
			return finding("verifier-against-key-ops", "Verifier() succeeds although key_ops does not include verify\n%x", []byte(c.Wire))
		case int64(vf.Algorithm()) != algWant:
			return finding("verifier-algorithm", "verifier reports %v, the key fixes %d", vf.Algorithm(), algWant)
		}
		if kty == 2 && !curve.IsOnCurve(new(big.Int).SetBytes(x), new(big.Int).SetBytes(y)) {
			return finding("verifier-for-invalid-point", "Verifier() succeeds for a point that is not on the curve\n%x", []byte(c.Wire))
		}
		stats.Class("verifier")
		if err := vf.Verify(msg, []byte("not a signature")); err == nil {
			return finding("verifier-accepts-garbage", "verifier from key accepts garbage")
		}
	}
	// the restrictions follow the key as it is now, not as it was at an earlier call: the key object
	// that just yielded a verifier / signer loses its public point / private scalar in place
	if verr == nil || serr == nil {
		saved := map[any]any{}
		for kk, vv := range k.Params {
			saved[kk] = vv
		}
		if verr == nil {
			delete(k.Params, cose.KeyLabelEC2X) // (-2 is x for OKP keys as well)
			if _, err := k.Verifier(); err == nil {
				return finding("verifier-without-public-point/after-in-place-edit", "Verifier() still succeeds after x was removed from the key object that yielded a verifier before\n%x", []byte(c.Wire))
			}
			k.Params[cose.KeyLabelEC2X] = saved[cose.KeyLabelEC2X]
			ops := k.Ops
			k.Ops = []cose.KeyOp{cose.KeyOpSign}
			if _, err := k.Verifier(); err == nil {
				return finding("verifier-against-key-ops/after-in-place-edit", "Verifier() still succeeds after key_ops of the same key object was set to [sign]\n%x", []byte(c.Wire))
			}
			k.Ops = ops
		}
		if serr == nil {
			delete(k.Params, cose.KeyLabelEC2D) // (-4 is d for OKP keys as well)
			if _, err := k.Signer(); err == nil {
				return finding("signer-without-private-material/after-in-place-edit", "Signer() still succeeds after d was removed from the key object that yielded a signer before\n%x", []byte(c.Wire))
			}
			k.Params[cose.KeyLabelEC2D] = saved[cose.KeyLabelEC2D]
		}
		stats.Class("restrictions-rechecked-after-in-place-edit")
	}
	stats.NTBytes(b1)
	if len(c.Wire) < 120 {
		stats.Sample(fmt.Sprintf("accepted/kty=%d", kty), map[string]any{"wire": c.Wire, "cell": c.Cell, "signer": serr == nil, "verifier": verr == nil})
	}
	return nil
}

// hasIntBeyondInt64 reports whether n contains an integer outside int64 (what
// a bignum tag 2/3 with a value in 2^63..2^64-1 becomes when re-encoded).
func hasIntBeyondInt64(n *rc.Node) bool {
	found := false
	n.Walk(func(x *rc.Node) {
		if x.IsInt() && x.Arg > 1<<63-1 {
			found = true
		}
	})
	return found
}

func safeSign(s cose.Signer, msg []byte) (sig []byte, err error) {
	defer func() {
		if r := recover(); r != nil {
			err = fmt.Errorf("panic: %v", r) // C06 judges panics; here only a usable signature matters
		}
	}()
	return s.Sign(refcose.NewEntropy([]byte("c15")), msg)
}

// sameKey compares the parameters that define the key (kty, kid, alg, key_ops,
// Base IV, crv, x, y, d - each only when it has its proper CBOR type in a)
// between the accepted input a and its re-encoding b, tolerating left-padding
// of EC2 x / y to the curve size, text forms of key_ops becoming integers and
// alg 0 (documented as "unset") being dropped. Other parameters are outside
// the property and are not compared (the CBOR library legitimately changes
// the spelling of e.g. tagged times, floats and undefined).
func sameKey(a, b *rc.Node) error {
	kty, _ := a.Lookup(1).Int64()
	for _, l := range []int64{1, 2, 3, 4, 5, -1, -2, -3, -4} {
		av := a.Lookup(l)
		if av == nil {
			continue
		}
		wantBstr := l == 2 || l == 5 || l == -2 || l == -3 || l == -4
		if kty == 4 && l == -1 {
			wantBstr = true
		}
		switch {
		case wantBstr && av.Major != 2, l == 4 && av.Major != 4, (l == 1 || l == 3 || (l == -1 && !wantBstr)) && !av.IsInt():
			continue
		}
		if l == 3 && av.Major == 0 && av.Arg == 0 {
			continue
		}
		bv := b.Lookup(l)
		if bv == nil {
			return fmt.Errorf("parameter %d disappeared", l)
		}
		if rc.Equal(rc.FromNode(av), rc.FromNode(bv)) {
			continue
		}
		if kty == 2 && (l == -2 || l == -3) && bv.Major == 2 &&
			bytes.Equal(bytes.TrimLeft(av.Content, "\x00"), bytes.TrimLeft(bv.Content, "\x00")) && len(bv.Content) >= len(av.Content) {
			continue
		}
		if l == 4 && keyOpsEquivalent(av, bv) {
			continue
		}
		return fmt.Errorf("parameter %d changed: %s -> %s", l, rc.FromNode(av), rc.FromNode(bv))
	}
	for _, l := range []int64{2, 3, 4, 5, -1, -2, -3, -4} {
		if a.Lookup(l) == nil && b.Lookup(l) != nil {
			return fmt.Errorf("parameter %d (%s) was invented by the re-encoding", l, rc.FromNode(b.Lookup(l)))
		}
	}
	return nil
}

// undefToNull: the CBOR library decodes "undefined" to Go nil, which is
// re-emitted as null (library behaviour outside the property's clauses).
func undefToNull(v rc.Val) rc.Val {
	if v.K == rc.KUndef {
		return rc.Null
	}
	o := v
	o.A = nil
	o.M = nil
	for _, x := range v.A {
		o.A = append(o.A, undefToNull(x))
	}
	for _, e := range v.M {
		o.M = append(o.M, rc.KV{K: undefToNull(e.K), V: undefToNull(e.V)})
	}
	return o
}

// keyOpsEquivalent: text forms of key_ops are re-emitted as their integer
// values (same operations).
func keyOpsEquivalent(a, b *rc.Node) bool {
	if a.Major != 4 || b.Major != 4 || len(a.Items) != len(b.Items) {
		return false
	}
	names := map[string]int64{"sign": 1, "verify": 2, "encrypt": 3, "decrypt": 4, "wrapKey": 5, "unwrapKey": 6, "deriveKey": 7, "deriveBits": 8}
	val := func(n *rc.Node) (int64, bool) {
		if n.IsInt() {
			return n.Int64()
		}
		if n.Major == 3 {
			v, ok := names[string(n.Content)]
			return v, ok
		}
		return 0, false
	}
	for i := range a.Items {
		x, ok1 := val(a.Items[i])
		y, ok2 := val(b.Items[i])
		if !ok1 || !ok2 || x != y {
			return false
		}
	}
	return true
}

// floatsEquivalent: the CBOR library re-encodes floating-point values with
// another width (documented behaviour, not part of the property).
func floatsEquivalent(a, b *rc.Node) bool {
	if a.Major == 7 && b.Major == 7 && a.AI >= 25 && a.AI <= 27 && b.AI >= 25 && b.AI <= 27 {
		return true
	}
	if a.Major != b.Major {
		return false
	}
	switch a.Major {
	case 4:
		if len(a.Items) != len(b.Items) {
			return false
		}
		for i := range a.Items {
			if !rc.Equal(rc.FromNode(a.Items[i]), rc.FromNode(b.Items[i])) && !floatsEquivalent(a.Items[i], b.Items[i]) {
				return false
			}
		}
		return true
	case 5:
		if len(a.Keys) != len(b.Keys) {
			return false
		}
		for i := range a.Keys {
			found := false
			for j := range b.Keys {
				if a.Keys[i].CanonKey() == b.Keys[j].CanonKey() {
					found = rc.Equal(rc.FromNode(a.Vals[i]), rc.FromNode(b.Vals[j])) || floatsEquivalent(a.Vals[i], b.Vals[j])
				}
			}
			if !found {
				return false
			}
		}
		return true
	}
	return false
}

func init() { register("c15", checkC15) }

// ---------------------------------------------------------------------------
// exhaustive grid

var c15FixedKeys = map[int64]refcose.KeyMat{
	1: {Alg: refcose.AlgES256, D: rc.Hex("c15-p256")},
	2: {Alg: refcose.AlgES384, D: rc.Hex("c15-p384")},
	3: {Alg: refcose.AlgES512, D: rc.Hex("c15-p521")},
}

// coords returns exact-size x, y, d for the grid cell's curve (a real key on
// the P curves, an Ed25519 key otherwise).
func c15Coords(crv int64) (x, y, d []byte) {
	if km, ok := c15FixedKeys[crv]; ok {
		p := km.Private().(*ecdsa.PrivateKey)
		size := (p.Curve.Params().BitSize + 7) / 8
		x, y, d = make([]byte, size), make([]byte, size), make([]byte, size)
		p.X.FillBytes(x)
		p.Y.FillBytes(y)
		p.D.FillBytes(d)
		return
	}
	p := ed25519.NewKeyFromSeed([]byte("c15-ed25519-seed-of-32-bytes!!!!"))
	return p[32:], p[32:], p[:32]
}

func lenVariant(b []byte, v int) (rc.Val, bool) {
	switch v {
	case 0:
		return rc.Val{}, false
	case 1:
		return rc.Bytes(b[1:]), true // short: leading byte dropped (also what a trimming peer does when it is zero)
	case 2:
		return rc.Bytes(b), true
	case 4:
		return rc.Bytes(append(append([]byte{}, b...), b...)), true // double length (e.g. a whole ed25519.PrivateKey in d)
	}
	return rc.Bytes(append([]byte{0}, b...)), true
}

// forEachKeyGridCell enumerates the COSE_Key grid; cell i is visited by shard
// i % nsh == sh. It returns the total number of cells.
func forEachKeyGridCell(sh, nsh int, f func(cell string, wire []byte)) int {
	ktys := []rc.Val{rc.Int(0), rc.Int(1), rc.Int(2), rc.Int(4), rc.Int(3), rc.Int(-1), rc.Text("EC2")}
	crvs := []struct {
		name string
		v    rc.Val
		has  bool
	}{{"absent", rc.Val{}, false}, {"0", rc.Int(0), true}, {"1", rc.Int(1), true}, {"2", rc.Int(2), true}, {"3", rc.Int(3), true}, {"4", rc.Int(4), true},
		{"5", rc.Int(5), true}, {"6", rc.Int(6), true}, {"7", rc.Int(7), true}, {"70", rc.Int(70), true}, {"text", rc.Text("P-256"), true}, {"bstr", rc.Bytes([]byte{1}), true}}
	algs := []struct {
		name string
		v    rc.Val
		has  bool
	}{{"absent", rc.Val{}, false}, {"ES256", rc.Int(-7), true}, {"ES384", rc.Int(-35), true}, {"ES512", rc.Int(-36), true}, {"EdDSA", rc.Int(-8), true},
		{"PS256", rc.Int(-37), true}, {"0", rc.Int(0), true}, {"other", rc.Int(-65537), true}, {"text", rc.Text("ES256"), true}}
	ops := []struct {
		name string
		v    rc.Val
		has  bool
	}{{"absent", rc.Val{}, false}, {"[]", rc.Array(), true}, {"[sign]", rc.Array(rc.Int(1)), true}, {"[verify]", rc.Array(rc.Int(2)), true},
		{"[sign,verify]", rc.Array(rc.Int(1), rc.Int(2)), true}, {"[\"verify\",\"sign\"]", rc.Array(rc.Text("verify"), rc.Text("sign")), true},
		{"[encrypt]", rc.Array(rc.Int(3)), true}, {"[\"bogus\"]", rc.Array(rc.Text("bogus")), true}, {"int", rc.Int(1), true},
		{"[\"deriveKey\",\"encrypt\"]", rc.Array(rc.Text("deriveKey"), rc.Text("encrypt")), true}, {"[\"decrypt\",\"wrapKey\",\"unwrapKey\",\"deriveBits\"]", rc.Array(rc.Text("decrypt"), rc.Text("wrapKey"), rc.Text("unwrapKey"), rc.Text("deriveBits")), true},
		{"[\"Sign\"]", rc.Array(rc.Text("Sign")), true}, {"[10,9]", rc.Array(rc.Int(10), rc.Int(9)), true},
		{"[257]", rc.Array(rc.Int(257)), true}, {"[258]", rc.Array(rc.Int(258)), true}, {"[-255,-254]", rc.Array(rc.Int(-255), rc.Int(-254)), true},
		{"[2,513]", rc.Array(rc.Int(2), rc.Int(513)), true}, {"[1,65538]", rc.Array(rc.Int(1), rc.Int(65538)), true}, {"[4294967297,4294967298]", rc.Array(rc.Int(4294967297), rc.Int(4294967298)), true},
		{"[0]", rc.Array(rc.Int(0)), true}, {"[-1,-2]", rc.Array(rc.Int(-1), rc.Int(-2)), true}}
	cnt := 0
	for _, kty := range ktys {
		for _, crv := range crvs {
			ci, _ := crv.v.Int64()
			x0, y0, d0 := c15Coords(ci)
			for _, alg := range algs {
				for _, op := range ops {
					for xv := 0; xv < 5; xv++ {
						for yv := 0; yv < 5; yv++ {
							for dv := 0; dv < 5; dv++ {
								cnt++
								if cnt%nsh != sh {
									continue
								}
								m := rc.Map(rc.E(rc.Int(1), kty))
								if crv.has {
									m.M = append(m.M, rc.E(rc.Int(-1), crv.v))
								}
								if alg.has {
									m.M = append(m.M, rc.E(rc.Int(3), alg.v))
								}
								if op.has {
									m.M = append(m.M, rc.E(rc.Int(4), op.v))
								}
								if v, ok := lenVariant(x0, xv); ok {
									m.M = append(m.M, rc.E(rc.Int(-2), v))
								}
								if v, ok := lenVariant(y0, yv); ok {
									m.M = append(m.M, rc.E(rc.Int(-3), v))
								}
								if v, ok := lenVariant(d0, dv); ok {
									m.M = append(m.M, rc.E(rc.Int(-4), v))
								}
								f(fmt.Sprintf("kty=%s crv=%s alg=%s ops=%s x=%d y=%d d=%d", kty, crv.name, alg.name, op.name, xv, yv, dv), rc.Encode(m, nil))
							}
						}
					}
				}
			}
		}
	}
	// compressed points (RFC 9053 7.1.1: y given as a boolean): x is / is not the abscissa of a point
	for _, ci := range []int64{1, 2, 3} {
		x0, _, d0 := c15Coords(ci)
		for _, withAlg := range []bool{false, true} {
			for dx := 0; dx < 4; dx++ {
				for _, yb := range []bool{false, true} {
					for _, withD := range []bool{false, true} {
						cnt++
						if cnt%nsh != sh {
							continue
						}
						x := append([]byte{}, x0...)
						x[len(x)-1] += byte(dx)
						m := rc.Map(rc.E(rc.Int(1), rc.Int(2)), rc.E(rc.Int(-1), rc.Int(ci)), rc.E(rc.Int(-2), rc.Bytes(x)), rc.E(rc.Int(-3), rc.Bool(yb)))
						if withAlg {
							m.M = append(m.M, rc.E(rc.Int(3), rc.Int(map[int64]int64{1: -7, 2: -35, 3: -36}[ci])))
						}
						if withD {
							m.M = append(m.M, rc.E(rc.Int(-4), rc.Bytes(d0)))
						}
						f(fmt.Sprintf("compressed kty=2 crv=%d alg=%v x+%d y=%v d=%v", ci, withAlg, dx, yb, withD), rc.Encode(m, nil))
					}
				}
			}
		}
	}
	// OKP private keys whose d is a whole 64-octet secret key in the layouts libraries hand around: seed || public
	// key (ed25519.PrivateKey, libsodium), public key || seed, seed || another key's public key, seed || seed:
	// all longer than the curve's size
	for _, ci := range []int64{6, 4, 7} {
		x0, _, d0 := c15Coords(6)
		other := ed25519.NewKeyFromSeed([]byte("another-c15-ed25519-seed-32-b!!!"))[32:]
		for li, long := range [][]byte{append(append([]byte{}, d0...), x0...), append(append([]byte{}, x0...), d0...), append(append([]byte{}, d0...), other...), append(append([]byte{}, d0...), d0...)} {
			for _, withX := range []bool{true, false} {
				for _, alg := range []int64{0, -8} {
					for _, op := range []int{0, 1, 2} {
						cnt++
						if cnt%nsh != sh {
							continue
						}
						m := rc.Map(rc.E(rc.Int(1), rc.Int(1)), rc.E(rc.Int(-1), rc.Int(ci)), rc.E(rc.Int(-4), rc.Bytes(long)))
						if withX {
							m.M = append(m.M, rc.E(rc.Int(-2), rc.Bytes(x0)))
						}
						if alg != 0 {
							m.M = append(m.M, rc.E(rc.Int(3), rc.Int(alg)))
						}
						if op != 0 {
							m.M = append(m.M, rc.E(rc.Int(4), rc.Array(rc.Int(int64(op)))))
						}
						f(fmt.Sprintf("okp-long-d kty=1 crv=%d layout=%d x=%v alg=%d ops=%d", ci, li, withX, alg, op), rc.Encode(m, nil))
					}
				}
			}
		}
	}
	// coordinates, d, kid and Base IV given as TEXT strings of the right length (what a careless converter from
	// JWK leaves behind): a text string is not key material
	for _, kt := range []int64{2, 1} {
		crv := int64(1)
		if kt == 1 {
			crv = 6
		}
		x0, y0, d0 := c15Coords(crv)
		txt := func(b []byte) rc.Val { return rc.Text(strings.Repeat("k", len(b))) }
		for shape := 0; shape < 6; shape++ {
			for _, alg := range []bool{false, true} {
				cnt++
				if cnt%nsh != sh {
					continue
				}
				x, y, d := rc.Bytes(x0), rc.Bytes(y0), rc.Bytes(d0)
				m := rc.Map(rc.E(rc.Int(1), rc.Int(kt)), rc.E(rc.Int(-1), rc.Int(crv)))
				switch shape {
				case 0:
					x = txt(x0)
				case 1:
					y = txt(y0)
				case 2:
					d = txt(d0)
				case 3:
					x, y, d = txt(x0), txt(y0), txt(d0)
				case 4:
					m.M = append(m.M, rc.E(rc.Int(2), rc.Text("kid-as-text")))
				case 5:
					m.M = append(m.M, rc.E(rc.Int(5), rc.Text("base-iv-as-text")))
				}
				m.M = append(m.M, rc.E(rc.Int(-2), x))
				if kt == 2 {
					m.M = append(m.M, rc.E(rc.Int(-3), y))
				}
				m.M = append(m.M, rc.E(rc.Int(-4), d))
				if alg {
					m.M = append(m.M, rc.E(rc.Int(3), rc.Int(map[int64]int64{2: -7, 1: -8}[kt])))
				}
				f(fmt.Sprintf("text-for-bytes kty=%d shape=%d alg=%v", kt, shape, alg), rc.Encode(m, nil))
			}
		}
	}
	// OKP keys with the coordinate sizes of the 448-bit curves (56 / 57 octets) and their doubles, on every OKP
	// curve label, with x only, d only, or both
	for _, ci := range []int64{4, 5, 6, 7} {
		for _, size := range []int{56, 57, 112, 114} {
			for shape := 0; shape < 3; shape++ {
				for _, alg := range []int64{0, -8} {
					cnt++
					if cnt%nsh != sh {
						continue
					}
					coord := bytes.Repeat([]byte{0x5a}, size)
					m := rc.Map(rc.E(rc.Int(1), rc.Int(1)), rc.E(rc.Int(-1), rc.Int(ci)))
					if shape != 1 {
						m.M = append(m.M, rc.E(rc.Int(-2), rc.Bytes(coord)))
					}
					if shape != 0 {
						m.M = append(m.M, rc.E(rc.Int(-4), rc.Bytes(coord)))
					}
					if alg != 0 {
						m.M = append(m.M, rc.E(rc.Int(3), rc.Int(alg)))
					}
					f(fmt.Sprintf("okp-448-sizes kty=1 crv=%d size=%d shape=%d alg=%d", ci, size, shape, alg), rc.Encode(m, nil))
				}
			}
		}
	}
	return cnt
}

func TestC15_Grid(t *testing.T) {
	begin(t, "C15", "grid")
	sh, nsh := gridShard()
	// every fifth cell is decoded into a variable that held a private P-256 key (with kid, key_ops, extra parameter) before
	x0, y0, d0 := c15Coords(1)
	prior := rc.Encode(rc.Map(rc.E(rc.Int(1), rc.Int(2)), rc.E(rc.Int(-1), rc.Int(1)), rc.E(rc.Int(-2), rc.Bytes(x0)), rc.E(rc.Int(-3), rc.Bytes(y0)),
		rc.E(rc.Int(-4), rc.Bytes(d0)), rc.E(rc.Int(2), rc.Bytes([]byte("prior"))), rc.E(rc.Int(4), rc.Array(rc.Int(1), rc.Int(2))), rc.E(rc.Text("note"), rc.Int(7))), nil)
	i := 0
	cnt := forEachKeyGridCell(sh, nsh, func(cell string, wire []byte) {
		stats.Eval()
		i++
		c := c15Case{Wire: wire, Cell: cell}
		if i%5 == 0 {
			c.Prior = prior
		}
		judge(t, "c15", c, checkC15)
	})
	stats.ExhaustivePart("kty x crv x alg x key_ops x len(x) x len(y) x len(d)", cnt/nsh)
}

// TestC15_Mutants: tree mutations of valid keys of every type.
func TestC15_Mutants(t *testing.T) {
	begin(t, "C15", "mutants")
	prop(t, func(rt *rapid.T) {
		seed := genKeySeed(rt)
		c := c15Case{Wire: seed}
		if rapid.IntRange(0, 2).Draw(rt, "used-variable") == 0 {
			c.Prior = genKeySeed(rt)
		}
		n := rapid.SampledFrom([]int{0, 1, 1, 1, 2, 2, 3}).Draw(rt, "nfaults")
		if n > 0 {
			c.Wire, c.Muts = gen.MutateWire(rt, seed, n, gen.MutOpts{Key: true})
		} else {
			stats.Class("unmutated")
		}
		for _, m := range c.Muts {
			stats.Class("op/" + m.Op)
		}
		stats.Eval()
		judge(rt, "c15", c, checkC15)
	})
}

// FuzzC15: native coverage-guided target with the oracle inside.
func FuzzC15(f *testing.F) {
	cur = propCtx{Property: "C15", Part: "fuzz"}
	for _, s := range fuzzSeeds() {
		f.Add(s)
	}
	f.Fuzz(func(t *testing.T, b []byte) {
		if len(b) > 1<<14 {
			return
		}
		judge(t, "c15", c15Case{Wire: b}, checkC15)
	})
}
