package props

import (
	"bytes"
	"fmt"
	"testing"

	cose "github.com/veraison/go-cose"

	rc "verifharness/refcbor"
	"verifharness/refcose"
	"verifharness/stats"
)

// Verifiers and signers obtained from a COSE_Key that names its algorithm and its kid (C04): whatever the key
// object knows - and whichever kid the message carries, in particular the very kid of the key - a layer without
// alg and without external data is not verified (and its key not invoked with anything), and a layer naming another
// algorithm neither. The messages are validly signed by the reference with the key in question, so that any path
// that goes on to the signature check returns nil.

type c04KeyedCase struct {
	Struct string `json:"struct"` // Sign1, Untagged, Signature, Countersignature
	Alg    int64  `json:"alg"`    // key algorithm (-8 Ed25519, -7 P-256)
	KidRel string `json:"kid_relation"`
	Where  string `json:"kid_where"`  // protected, unprotected, both, none
	HdrAlg int    `json:"header_alg"` // 0 absent, 1 another algorithm, 2 text spelling the key's id, 3 the key's algorithm (control)
	KeyAlg bool   `json:"key_has_alg"`
}

func checkC04Keyed(c c04KeyedCase) error {
	km := refcose.KeyMat{Alg: c.Alg, D: []byte("c04-keyed-verifier-seed-32-bytes")}
	keyKid := []byte("key-42")
	key, err := cose.NewKeyFromPublic(km.Public())
	if err != nil {
		return fmt.Errorf("harness: %v", err)
	}
	key.ID = keyKid
	if c.KeyAlg {
		key.Algorithm = cose.Algorithm(c.Alg)
	}
	if rt, err := key.MarshalCBOR(); err == nil && c.KidRel != "in-memory-key" {
		// the key as a peer would receive it
		var k2 cose.Key
		if err := k2.UnmarshalCBOR(rt); err != nil {
			return fmt.Errorf("harness: key round trip: %v", err)
		}
		key = &k2
	}
	ver, err := key.Verifier()
	if err != nil {
		return fmt.Errorf("harness: Key.Verifier: %v", err)
	}
	var kid []byte
	switch c.KidRel {
	case "equal", "in-memory-key":
		kid = append([]byte{}, keyKid...)
	case "prefix":
		kid = keyKid[:3]
	case "longer":
		kid = append(append([]byte{}, keyKid...), 0)
	case "other":
		kid = []byte("other")
	case "empty":
		kid = []byte{}
	}
	pm, um := rc.Map(), rc.Map()
	switch c.HdrAlg {
	case 1:
		other := int64(-7)
		if c.Alg == -7 {
			other = -8
		}
		pm.M = append(pm.M, rc.E(rc.Int(1), rc.Int(other)))
	case 2:
		pm.M = append(pm.M, rc.E(rc.Int(1), rc.Text(fmt.Sprint(c.Alg))))
	case 3: // control: the key's algorithm - the message verifies
		pm.M = append(pm.M, rc.E(rc.Int(1), rc.Int(c.Alg)))
	}
	if c.Where == "protected" || c.Where == "both" {
		pm.M = append(pm.M, rc.E(rc.Int(4), rc.Bytes(kid)))
	}
	if c.Where == "unprotected" || c.Where == "both" {
		um.M = append(um.M, rc.E(rc.Int(4), rc.Bytes(kid)))
	}
	var pc []byte
	if len(pm.M) > 0 {
		pc = rc.Encode(pm, nil)
	}
	payload := []byte("payload")
	entropy := []byte("c04keyed-entropy-for-the-reference-signer")
	sign := func(tbs []byte) []byte { return refcose.Sign(km.Alg, km, tbs, entropy) }
	var verr error
	switch c.Struct {
	case "Sign1", "Untagged":
		sig := sign(refcose.SigStructure1(pc, nil, payload))
		wire := rc.Encode(rc.Array(rc.Bytes(pc), um, rc.Bytes(payload), rc.Bytes(sig)), nil)
		if c.Struct == "Sign1" {
			m := &cose.Sign1Message{}
			if err := m.UnmarshalCBOR(append([]byte{0xd2}, wire...)); err != nil {
				return fmt.Errorf("harness: decode: %v", err)
			}
			verr = m.Verify(nil, ver)
		} else {
			m := &cose.UntaggedSign1Message{}
			if err := m.UnmarshalCBOR(wire); err != nil {
				return fmt.Errorf("harness: decode: %v", err)
			}
			verr = m.Verify(nil, ver)
		}
	case "Signature":
		sig := sign(refcose.SigStructure(nil, pc, nil, payload))
		wire := rc.Encode(rc.Tag(98, rc.Array(rc.Bytes(nil), rc.Map(), rc.Bytes(payload), rc.Array(rc.Array(rc.Bytes(pc), um, rc.Bytes(sig))))), nil)
		m := &cose.SignMessage{}
		if err := m.UnmarshalCBOR(wire); err != nil {
			return fmt.Errorf("harness: decode: %v", err)
		}
		verr = m.Verify(nil, ver)
	case "Countersignature":
		parent := &cose.Sign1Message{Headers: cose.Headers{Protected: cose.ProtectedHeader{}, Unprotected: cose.UnprotectedHeader{}}, Payload: payload, Signature: []byte{1, 2, 3}}
		tbs := refcose.CountersignStructure("CounterSignatureV2", nil, pc, nil, payload, [][]byte{{1, 2, 3}})
		sig := sign(tbs)
		cs := &cose.Countersignature{}
		if err := cs.UnmarshalCBOR(rc.Encode(rc.Array(rc.Bytes(pc), um, rc.Bytes(sig)), nil)); err != nil {
			return fmt.Errorf("harness: decode: %v", err)
		}
		verr = cs.Verify(ver, parent, nil)
	}
	stats.Class("keyed/" + c.Struct + "/kid-" + c.KidRel)
	if c.HdrAlg == 3 {
		if verr != nil {
			return finding("keyed-control-refused", "%s naming the key's algorithm and validly signed is refused by the verifier obtained from the COSE_Key: %v", c.Struct, verr)
		}
		stats.Class("keyed/control-verifies")
		return nil
	}
	if verr == nil {
		what := "without alg and without external data"
		if c.HdrAlg != 0 {
			what = "under a protected alg that is not the key's algorithm"
		}
		return finding("keyed-verifier-proceeds", "%s verified %s by a verifier obtained from a COSE_Key (alg in key: %v, key kid %q, message kid %q in %s)", c.Struct, what, c.KeyAlg, keyKid, kid, c.Where)
	}
	_ = bytes.Equal
	return nil
}

func init() { register("c04keyed", checkC04Keyed) }

func TestC04_KeyDerivedVerifier(t *testing.T) {
	begin(t, "C04", "keyed")
	n := 0
	for _, st := range []string{"Sign1", "Untagged", "Signature", "Countersignature"} {
		for _, alg := range []int64{-8, -7} {
			for _, rel := range []string{"equal", "in-memory-key", "prefix", "longer", "other", "empty"} {
				for _, where := range []string{"protected", "unprotected", "both", "none"} {
					for ha := 0; ha < 4; ha++ {
						for _, ka := range []bool{true, false} {
							c := c04KeyedCase{Struct: st, Alg: alg, KidRel: rel, Where: where, HdrAlg: ha, KeyAlg: ka}
							n++
							stats.Eval()
							stats.NTBytes([]byte(fmt.Sprint(c)))
							judge(t, "c04keyed", c, checkC04Keyed)
							if n%37 == 0 {
								stats.Sample("keyed-verifier", c)
							}
						}
					}
				}
			}
		}
	}
	stats.ExhaustivePart("verifier from a COSE_Key with kid x message kid relation x bucket x header alg x structure", n)
}
