package props

import (
	"fmt"
	"math"
	"strings"
	"testing"

	cose "github.com/veraison/go-cose"
	"pgregory.net/rapid"

	"verifharness/bridge"
	"verifharness/gen"
	rc "verifharness/refcbor"
	"verifharness/refcose"
	"verifharness/stats"
)

// c13Case: one header set in one context.
type c13Case struct {
	Ctx    string `json:"ctx"` // protected, unprotected (bare buckets), sign1, untagged, signature, countersignature, sign-body
	Prot   rc.Val `json:"prot"`
	Unprot rc.Val `json:"unprot"`
	Cell   string `json:"cell,omitempty"`
}

func respell(v rc.Val, sp uint8) rc.Val {
	o := v.Clone()
	for i := range o.M {
		if o.M[i].K.K == rc.KInt {
			o.M[i].K.Sp = sp
		}
	}
	return o
}

// c13Enc is the library's verdict on encoding the in-memory header set.
func c13Enc(ctx string, prot, unprot rc.Val) error {
	_, err := c13EncBytes(ctx, prot, unprot)
	return err
}

// c13EncBytes also returns what the encoder emitted.
func c13EncBytes(ctx string, prot, unprot rc.Val) ([]byte, error) {
	sig := []byte{1, 2, 3}
	switch ctx {
	case "protected":
		return bridge.ToProtected(prot).MarshalCBOR()
	case "unprotected":
		return bridge.ToUnprotected(unprot, bridge.CsigParsed).MarshalCBOR()
	}
	h := bridge.Headers(prot, unprot)
	switch ctx {
	case "sign1-rawprot", "signature-rawprot":
		// a decoded layer whose unprotected bucket the caller then edits: raw protected bytes retained
		// (with the map a decoder would have produced), unprotected bucket from the map
		h.RawProtected = protBstr(prot)
	case "sign1-rawunprot", "signature-rawunprot":
		h.RawUnprotected = rc.Encode(unprot, nil)
	}
	switch ctx {
	case "sign1-rawprot", "sign1-rawunprot":
		return (&cose.Sign1Message{Headers: h, Payload: []byte("p"), Signature: sig}).MarshalCBOR()
	case "signature-rawprot", "signature-rawunprot":
		return (&cose.Signature{Headers: h, Signature: sig}).MarshalCBOR()
	case "sign1":
		return (&cose.Sign1Message{Headers: h, Payload: []byte("p"), Signature: sig}).MarshalCBOR()
	case "untagged":
		return (&cose.UntaggedSign1Message{Headers: h, Payload: []byte("p"), Signature: sig}).MarshalCBOR()
	case "signature":
		return (&cose.Signature{Headers: h, Signature: sig}).MarshalCBOR()
	case "countersignature":
		return (&cose.Countersignature{Headers: h, Signature: sig}).MarshalCBOR()
	case "sign-body":
		return (&cose.SignMessage{Headers: h, Payload: []byte("p"), Signatures: []*cose.Signature{{Headers: cose.Headers{Protected: cose.ProtectedHeader{}}, Signature: sig}}}).MarshalCBOR()
	case "sign-second-signer":
		// the layer is the second signer of a COSE_Sign whose first signer has the very same protected bucket (and
		// an empty unprotected one)
		first := &cose.Signature{Headers: cose.Headers{Protected: bridge.ToProtected(prot), Unprotected: cose.UnprotectedHeader{}}, Signature: sig}
		return (&cose.SignMessage{Headers: cose.Headers{Protected: cose.ProtectedHeader{}, Unprotected: cose.UnprotectedHeader{}}, Payload: []byte("p"), Signatures: []*cose.Signature{first, {Headers: h, Signature: sig}}}).MarshalCBOR()
	}
	panic("c13Enc: ctx " + ctx)
}

// c13Wire is the reference encoding of the same header set in its context.
func c13Wire(ctx string, prot, unprot rc.Val) (refcose.Kind, []byte) {
	pb := protBstr(prot)
	ub := rc.Encode(unprot, nil)
	tail := []byte{0x43, 1, 2, 3}
	switch ctx {
	case "protected":
		return refcose.KProtected, pb
	case "unprotected":
		return refcose.KUnprotected, ub
	case "sign1", "untagged", "sign1-rawprot", "sign1-rawunprot":
		w := []byte{0x84}
		w = append(append(w, pb...), ub...)
		w = append(w, 0x41, 'p')
		w = append(w, tail...)
		if ctx != "untagged" {
			return refcose.KSign1, append([]byte{0xd2}, w...)
		}
		return refcose.KSign1Untagged, w
	case "signature", "countersignature", "signature-rawprot", "signature-rawunprot":
		w := []byte{0x83}
		w = append(append(w, pb...), ub...)
		w = append(w, tail...)
		if ctx != "countersignature" {
			return refcose.KSignature, w
		}
		return refcose.KCountersignature, w
	}
	if ctx == "sign-second-signer" {
		w := []byte{0xd8, 0x62, 0x84, 0x40, 0xa0, 0x41, 'p', 0x82, 0x83}
		w = append(append(append(w, pb...), 0xa0), tail...)
		w = append(w, 0x83)
		w = append(append(append(w, pb...), ub...), tail...)
		return refcose.KSign, w
	}
	w := []byte{0xd8, 0x62, 0x84}
	w = append(append(w, pb...), ub...)
	w = append(w, 0x41, 'p', 0x81, 0x83, 0x40, 0xa0)
	w = append(w, tail...)
	return refcose.KSign, w
}

// checkC13: the library's encode verdict, its decode verdict on the reference
// encoding of the same abstract header set, and the reference rules agree as
// the property demands.
func checkC13(c c13Case) error {
	emitted, vEnc := c13EncBytes(c.Ctx, c.Prot, c.Unprot)
	kind, wire := c13Wire(c.Ctx, c.Prot, c.Unprot)
	if vEnc == nil {
		// what the encoder produced must itself obey the rules and be accepted by the decoder
		if werr := refcose.WellFormed(kind, emitted); werr != nil {
			return finding("emits-nonconforming", "%s: the encoder's own output violates RFC 9052 3.1 (%v)\nprot=%s unprot=%s\nemitted=%x", c.Ctx, werr, c.Prot, c.Unprot, emitted)
		}
		if _, derr := decodeAny(kind, emitted); derr != nil {
			return finding("own-output-refused", "%s: the decoder refuses what the encoder produced from a header set it accepted: %v\nprot=%s unprot=%s\nemitted=%x", c.Ctx, derr, c.Prot, c.Unprot, emitted)
		}
	}
	_, vDec := decodeAny(kind, wire)
	// the verdict on these bytes is the same when the destination has been used before (header values that held a
	// kid, an alg, a text-labelled parameter, a content type a moment ago)
	if vUsed, ok := c13DecodeIntoUsed(kind, wire); ok && (vUsed == nil) != (vDec == nil) {
		return finding("verdict-depends-on-destination", "%s: decode verdict into a fresh value: %v; into a value that held other parameters before: %v\nwire=%x", c.Ctx, vDec, vUsed, wire)
	}
	vRef := refcose.WellFormed(kind, wire)
	if vEnc == nil && vRef != nil {
		return finding("encodes-nonconforming", "%s: encoder accepts a header set violating RFC 9052 3.1 (%v)\nprot=%s unprot=%s", c.Ctx, vRef, c.Prot, c.Unprot)
	}
	if vDec == nil && vRef != nil {
		return finding("decodes-nonconforming", "%s: decoder accepts a header set violating RFC 9052 3.1 (%v)\nwire=%x", c.Ctx, vRef, wire)
	}
	if (vEnc == nil) != (vDec == nil) {
		return finding("directions-disagree", "%s: encode verdict (%v) differs from decode verdict (%v)\nprot=%s unprot=%s\nwire=%x", c.Ctx, vEnc, vDec, c.Prot, c.Unprot, wire)
	}
	// independence of the Go integer type spelling the labels (not applicable when the caller
	// spelt one label twice: re-spelling would merge the two Go map keys)
	for sp := uint8(0); sp < rc.NumSpellings && !hasDupLabels(c.Prot) && !hasDupLabels(c.Unprot); sp++ {
		if !spellingFitsAll(c.Prot, sp) || !spellingFitsAll(c.Unprot, sp) {
			continue
		}
		v2 := c13Enc(c.Ctx, respell(c.Prot, sp), respell(c.Unprot, sp))
		if (v2 == nil) != (vEnc == nil) {
			return finding("spelling-dependent", "%s: encode verdict depends on the Go type of the labels: as given %v, all labels as spelling %d %v\nprot=%s unprot=%s", c.Ctx, vEnc, sp, v2, c.Prot, c.Unprot)
		}
	}
	if vEnc == nil {
		stats.Class("verdict/accepted")
	} else {
		stats.Class("verdict/refused")
		if vRef == nil {
			stats.Class("refused-though-conforming")
		}
	}
	stats.Class("ctx/" + c.Ctx)
	return nil
}

// c13DecodeIntoUsed decodes the header buckets found in wire into header values that were filled before: the bare
// bucket decoders directly, the buckets of a message through Headers.UnmarshalFromRaw.
func c13DecodeIntoUsed(kind refcose.Kind, wire []byte) (error, bool) {
	prior := func() cose.Headers {
		return cose.Headers{
			Protected:   cose.ProtectedHeader{int64(1): cose.AlgorithmES256, int64(4): []byte("old"), "x": int64(1), int64(3): "a/b", int64(5): []byte{1}},
			Unprotected: cose.UnprotectedHeader{int64(4): []byte("old"), int64(6): []byte{2}, "y": int64(2), int64(99): int64(9)},
		}
	}
	switch kind {
	case refcose.KProtected:
		h := prior()
		return h.Protected.UnmarshalCBOR(append([]byte{}, wire...)), true
	case refcose.KUnprotected:
		h := prior()
		return h.Unprotected.UnmarshalCBOR(append([]byte{}, wire...)), true
	}
	env, err := refcose.ParseEnv(kind, wire)
	if err != nil || env.Prot == nil || env.Unprot == nil {
		return nil, false
	}
	if _, derr := decodeAny(kind, wire); derr != nil && len(env.Sigs) > 0 {
		return nil, false // the refusal may stem from a signer layer; only the outermost layer is replayed here
	}
	h := prior()
	h.RawProtected, h.RawUnprotected = append([]byte{}, env.Prot.Raw()...), append([]byte{}, env.Unprot.Raw()...)
	return h.UnmarshalFromRaw(), kind != refcose.KSign
}

func hasDupLabels(v rc.Val) bool {
	seen := map[string]bool{}
	for _, e := range v.M {
		id := string(rc.Encode(e.K, nil))
		if seen[id] {
			return true
		}
		seen[id] = true
	}
	return false
}

func spellingFitsAll(v rc.Val, sp uint8) bool {
	for _, e := range v.M {
		if e.K.K == rc.KInt {
			i, ok := e.K.Int64()
			if !ok || !bridge.SpellingFits(i, sp) && sp != rc.SpInt64 {
				return false
			}
		}
	}
	return true
}

func init() { register("c13", checkC13) }

type namedVal struct {
	name string
	v    rc.Val
}

func c13Values() []namedVal {
	csig := rc.Array(rc.Bytes(nil), rc.Map(), rc.Bytes([]byte{1}))
	csigAlg := rc.Array(rc.Bytes(rc.Encode(rc.Map(rc.E(rc.Int(1), rc.Int(-8))), nil)), rc.Map(rc.E(rc.Int(4), rc.Bytes([]byte("k")))), rc.Bytes([]byte{1, 2}))
	csigBadInner := rc.Array(rc.Bytes(nil), rc.Map(rc.E(rc.Int(2), rc.Array(rc.Int(4))), rc.E(rc.Int(4), rc.Bytes([]byte("k")))), rc.Bytes([]byte{1}))
	csigEmptySig := rc.Array(rc.Bytes(nil), rc.Map(), rc.Bytes(nil))
	return []namedVal{
		{"uint", rc.Int(42)}, {"zero", rc.Int(0)}, {"nint", rc.Int(-7)},
		{"tstr-plain", rc.Text("abc")}, {"tstr-type/subtype", rc.Text("text/plain")}, {"tstr-padded", rc.Text(" a/b")},
		{"tstr-padded-tail", rc.Text("a/b ")}, {"tstr-tab-padded", rc.Text("\ta/b")}, {"tstr-newline-tail", rc.Text("a/b\n")}, {"tstr-crlf-tail", rc.Text("a/b; c=d\r\n")},
		{"tstr-inner-whitespace", rc.Text("a/b;\tc=d")},
		{"tstr-slash-only", rc.Text("/")}, {"tstr-empty-subtype", rc.Text("a/")}, {"tstr-empty-type", rc.Text("/b")}, {"tstr-empty-type-param", rc.Text("/;x")},
		{"tstr-empty-subtype-param", rc.Text("a/ ;x=1")}, {"tstr-param-only-slash", rc.Text(";q=a/b")}, {"tstr-slash-in-param-only", rc.Text("a;b/c")},
		{"tstr-semicolon-first", rc.Text(";a/b")},
		{"tstr-two-slashes", rc.Text("a/b/c")}, {"tstr-empty", rc.Text("")}, {"tstr-with-param", rc.Text("a/b; c=d")},
		{"bstr", rc.Bytes([]byte{1, 2})}, {"bstr-empty", rc.Bytes(nil)}, {"bstr-nil-slice", rc.Val{K: rc.KBytes, B: rc.Hex{}, Nil: true}},
		{"array-empty", rc.Array()}, {"array-self", rc.Val{K: rc.KRaw}}, // array-self is replaced by [label] per cell
		{"array-absent-label", rc.Array(rc.Int(77))}, {"array-text", rc.Array(rc.Text("x"))}, {"array-bstr", rc.Array(rc.Bytes([]byte{1}))},
		{"map", rc.Map()}, {"map-claims", rc.Map(rc.E(rc.Int(1), rc.Text("iss")))},
		{"map-claims-int-iss", rc.Map(rc.E(rc.Int(1), rc.Int(42)))}, {"map-claims-bstr-sub", rc.Map(rc.E(rc.Int(2), rc.Bytes([]byte("s"))))},
		{"map-claims-times", rc.Map(rc.E(rc.Int(4), rc.Int(1)), rc.E(rc.Int(5), rc.Int(4102444800)), rc.E(rc.Int(6), rc.Int(0)))},
		{"map-claims-text-exp", rc.Map(rc.E(rc.Int(4), rc.Text("tomorrow")), rc.E(rc.Int(7), rc.Int(7)), rc.E(rc.Text("private"), rc.Array(rc.Int(1))))},
		{"bool", rc.Bool(true)}, {"null", rc.Null}, {"float", rc.Float(1.5)},
		{"csig", csig}, {"csig-with-headers", csigAlg}, {"csig-list", rc.Array(csig, csigAlg)}, {"csig-list-3", rc.Array(csig, csig, csig)},
		{"csig-list-null", rc.Array(rc.Null)}, {"csig-crit-in-unprotected", csigBadInner}, {"csig-empty-signature", csigEmptySig},
		{"csig-2-array", rc.Array(rc.Bytes(nil), rc.Map())},
	}
}

var c13Labels = []rc.Val{rc.Int(1), rc.Int(2), rc.Int(3), rc.Int(4), rc.Int(5), rc.Int(6), rc.Int(7), rc.Int(9), rc.Int(11), rc.Int(12), rc.Int(15),
	rc.Int(16), rc.Int(32), rc.Int(33), rc.Int(34), rc.Int(35), rc.Int(258), rc.Int(259), rc.Int(260), rc.Int(99), rc.Int(-99), rc.Int(8), rc.Int(10), rc.Text("x"), rc.Text(""),
	rc.Uint(1 << 63), rc.Uint(1<<64 - 1), rc.Uint(1<<64 - 2), // these three: beyond int64 (README: refused), reachable only as Go uint64 / uint
	// unknown labels at the edges of the CBOR head widths and of the Go integer types (a reduced set of value kinds, c13EdgeValues)
	rc.Int(23), rc.Int(24), rc.Int(255), rc.Int(256), rc.Int(65535), rc.Int(65536), rc.Int(1<<31 - 1), rc.Int(1 << 31), rc.Int(1<<32 - 1), rc.Int(1 << 32), rc.Int(1 << 53),
	rc.Int(math.MaxInt64), rc.Int(math.MinInt64), rc.Int(-24), rc.Int(-25), rc.Int(-128), rc.Int(-129), rc.Int(-256), rc.Int(-257), rc.Int(-32769), rc.Int(-65536), rc.Int(-65537), rc.Int(-1 << 31), rc.Int(-1<<31 - 1), rc.Int(-1<<32 - 1)}

var c13EdgeValues = map[string]bool{"uint": true, "tstr-plain": true, "bstr": true, "array-self": true, "map": true, "csig": true, "null": true}

func c13EdgeLabel(l rc.Val) bool {
	i, ok := l.Int64()
	return l.K == rc.KInt && ok && (i >= 23 && i != 32 && i != 33 && i != 34 && i != 35 && i != 99 && i != 258 && i != 259 && i != 260 || i <= -24 && i != -99)
}

var c13Ctxs = []string{"protected", "unprotected", "sign1", "untagged", "signature", "countersignature", "sign-body", "sign-second-signer"}

// forEachSingleParamCell enumerates the single-parameter header cells: label x
// value kind x bucket x context (x every fitting Go spelling of the label when
// spellings is set).
func forEachSingleParamCell(spellings bool, run func(c c13Case), extra ...namedVal) {
	for _, ctx := range c13Ctxs {
		for _, bucket := range []string{"P", "U"} {
			if (ctx == "protected" && bucket == "U") || (ctx == "unprotected" && bucket == "P") {
				continue
			}
			for _, l := range c13Labels {
				for _, nv := range append(c13Values(), extra...) {
					v := nv.v
					if c13EdgeLabel(l) && !c13EdgeValues[nv.name] {
						continue
					}
					if nv.name == "array-self" {
						v = rc.Array(l)
					}
					for sp := uint8(0); sp < rc.NumSpellings; sp++ {
						if !spellings && sp > 0 {
							break
						}
						lab := l
						if i, ok := l.Int64(); l.K == rc.KInt && ok {
							if sp != rc.SpInt64 && !bridge.SpellingFits(i, sp) {
								continue
							}
							lab = rc.IntSp(i, sp)
						} else if sp > 0 {
							continue
						}
						c := c13Case{Ctx: ctx, Prot: rc.Map(), Unprot: rc.Map(), Cell: fmt.Sprintf("single/%s/%s/%s/%s/sp%d", ctx, bucket, l, nv.name, sp)}
						if bucket == "P" {
							c.Prot = rc.Map(rc.E(lab, v))
						} else {
							c.Unprot = rc.Map(rc.E(lab, v))
						}
						run(c)
					}
				}
			}
		}
	}
}

// TestC13_Grid enumerates single-parameter cells, IV / Partial IV pairs and
// crit combinations completely.
func TestC13_Grid(t *testing.T) {
	begin(t, "C13", "grid")
	n := 0
	sh, nsh := gridShard()
	run := func(c c13Case) {
		n++
		if n%nsh != sh {
			return
		}
		stats.Eval()
		judge(t, "c13", c, checkC13)
		if n%97 == 0 {
			stats.Sample("cell/"+c.Ctx, map[string]any{"cell": c.Cell, "ctx": c.Ctx, "prot": c.Prot.String(), "unprot": c.Unprot.String()})
		}
		stats.NTBytes([]byte(c.Cell))
	}
	// (1) one parameter: label x value kind x bucket x context x label spelling
	forEachSingleParamCell(true, run)
	stats.ExhaustivePart("single-parameter-cells", n/nsh)
	// (2) IV / Partial IV pairs: buckets x spellings x contexts (+ each alone)
	n0 := n
	iv := rc.Bytes([]byte{1})
	for _, ctx := range append(append([]string{}, c13Ctxs...), "sign1-rawprot", "sign1-rawunprot", "signature-rawprot", "signature-rawunprot") {
		for _, bi := range []string{"P", "U"} {
			for _, bp := range []string{"P", "U"} {
				if ctx == "protected" && (bi != "P" || bp != "P") || ctx == "unprotected" && (bi != "U" || bp != "U") {
					continue
				}
				if strings.Contains(ctx, "-raw") && bi == bp {
					continue // raw bytes supplied by the caller are emitted as they are; only the cross-bucket rule involves the library
				}
				for s1 := uint8(0); s1 < rc.NumSpellings; s1++ {
					for s2 := uint8(0); s2 < rc.NumSpellings; s2++ {
						c := c13Case{Ctx: ctx, Prot: rc.Map(), Unprot: rc.Map(), Cell: fmt.Sprintf("iv-pair/%s/%s%s/sp%d-%d", ctx, bi, bp, s1, s2)}
						add := func(b string, k rc.Val) {
							if b == "P" {
								c.Prot.M = append(c.Prot.M, rc.E(k, iv))
							} else {
								c.Unprot.M = append(c.Unprot.M, rc.E(k, iv))
							}
						}
						add(bi, rc.IntSp(5, s1))
						add(bp, rc.IntSp(6, s2))
						run(c)
					}
				}
			}
		}
	}
	stats.ExhaustivePart("iv-partial-iv-pairs", (n-n0)/nsh)
	// (3) crit x present-label combinations (protected bucket of every context, crit in unprotected too)
	n0 = n
	critEntries := []namedVal{{"present-int", rc.Int(4)}, {"absent-int", rc.Int(77)}, {"absent-260(=4 mod 2^8)", rc.Int(260)},
		{"absent-65540(=4 mod 2^16)", rc.Int(65540)}, {"absent--252(=4 mod 2^8)", rc.Int(-252)}, {"present-text", rc.Text("x")}, {"absent-text", rc.Text("y")},
		{"bstr", rc.Bytes([]byte{4})}, {"float", rc.Float(4)}, {"null", rc.Null}, {"self", rc.Int(2)}}
	for _, ctx := range c13Ctxs {
		if ctx == "unprotected" {
			continue
		}
		for _, e1 := range critEntries {
			for _, e2 := range append([]namedVal{{"-", rc.Val{K: rc.KRaw}}}, critEntries...) {
				for sCrit := uint8(0); sCrit < rc.NumSpellings; sCrit++ {
					for sKey := uint8(0); sKey < rc.NumSpellings; sKey++ {
						for _, inUnprot := range []bool{false, true} {
							if inUnprot && (ctx == "protected" || sCrit > 1 || sKey > 1) {
								continue
							}
							ent := []rc.Val{e1.v}
							if e2.v.K != rc.KRaw {
								ent = append(ent, e2.v)
							}
							for i := range ent {
								if ent[i].K == rc.KInt {
									ent[i].Sp = sCrit
								}
							}
							m := rc.Map(rc.E(rc.IntSp(4, sKey), rc.Bytes([]byte("kid"))), rc.E(rc.Text("x"), rc.Int(1)), rc.E(rc.Int(2), rc.Array(ent...)))
							c := c13Case{Ctx: ctx, Prot: m, Unprot: rc.Map(), Cell: fmt.Sprintf("crit/%s/%s+%s/sp%d-%d/unprot=%v", ctx, e1.name, e2.name, sCrit, sKey, inUnprot)}
							if inUnprot {
								c.Prot, c.Unprot = rc.Map(), m
							}
							run(c)
						}
					}
				}
			}
		}
	}
	stats.ExhaustivePart("crit-combinations", (n-n0)/nsh)
	// (3b) crit entries and present labels that differ in kind only: integer 0, the empty text label, the
	// texts "0", "4", "-1" and the integers 4, -1 (a label is an int or a tstr; the two never coincide)
	n0 = n
	kinds := []rc.Val{rc.Int(0), rc.Text(""), rc.Text("0"), rc.Int(4), rc.Text("4"), rc.Int(-1), rc.Text("-1"), rc.Text("\x00"), rc.Text("\x04")}
	for _, ctx := range c13Ctxs {
		if ctx == "unprotected" {
			continue
		}
		for _, present := range kinds {
			for _, second := range append([]rc.Val{{K: rc.KRaw}}, kinds...) {
				if second.K != rc.KRaw && second.String() == present.String() {
					continue
				}
				for _, listed := range kinds {
					val := func(l rc.Val) rc.Val {
						if i, ok := l.Int64(); ok && l.K == rc.KInt && i == 4 {
							return rc.Bytes([]byte("kid"))
						}
						return rc.Int(1)
					}
					m := rc.Map(rc.E(present, val(present)))
					if second.K != rc.KRaw {
						m.M = append(m.M, rc.E(second, val(second)))
					}
					m.M = append(m.M, rc.E(rc.Int(2), rc.Array(listed)))
					run(c13Case{Ctx: ctx, Prot: m, Unprot: rc.Map(), Cell: fmt.Sprintf("crit-kinds/%s/present=%s+%s/listed=%s", ctx, present, second, listed)})
				}
			}
		}
	}
	stats.ExhaustivePart("crit-entry-vs-label-kind", (n-n0)/nsh)
	// (4) a conforming parameter next to a second parameter of any kind in the same bucket
	n0 = n
	csig := rc.Array(rc.Bytes(nil), rc.Map(), rc.Bytes([]byte{1}))
	valid := map[int64]rc.Val{1: rc.Int(-7), 3: rc.Text("a/b"), 4: rc.Bytes([]byte("k")), 5: rc.Bytes([]byte{1}), 6: rc.Bytes([]byte{1}), 7: csig, 9: rc.Bytes([]byte{1}),
		11: rc.Array(csig, csig), 12: rc.Bytes([]byte{1}), 15: rc.Map(rc.E(rc.Int(1), rc.Text("iss"))), 16: rc.Text("a/b"), 33: rc.Bytes([]byte{1}), 258: rc.Int(-16), 99: rc.Int(1)}
	for _, ctx := range []string{"protected", "unprotected", "sign1", "signature"} {
		for _, bucket := range []string{"P", "U"} {
			if (ctx == "protected" && bucket == "U") || (ctx == "unprotected" && bucket == "P") {
				continue
			}
			for _, la := range []int64{1, 3, 4, 5, 6, 7, 9, 11, 12, 15, 16, 33, 258, 99} {
				va := valid[la]
				if bucket == "P" && (la == 7 || la == 9 || la == 11 || la == 12) {
					continue
				}
				for _, lb := range c13Labels {
					if i, ok := lb.Int64(); ok && i == la {
						continue
					}
					for _, nv := range c13Values() {
						v := nv.v
						if nv.name == "array-self" {
							v = rc.Array(lb)
						}
						m := rc.Map(rc.E(rc.Int(la), va), rc.E(lb, v))
						c := c13Case{Ctx: ctx, Prot: rc.Map(), Unprot: rc.Map(), Cell: fmt.Sprintf("pair/%s/%s/%d+%s/%s", ctx, bucket, la, lb, nv.name)}
						if bucket == "P" {
							c.Prot = m
						} else {
							c.Unprot = m
						}
						run(c)
					}
				}
			}
		}
	}
	stats.ExhaustivePart("valid-plus-second-parameter-pairs", (n-n0)/nsh)
	// (5) one label spelt twice with two different Go integer types (must never be encodable)
	n0 = n
	for _, ctx := range []string{"protected", "unprotected", "sign1", "signature", "countersignature"} {
		for _, bucket := range []string{"P", "U"} {
			if (ctx == "protected" && bucket == "U") || (ctx == "unprotected" && bucket == "P") {
				continue
			}
			for _, l := range []int64{4, 42, 300, 99, 1} {
				for s1 := uint8(0); s1 < rc.NumSpellings; s1++ {
					for s2 := s1 + 1; s2 < rc.NumSpellings; s2++ {
						if (s1 != rc.SpInt64 && !bridge.SpellingFits(l, s1)) || !bridge.SpellingFits(l, s2) {
							continue
						}
						v1, v2 := rc.Bytes([]byte("a")), rc.Bytes([]byte("b"))
						if l == 1 {
							v1, v2 = rc.Int(-7), rc.Int(-8)
						}
						m := rc.Map(rc.E(rc.IntSp(l, s1), v1), rc.E(rc.IntSp(l, s2), v2), rc.E(rc.Text("other"), rc.Int(1)))
						c := c13Case{Ctx: ctx, Prot: rc.Map(), Unprot: rc.Map(), Cell: fmt.Sprintf("dup-label/%s/%s/%d/sp%d+sp%d", ctx, bucket, l, s1, s2)}
						if bucket == "P" {
							c.Prot = m
						} else {
							c.Unprot = m
						}
						run(c)
					}
				}
			}
		}
	}
	stats.ExhaustivePart("one-label-two-spellings", (n-n0)/nsh)
	// (6) buckets with many parameters (counts around the CBOR head boundaries and well beyond): every one of them
	// obeys section 3.1, so both directions accept
	n0 = n
	for _, ctx := range c13Ctxs {
		for _, bucket := range []string{"P", "U"} {
			if (ctx == "protected" && bucket == "U") || (ctx == "unprotected" && bucket == "P") {
				continue
			}
			for _, cnt := range []int{23, 24, 41, 64, 65, 255, 256, 257, 1000, 5000} {
				m := rc.Map()
				for i := 0; i < cnt; i++ {
					if i%3 == 2 {
						m.M = append(m.M, rc.E(rc.Text(fmt.Sprintf("p%d", i)), rc.Int(int64(i))))
					} else {
						m.M = append(m.M, rc.E(rc.Int(int64(1000+i)), rc.Int(int64(i))))
					}
				}
				c := c13Case{Ctx: ctx, Prot: rc.Map(), Unprot: rc.Map(), Cell: fmt.Sprintf("many/%s/%s/%d", ctx, bucket, cnt)}
				if bucket == "P" {
					c.Prot = m
				} else {
					c.Unprot = m
				}
				run(c)
			}
		}
	}
	stats.ExhaustivePart("many-parameters", (n-n0)/nsh)
}

// TestC13_Random: conforming generated headers with 0-3 rule-relevant edits.
func TestC13_Random(t *testing.T) {
	begin(t, "C13", "random")
	vals := c13Values()
	prop(t, func(rt *rapid.T) {
		ho := constructedHdrOpts()
		ho.MaxEntries = 20
		ho.Val.NaN = false
		ho.Val.Tags = false
		if rapid.Bool().Draw(rt, "with-alg") {
			a := gen.Alg(rt)
			ho.Alg = &a
		}
		p, u := gen.Headers(rt, ho)
		c := c13Case{Ctx: rapid.SampledFrom(c13Ctxs).Draw(rt, "ctx"), Prot: p, Unprot: u}
		ne := rapid.IntRange(0, 3).Draw(rt, "nedits")
		for i := 0; i < ne; i++ {
			l := rapid.SampledFrom(c13Labels).Draw(rt, "label")
			nv := rapid.SampledFrom(vals).Draw(rt, "value")
			v := nv.v
			if nv.name == "array-self" {
				v = rc.Array(l)
			}
			if l.K == rc.KInt {
				li, _ := l.Int64()
				sp := uint8(rapid.IntRange(0, rc.NumSpellings-1).Draw(rt, "sp"))
				if sp == rc.SpInt64 || bridge.SpellingFits(li, sp) {
					l.Sp = sp
				}
			}
			if rapid.Bool().Draw(rt, "edit-protected") {
				c.Prot = c.Prot.With(l, v)
			} else {
				c.Unprot = c.Unprot.With(l, v)
			}
		}
		switch c.Ctx {
		case "protected":
			c.Unprot = rc.Map()
		case "unprotected":
			c.Prot = rc.Map()
		}
		stats.Eval()
		stats.Class(fmt.Sprintf("edits/%d", ne))
		if ne > 0 {
			stats.NTBytes(rc.Encode(c.Prot, nil), rc.Encode(c.Unprot, nil), []byte(c.Ctx))
		}
		judge(rt, "c13", c, checkC13)
	})
}
