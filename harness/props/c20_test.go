package props

import (
	"bytes"
	"crypto"
	"crypto/ecdsa"
	"crypto/sha256"
	"encoding/asn1"
	"errors"
	"fmt"
	"io"
	"math/big"
	"strings"
	"testing"

	cose "github.com/veraison/go-cose"
	"pgregory.net/rapid"

	"verifharness/bridge"
	"verifharness/gen"
	rc "verifharness/refcbor"
	"verifharness/refcose"
	"verifharness/stats"
)

// c20Case: one fault vector applied to one entry point.
type c20Case struct {
	Entry string `json:"entry"` // Sign1, Sign1Untagged, Sign1Message.Sign, UntaggedSign1Message.Sign, Signature.Sign, Countersignature.Sign, Countersign0, SignHashEnvelope, SignMessage.Sign
	Modes []int  `json:"modes"` // per signer call: bridge.SignOK / SignErr / SignPartial / SignEmpty / SignNil
	// DER: the signers are hand-written ES256 signers whose output is a well-formed ASN.1 ECDSA signature (what a
	// wrapper around crypto.Signer easily hands back). Accepting it is the library's business; if the signing call
	// reports an error instead, nothing may have been stored or returned
	DER bool `json:"der,omitempty"`
}

var c20Alg = cose.AlgorithmEdDSA

var c20ModeNames = []string{"ok", "error", "bytes+error", "empty", "nil"}

func c20Headers() cose.Headers {
	return cose.Headers{Protected: cose.ProtectedHeader{int64(1): c20Alg}, Unprotected: cose.UnprotectedHeader{int64(4): []byte("kid")}}
}

func isFault(m int) bool   { return m == bridge.SignErr || m == bridge.SignPartial }
func noSigMode(m int) bool { return m == bridge.SignEmpty || m == bridge.SignNil }

// checkC20 runs the vector and checks the consequences the statement lists.
func checkC20(c c20Case) error {
	rnd := refcose.NewEntropy([]byte("c20"))
	spy := func(m int) *bridge.SpySigner {
		return &bridge.SpySigner{Alg: cose.AlgorithmEdDSA, Mode: m, Inner: func(tbs []byte) []byte { return dummySig(tbs) }}
	}
	if c.DER {
		c20Alg = cose.AlgorithmES256
		defer func() { c20Alg = cose.AlgorithmEdDSA }()
		spy = func(m int) *bridge.SpySigner {
			return &bridge.SpySigner{Alg: cose.AlgorithmES256, Mode: m, Inner: func(tbs []byte) []byte {
				der, _ := asn1.Marshal(struct{ R, S *big.Int }{new(big.Int).SetBytes(dummySig(tbs)), big.NewInt(int64(len(tbs)) + 1)})
				return der
			}}
		}
		stats.Class("hand-written-signer-returning-asn1")
	}
	payload := []byte("payload")
	parent := &cose.Sign1Message{Headers: c20Headers(), Payload: payload, Signature: []byte{1, 2, 3}}
	desc := fmt.Sprintf("%s%v", c.Entry, modeNames(c.Modes))
	if c.Entry != "SignMessage.Sign" {
		m := c.Modes[0]
		s := spy(m)
		var out []byte   // bytes returned by a helper
		var err error    // error of the signing call
		var slot *[]byte // signature field of the message object, when there is one
		var enc func() ([]byte, error)
		helper := false
		switch c.Entry {
		case "Sign1":
			helper = true
			out, err = cose.Sign1(rnd, s, c20Headers(), payload, nil)
		case "Sign1Untagged":
			helper = true
			out, err = cose.Sign1Untagged(rnd, s, c20Headers(), payload, nil)
		case "SignHashEnvelope":
			helper = true
			h := sha256.Sum256(payload)
			out, err = cose.SignHashEnvelope(rnd, s, c20Headers(), cose.HashEnvelopePayload{HashAlgorithm: cose.AlgorithmSHA256, HashValue: h[:]})
		case "Countersign0":
			out, err = cose.Countersign0(rnd, s, parent, nil)
			if isFault(m) && len(out) != 0 {
				return finding("bytes-with-error", "%s: returned %x together with %v", desc, out, err)
			}
			if m == bridge.SignOK && c.DER && err != nil && len(out) == 0 {
				stats.Class("asn1-output-refused")
				return nil
			}
			if noSigMode(m) {
				// (F21) no signature and no error from the signer: Countersign0 reports that instead of returning nothing
				if err == nil || len(out) != 0 {
					return finding("empty-signature-without-error", "%s: the signer returned no signature and no error; Countersign0 returned %x, err=%v", desc, out, err)
				}
				stats.Class("entry/" + c.Entry)
				return nil
			}
			if isFault(m) != (err != nil) || (err != nil && !errors.Is(err, bridge.ErrInjected)) {
				return finding("signer-error-lost", "%s: returned err=%v", desc, err)
			}
			stats.Class("entry/" + c.Entry)
			return nil
		case "Sign1Message.Sign":
			msg := &cose.Sign1Message{Headers: c20Headers(), Payload: payload}
			err = msg.Sign(rnd, nil, s)
			slot, enc = &msg.Signature, msg.MarshalCBOR
		case "UntaggedSign1Message.Sign":
			msg := &cose.UntaggedSign1Message{Headers: c20Headers(), Payload: payload}
			err = msg.Sign(rnd, nil, s)
			slot, enc = &msg.Signature, msg.MarshalCBOR
		case "Signature.Sign":
			sg := &cose.Signature{Headers: c20Headers()}
			err = sg.Sign(rnd, s, []byte{0x40}, payload, nil)
			slot, enc = &sg.Signature, sg.MarshalCBOR
		case "Countersignature.Sign":
			cs := &cose.Countersignature{Headers: c20Headers()}
			err = cs.Sign(rnd, s, parent, nil)
			slot, enc = &cs.Signature, cs.MarshalCBOR
		case "Countersignature.Sign/decoded", "Signature.Sign/decoded", "Sign1Message.Sign/decoded", "UntaggedSign1Message.Sign/decoded":
			// a decoded object (raw header bytes retained) whose signature was cleared so that it can be issued again
			layer := []byte{0x83, 0x43, 0xa1, 0x01, 0x27, 0xa1, 0x04, 0x41, 0x31, 0x43, 1, 2, 3}
			msg1 := []byte{0xd2, 0x84, 0x43, 0xa1, 0x01, 0x27, 0xa1, 0x04, 0x41, 0x31, 0x47, 'p', 'a', 'y', 'l', 'o', 'a', 'd', 0x43, 1, 2, 3}
			var derr error
			switch c.Entry {
			case "Countersignature.Sign/decoded":
				cs := &cose.Countersignature{}
				derr = cs.UnmarshalCBOR(layer)
				cs.Signature = nil
				err = cs.Sign(rnd, s, parent, nil)
				slot, enc = &cs.Signature, cs.MarshalCBOR
			case "Signature.Sign/decoded":
				sg := &cose.Signature{}
				derr = sg.UnmarshalCBOR(layer)
				sg.Signature = nil
				err = sg.Sign(rnd, s, []byte{0x40}, payload, nil)
				slot, enc = &sg.Signature, sg.MarshalCBOR
			case "Sign1Message.Sign/decoded":
				msg := &cose.Sign1Message{}
				derr = msg.UnmarshalCBOR(msg1)
				msg.Signature = nil
				err = msg.Sign(rnd, nil, s)
				slot, enc = &msg.Signature, msg.MarshalCBOR
			default:
				msg := &cose.UntaggedSign1Message{}
				derr = msg.UnmarshalCBOR(msg1[1:])
				msg.Signature = nil
				err = msg.Sign(rnd, nil, s)
				slot, enc = &msg.Signature, msg.MarshalCBOR
			}
			if derr != nil {
				return fmt.Errorf("harness: %v", derr)
			}
		default:
			return fmt.Errorf("harness: unknown entry %q", c.Entry)
		}
		if s.NCalls() != 1 {
			return finding("signer-calls", "%s: signer called %d times", desc, s.NCalls())
		}
		if isFault(m) {
			if err == nil || !errors.Is(err, bridge.ErrInjected) {
				return finding("signer-error-lost", "%s: the signer's error is not returned (err=%v)", desc, err)
			}
		}
		if noSigMode(m) && err == nil {
			// F21: a signer that hands back no signature and no error has not signed: the signing call says so
			return finding("empty-signature-without-error", "%s: the signer returned no signature and no error, and the signing call reports success", desc)
		}
		if helper {
			if (isFault(m) || noSigMode(m)) && (len(out) != 0 || err == nil) {
				return finding("helper-returned-message", "%s: helper returned %d bytes, err=%v", desc, len(out), err)
			}
			if m == bridge.SignOK && c.DER && err != nil {
				if len(out) != 0 {
					return finding("bytes-with-error", "%s: helper returned %d bytes together with %v", desc, len(out), err)
				}
				stats.Class("asn1-output-refused")
				return nil
			}
			if m == bridge.SignOK && (err != nil || len(out) == 0) {
				return finding("helper-failed", "%s: %v", desc, err)
			}
			if len(out) > 0 {
				if e := emptySigInside(out); e != nil {
					return finding("emitted-empty-signature", "%s: %v: %x", desc, e, out)
				}
			}
		} else {
			if (isFault(m) || noSigMode(m)) && len(*slot) != 0 {
				return finding("signature-stored-on-failure", "%s: signature field holds %x after a failing / empty signing call (err=%v)", desc, *slot, err)
			}
			if err != nil && len(*slot) != 0 {
				return finding("signature-stored-on-failure", "%s: the signing call returned %v and the signature field holds %x", desc, err, *slot)
			}
			b, eerr := enc()
			if m == bridge.SignOK && c.DER && err != nil {
				if eerr == nil {
					return finding("encodes-unsigned", "%s: the signing call returned %v, yet the message serialises: %x", desc, err, b)
				}
				stats.Class("asn1-output-refused")
				return nil
			}
			if (isFault(m) || noSigMode(m)) && (eerr == nil || len(b) != 0) {
				return finding("encodes-unsigned", "%s: MarshalCBOR succeeds after a failing / empty signing call: %x", desc, b)
			}
			if m == bridge.SignOK && (err != nil || eerr != nil || len(*slot) == 0) {
				return finding("sign-failed", "%s: err=%v enc=%v", desc, err, eerr)
			}
		}
		stats.Class("entry/" + c.Entry)
		return nil
	}
	// SignMessage.Sign with len(Modes) signers
	n := len(c.Modes)
	msg := &cose.SignMessage{Headers: cose.Headers{Protected: cose.ProtectedHeader{}}, Payload: payload}
	var ss []cose.Signer
	var spies []*bridge.SpySigner
	for _, m := range c.Modes {
		msg.Signatures = append(msg.Signatures, &cose.Signature{Headers: c20Headers()})
		sp := spy(m)
		spies = append(spies, sp)
		ss = append(ss, sp)
	}
	err := msg.Sign(rnd, nil, ss...)
	// the call ends at the first signer that does not sign: with that signer's error, or - when the signer handed
	// back nothing and no error (F21) - with an error of the library's own
	first := -1
	for i, m := range c.Modes {
		if isFault(m) || noSigMode(m) {
			first = i
			break
		}
	}
	anyEmpty := first >= 0 && noSigMode(c.Modes[first])
	switch {
	case first >= 0 && anyEmpty:
		if err == nil {
			return finding("empty-signature-without-error", "%s: signer %d returned no signature and no error, and SignMessage.Sign reports success with that slot unfilled", desc, first)
		}
	case first >= 0:
		if err == nil || !errors.Is(err, bridge.ErrInjected) {
			return finding("signer-error-lost", "%s: error of signer %d not returned (err=%v)", desc, first, err)
		}
	case err != nil:
		return finding("sign-failed", "%s: %v", desc, err)
	}
	for i := 0; i < n; i++ {
		filled := len(msg.Signatures[i].Signature) > 0
		switch {
		case first >= 0 && i == first && filled:
			return finding("signature-stored-on-failure", "%s: the failing slot %d holds %x", desc, i, msg.Signatures[i].Signature)
		case first >= 0 && i > first && (filled || spies[i].NCalls() != 0):
			return finding("continued-after-failure", "%s: slot %d was signed (calls=%d) after signer %d failed", desc, i, spies[i].NCalls(), first)
		case (first < 0 || i < first) && !filled:
			return finding("slot-left-empty", "%s: slot %d is empty although its signer signed", desc, i)
		}
	}
	b, eerr := msg.MarshalCBOR()
	complete := first < 0
	if !complete && (eerr == nil || len(b) != 0) {
		return finding("encodes-half-signed", "%s: MarshalCBOR succeeds on a message that is not completely signed: %x", desc, b)
	}
	if complete && (err != nil || eerr != nil) {
		return finding("sign-failed", "%s: err=%v enc=%v", desc, err, eerr)
	}
	if complete {
		if e := emptySigInside(b); e != nil {
			return finding("emitted-empty-signature", "%s: %v", desc, e)
		}
	}
	stats.Class(fmt.Sprintf("entry/SignMessage.Sign/n=%d", n))
	return nil
}

func modeNames(ms []int) []string {
	var out []string
	for _, m := range ms {
		out = append(out, c20ModeNames[m])
	}
	return out
}

// emptySigInside reports an empty signature byte string in an encoded
// message (any kind).
func emptySigInside(b []byte) error {
	n, err := rc.Parse(b)
	if err != nil {
		return fmt.Errorf("emitted bytes are not CBOR: %v", err)
	}
	arr := n
	if n.Major == 6 {
		arr = n.Child
	}
	if arr.Major != 4 || len(arr.Items) < 3 {
		return fmt.Errorf("emitted bytes are not a COSE array")
	}
	last := arr.Items[len(arr.Items)-1]
	if last.Major == 2 && len(last.Content) == 0 {
		return fmt.Errorf("empty signature emitted")
	}
	if last.Major == 4 {
		if len(last.Items) == 0 {
			return fmt.Errorf("no signatures emitted")
		}
		for _, s := range last.Items {
			if s.Major != 4 || len(s.Items) != 3 || s.Items[2].Major != 2 || len(s.Items[2].Content) == 0 {
				return fmt.Errorf("empty signature emitted in COSE_Sign")
			}
		}
	}
	return nil
}

func init() { register("c20", checkC20) }

func TestC20_SignerFaults(t *testing.T) {
	begin(t, "C20", "signer-faults")
	n := 0
	run := func(c c20Case) {
		n++
		stats.Eval()
		judge(t, "c20", c, checkC20)
		faulty := false
		for _, m := range c.Modes {
			if m != bridge.SignOK {
				faulty = true
			}
		}
		if faulty {
			stats.NTBytes([]byte(fmt.Sprint(c)))
		}
		if n%37 == 0 {
			stats.Sample("signer-fault-vector", map[string]any{"entry": c.Entry, "modes": modeNames(c.Modes)})
		}
	}
	for _, e := range []string{"Sign1", "Sign1Untagged", "SignHashEnvelope", "Countersign0", "Sign1Message.Sign", "UntaggedSign1Message.Sign", "Signature.Sign", "Countersignature.Sign",
		"Countersignature.Sign/decoded", "Signature.Sign/decoded", "Sign1Message.Sign/decoded", "UntaggedSign1Message.Sign/decoded"} {
		for m := 0; m < 5; m++ {
			run(c20Case{Entry: e, Modes: []int{m}})
			if !strings.HasSuffix(e, "/decoded") {
				run(c20Case{Entry: e, Modes: []int{m}, DER: true})
			}
		}
	}
	for k := 1; k <= 4; k++ {
		total := 1
		for i := 0; i < k; i++ {
			total *= 5
		}
		for code := 0; code < total; code++ {
			modes := make([]int, k)
			x := code
			for i := range modes {
				modes[i] = x % 5
				x /= 5
			}
			run(c20Case{Entry: "SignMessage.Sign", Modes: modes})
		}
	}
	stats.ExhaustivePart("signer fault vectors (5 outcomes per call; 8 single-signer entry points; SignMessage n<=4)", n)
}

// ---------------------------------------------------------------------------
// verifier outcomes

type c20VCase struct {
	Entry string `json:"entry"`
	Modes []int  `json:"modes"` // 0 nil, 1 ErrVerification, 2 other error, 3 ErrVerification on the first call and nil on any later call, 4 other error first then nil
}

var errOtherVerify = errors.New("injected verifier outage")

func checkC20V(c c20VCase) error {
	var spiesV []*bridge.SpyVerifier
	mk := func(m int) *bridge.SpyVerifier {
		v := &bridge.SpyVerifier{Alg: cose.AlgorithmEdDSA}
		switch m {
		case 1:
			v.Result = cose.ErrVerification
		case 2:
			v.Result = errOtherVerify
		case 3:
			v.Results = []error{cose.ErrVerification, nil}
		case 4:
			v.Results = []error{errOtherVerify, nil}
		}
		spiesV = append(spiesV, v)
		return v
	}
	want := func(m int) error {
		return [...]error{nil, cose.ErrVerification, errOtherVerify, cose.ErrVerification, errOtherVerify}[m]
	}
	payload := []byte("payload")
	parent := &cose.Sign1Message{Headers: c20Headers(), Payload: payload, Signature: []byte{1, 2, 3}}
	var err error
	var wantErr error
	desc := fmt.Sprintf("%s%v", c.Entry, c.Modes)
	entry := c.Entry
	hashAlg, hashLen := int64(-16), 32
	if n, _ := fmt.Sscanf(c.Entry, "VerifyHashEnvelope:%d:%d", &hashAlg, &hashLen); n == 2 {
		entry = "VerifyHashEnvelope"
	}
	switch entry {
	case "Sign1Message.Verify":
		err = (&cose.Sign1Message{Headers: c20Headers(), Payload: payload, Signature: []byte{1}}).Verify(nil, mk(c.Modes[0]))
		wantErr = want(c.Modes[0])
	case "UntaggedSign1Message.Verify":
		err = (&cose.UntaggedSign1Message{Headers: c20Headers(), Payload: payload, Signature: []byte{1}}).Verify(nil, mk(c.Modes[0]))
		wantErr = want(c.Modes[0])
	case "Signature.Verify":
		err = (&cose.Signature{Headers: c20Headers(), Signature: []byte{1}}).Verify(mk(c.Modes[0]), []byte{0x40}, payload, nil)
		wantErr = want(c.Modes[0])
	case "Countersignature.Verify":
		err = (&cose.Countersignature{Headers: c20Headers(), Signature: []byte{1}}).Verify(mk(c.Modes[0]), parent, nil)
		wantErr = want(c.Modes[0])
	case "VerifyCountersign0":
		err = cose.VerifyCountersign0(mk(c.Modes[0]), parent, nil, []byte{1})
		wantErr = want(c.Modes[0])
	case "VerifyHashEnvelope":
		hs := sha256.Sum256(payload)
		h := append(append(append([]byte{}, hs[:]...), hs[:]...), hs[:]...)[:hashLen]
		hd := c20Headers()
		hd.Protected[int64(258)] = cose.Algorithm(hashAlg)
		env, e := (&cose.Sign1Message{Headers: hd, Payload: h[:], Signature: []byte{1}}).MarshalCBOR()
		if e != nil {
			return fmt.Errorf("harness: %v", e)
		}
		var m *cose.Sign1Message
		m, err = cose.VerifyHashEnvelope(mk(c.Modes[0]), env)
		wantErr = want(c.Modes[0])
		if (err == nil) != (m != nil) {
			return finding("message-with-error", "%s: returned message=%v err=%v", desc, m != nil, err)
		}
		if err != nil && (c.Modes[0] == 0 || spiesV[0].NCalls() == 0) {
			// an envelope refused for its form (C12's business) although the verifier accepts, or before
			// the verifier was consulted at all: no verdict of a verifier is lost
			stats.Class("envelope-refused-for-its-form")
			return nil
		}
	case "SignMessage.Verify":
		msg := &cose.SignMessage{Headers: cose.Headers{Protected: cose.ProtectedHeader{}}, Payload: payload}
		var vs []cose.Verifier
		for _, m := range c.Modes {
			msg.Signatures = append(msg.Signatures, &cose.Signature{Headers: c20Headers(), Signature: []byte{1}})
			vs = append(vs, mk(m))
			if wantErr == nil {
				wantErr = want(m)
			}
		}
		err = msg.Verify(nil, vs...)
	default:
		return fmt.Errorf("harness: unknown entry %q", c.Entry)
	}
	for i, sv := range spiesV {
		if sv.NCalls() > 1 {
			return finding("verifier-retried", "%s: verifier %d was called %d times for one verification (a rejected signature must not be re-tried in another form)", desc, i, sv.NCalls())
		}
	}
	if wantErr == nil {
		if err != nil {
			return finding("verify-failed", "%s: all verifiers accept but Verify returns %v", desc, err)
		}
	} else {
		if err == nil {
			return finding("verifier-error-swallowed", "%s: a verifier returned %v but verification reports success", desc, wantErr)
		}
		if !errors.Is(err, wantErr) {
			return finding("verifier-error-changed", "%s: verifier returned %v, Verify returned %v", desc, wantErr, err)
		}
	}
	stats.Class("entry/" + c.Entry)
	return nil
}

func init() { register("c20v", checkC20V) }

func TestC20_VerifierOutcomes(t *testing.T) {
	begin(t, "C20", "verifier-outcomes")
	n := 0
	run := func(c c20VCase) {
		n++
		stats.Eval()
		judge(t, "c20v", c, checkC20V)
		stats.NTBytes([]byte(fmt.Sprint(c)))
		if n%29 == 0 {
			stats.Sample("verifier-outcome-vector", c)
		}
	}
	entries := []string{"Sign1Message.Verify", "UntaggedSign1Message.Verify", "Signature.Verify", "Countersignature.Verify", "VerifyCountersign0", "VerifyHashEnvelope"}
	// hash envelopes naming every hash algorithm the library knows, and several it has no hash for
	// (SHA-256/64, SHA-1, SHA-512/256, SHAKE128, reserved, private use), with digests of 8 / 20 / 32 / 48 / 64 octets
	for _, ha := range []int64{-16, -43, -44, -15, -14, -17, -18, 0, -65536, 7} {
		for _, hl := range []int{8, 20, 32, 48, 64} {
			entries = append(entries, fmt.Sprintf("VerifyHashEnvelope:%d:%d", ha, hl))
		}
	}
	for _, e := range entries {
		for m := 0; m < 5; m++ {
			run(c20VCase{Entry: e, Modes: []int{m}})
		}
	}
	for k := 1; k <= 5; k++ {
		total := 1
		for i := 0; i < k; i++ {
			total *= 5
		}
		for code := 0; code < total; code++ {
			modes := make([]int, k)
			x := code
			for i := range modes {
				modes[i] = x % 5
				x /= 5
			}
			run(c20VCase{Entry: "SignMessage.Verify", Modes: modes})
		}
	}
	// many signatures: one refusing verifier at every position, and pairs (whatever an implementation does differently
	// from some count on - batches, workers - a refusal anywhere is a refusal)
	for _, k := range []int{6, 7, 8, 9, 10, 11, 12, 13, 16, 17, 18, 31, 32, 33, 41} {
		for i := 0; i < k; i++ {
			for m := 1; m < 5; m++ {
				modes := make([]int, k)
				modes[i] = m
				run(c20VCase{Entry: "SignMessage.Verify", Modes: modes})
			}
			for _, j := range []int{0, i / 2, k - 1} {
				if j != i {
					modes := make([]int, k)
					modes[i], modes[j] = 1, 2
					run(c20VCase{Entry: "SignMessage.Verify", Modes: modes})
				}
			}
		}
		run(c20VCase{Entry: "SignMessage.Verify", Modes: make([]int, k)})
	}
	stats.ExhaustivePart("verifier outcome vectors (3 outcomes per call; SignMessage n<=5 all vectors, n = 6 .. 41 one or two refusals at every position)", n)
}

// ---------------------------------------------------------------------------
// entropy faults and failing crypto.Signer with the built-in signers

// faultyReader yields deterministic bytes, then fails (or keeps returning
// short reads) after Limit bytes.
type faultyReader struct {
	inner io.Reader
	left  int
	short bool
	reads int
	eof   bool // the source simply ends (io.EOF) instead of reporting an error of its own
}

func (r *faultyReader) fail() error {
	if r.eof {
		return io.EOF
	}
	return errEntropy
}

var errEntropy = errors.New("injected entropy source failure")

func (r *faultyReader) Read(p []byte) (int, error) {
	r.reads++
	if r.short {
		// legal short reads: at most 1 byte per call until the budget is used, then an error
		if r.left <= 0 {
			return 0, r.fail()
		}
		if len(p) > 1 {
			p = p[:1]
		}
	}
	if r.left <= 0 {
		return 0, r.fail()
	}
	if len(p) > r.left {
		p = p[:r.left]
	}
	n, _ := r.inner.Read(p)
	r.left -= n
	if r.left <= 0 && !r.short {
		return n, r.fail()
	}
	return n, nil
}

type c20EntropyCase struct {
	Key    refcose.KeyMat `json:"key"`
	Entry  string         `json:"entry"` // Sign1, SignMessage2 (fault hits the second signer), Countersign0
	Limit  int            `json:"limit"`
	Short  bool           `json:"short"`
	Signer string         `json:"signer"`                // builtin, stub-error, stub-partial, stub-empty
	EOF    bool           `json:"eof,omitempty"`         // the entropy source ends with io.EOF
	PayLen int            `json:"payload_len,omitempty"` // 0: the short default payload
}

func checkC20Entropy(c c20EntropyCase) error {
	if c.Signer == "stub-panics" {
		// a key whose backend panics: the panic may reach the caller (it does today); what must not
		// happen is a signing call that swallows it and reports success
		err := safely(func() error { return checkC20EntropyInner(c) })
		if f, ok := err.(*Finding); ok && f.Key == "panic" && strings.Contains(f.Msg, "c20: key backend gone") {
			stats.Class("entropy/" + refcose.AlgName(c.Key.Alg) + "/stub-panics/panic-reaches-the-caller")
			return nil
		}
		return err
	}
	return checkC20EntropyInner(c)
}

func checkC20EntropyInner(c c20EntropyCase) error {
	var sg cose.Signer
	var err error
	alg := cose.Algorithm(c.Key.Alg)
	stubErr := errors.New("injected crypto.Signer failure")
	real := c.Signer == "builtin" || c.Signer == "opaque-trailing-der" || c.Signer == "cose-key-inconsistent-pair" || c.Signer == "opaque-key-reads-entropy"
	switch c.Signer {
	case "builtin":
		sg, err = libSigner(c.Key, false)
	case "opaque-key-reads-entropy":
		// an opaque key that draws a few bytes from the entropy source it is handed before it signs (blinding,
		// a session nonce): when that source fails, the operation fails
		sg, err = cose.NewSigner(alg, entropyReadingKey{c.Key.Private()})
	case "opaque-trailing-der":
		// an opaque crypto.Signer (PKCS#11 style) whose ASN.1 output is followed by padding bytes
		sg, err = cose.NewSigner(alg, trailingDERSigner{c.Key.Private().(*ecdsa.PrivateKey)})
	case "cose-key-inconsistent-pair":
		// a COSE_Key whose d belongs to another key than its x / y (nothing validates the pair):
		// its signer signs with d, so the signature verifies under d's public key
		priv := c.Key.Private().(*ecdsa.PrivateKey)
		otherKM := c.Key
		otherKM.D = append(append(rc.Hex{}, c.Key.D...), 'x')
		other := otherKM.Private().(*ecdsa.PrivateKey)
		size := (priv.Curve.Params().BitSize + 7) / 8
		x, y, d := make([]byte, size), make([]byte, size), make([]byte, size)
		other.X.FillBytes(x)
		other.Y.FillBytes(y)
		priv.D.FillBytes(d)
		var k *cose.Key
		k, err = cose.NewKeyEC2(alg, x, y, d)
		if err == nil {
			sg, err = k.Signer()
		}
	default:
		mode := c.Signer
		priv := c.Key.Private()
		ncalls := 0
		sg, err = cose.NewSigner(alg, &bridge.StubCryptoSigner{Pub: priv.Public(), SignFn: func(r io.Reader, d []byte, o crypto.SignerOpts) ([]byte, error) {
			ncalls++
			switch mode {
			case "stub-panics":
				panic("c20: key backend gone")
			case "stub-oversized-der":
				// well-formed ASN.1 whose r does not fit the curve: the conversion fails half-way
				wide := new(big.Int).Lsh(big.NewInt(1), 8*70)
				der, _ := asn1.Marshal(struct{ R, S *big.Int }{wide, big.NewInt(5)})
				return der, nil
			case "stub-truncated-der-2n", "stub-truncated-der":
				// the key's answer arrives damaged: a real ASN.1 signature cut short (to exactly twice the
				// order size - the length of a COSE signature - or by one byte). No ASN.1, so no signature
				der, err := priv.Sign(r, d, o)
				if err != nil {
					return nil, err
				}
				if mode == "stub-truncated-der" {
					return der[:len(der)-1], nil
				}
				n := 2 * refcose.OrderSize(priv.Public().(*ecdsa.PublicKey).Curve)
				for len(der) < n {
					der = append(der, der...)
				}
				return der[:n], nil
			case "stub-fails-once":
				// a transient fault: only the first operation of the key fails
				if ncalls == 1 {
					return nil, stubErr
				}
				return priv.Sign(r, d, o)
			case "stub-error":
				return nil, stubErr
			case "stub-partial":
				return []byte{0x30, 0x06, 0x02, 0x01}, stubErr
			}
			return []byte{}, nil
		}})
	}
	if err != nil {
		return fmt.Errorf("harness: %v", err)
	}
	ver, err := libVerifier(c.Key, false)
	if err != nil {
		return fmt.Errorf("harness: %v", err)
	}
	rd := &faultyReader{inner: refcose.NewEntropy([]byte("c20-entropy")), left: c.Limit, short: c.Short, eof: c.EOF}
	// a randomised scheme cannot have signed when the source never delivered a single byte
	mustFail := c.Limit == 0 && (c.Key.Family() != "ed" && (c.Signer == "builtin" || c.Signer == "cose-key-inconsistent-pair") || c.Signer == "opaque-key-reads-entropy")
	payload := []byte("entropy payload")
	if c.PayLen > 0 {
		payload = bytes.Repeat([]byte{0xa5}, c.PayLen)
	}
	hdr := cose.Headers{Protected: cose.ProtectedHeader{int64(1): alg}}
	desc := fmt.Sprintf("%s/%s/%s/limit=%d/short=%v/eof=%v/payload=%d", c.Entry, refcose.AlgName(c.Key.Alg), c.Signer, c.Limit, c.Short, c.EOF, len(payload))
	outcome := "error"
	switch c.Entry {
	case "Signer.Sign":
		// the signer object itself: an error comes without bytes
		out, err := sg.Sign(rd, payload)
		if err != nil {
			if len(out) != 0 {
				return finding("bytes-with-error", "%s: Signer.Sign returned %d bytes together with %v", desc, len(out), err)
			}
			break
		}
		if len(out) == 0 && c.Signer != "stub-empty" {
			return finding("signer-error-lost", "%s: Signer.Sign returned no bytes and no error", desc)
		}
		if real {
			if err := ver.Verify(payload, out); err != nil {
				return finding("unusable-signature", "%s: %v", desc, err)
			}
			if mustFail {
				return finding("entropy-failure-swallowed", "%s: signing succeeded although the entropy source failed before delivering a single byte", desc)
			}
		} else if c.Signer != "stub-empty" {
			return finding("signer-error-lost", "%s: Signer.Sign succeeded although the key failed", desc)
		}
		outcome = "success"
	case "Sign1":
		out, err := cose.Sign1(rd, sg, hdr, payload, nil)
		if err != nil {
			if len(out) != 0 {
				return finding("bytes-with-error", "%s: %d bytes returned with %v", desc, len(out), err)
			}
			if c.Signer == "stub-error" || c.Signer == "stub-partial" || c.Signer == "stub-fails-once" {
				if !errors.Is(err, stubErr) {
					return finding("signer-error-lost", "%s: %v", desc, err)
				}
			}
			if c.Signer == "stub-panics" {
				return finding("signer-error-lost", "%s: the key panicked, the panic was swallowed and the helper reports only: %v", desc, err)
			}
			if real && c.Limit >= 1<<20 && errors.Is(err, cose.ErrEmptySignature) {
				// nothing failed visibly, yet no signature was made: the failure of the key was swallowed
				return finding("signer-error-lost", "%s: a built-in signer with a working key and entropy source produced no signature and reported no error of its own (the helper says: %v)", desc, err)
			}
			break
		}
		if !real {
			if c.Signer == "stub-empty" || c.Key.Family() == "ec" {
				return finding("helper-returned-message", "%s: Sign1 returned a message although the key returned no usable signature: %x", desc, out)
			}
			// RSA / Ed25519 wrappers cannot tell partial bytes from a signature when the error is dropped - which must not happen
			return finding("signer-error-lost", "%s: Sign1 succeeded although the crypto.Signer failed", desc)
		}
		var m cose.Sign1Message
		if err := m.UnmarshalCBOR(out); err != nil {
			return finding("own-output-rejected", "%s: %v", desc, err)
		}
		if err := m.Verify(nil, ver); err != nil {
			return finding("unusable-signature", "%s: signing reported success under a failing entropy source but the message does not verify: %v", desc, err)
		}
		outcome = "success-verifies"
		if mustFail {
			return finding("entropy-failure-swallowed", "%s: signing succeeded although the entropy source failed before delivering a single byte", desc)
		}
	case "SignMessage2":
		good, err := libSigner(refcose.KeyMat{Alg: refcose.AlgEdDSA, D: rc.Hex("c20-first-signer-seed-32-bytes!!!")}, false)
		if err != nil {
			return err
		}
		goodV, _ := libVerifier(refcose.KeyMat{Alg: refcose.AlgEdDSA, D: rc.Hex("c20-first-signer-seed-32-bytes!!!")}, false)
		msg := &cose.SignMessage{Headers: cose.Headers{Protected: cose.ProtectedHeader{}}, Payload: payload,
			Signatures: []*cose.Signature{{Headers: cose.Headers{Protected: cose.ProtectedHeader{int64(1): cose.AlgorithmEdDSA}}}, {Headers: hdr}}}
		err = msg.Sign(rd, nil, good, sg)
		b, eerr := msg.MarshalCBOR()
		if err != nil {
			if len(msg.Signatures[1].Signature) != 0 {
				return finding("signature-stored-on-failure", "%s: failing slot holds %x", desc, msg.Signatures[1].Signature)
			}
			if eerr == nil || len(b) != 0 {
				return finding("encodes-half-signed", "%s: half-signed COSE_Sign is encodable", desc)
			}
			break
		}
		if !real {
			if c.Signer != "stub-empty" {
				return finding("signer-error-lost", "%s: SignMessage.Sign returns nil although the key of the second signer failed", desc)
			}
			if eerr == nil {
				return finding("encodes-half-signed", "%s: Sign succeeded with a failing key and the message is encodable: %x", desc, b)
			}
			outcome = "success-not-encodable"
			break
		}
		if eerr != nil {
			return finding("cannot-encode", "%s: %v", desc, eerr)
		}
		var d cose.SignMessage
		if err := d.UnmarshalCBOR(b); err != nil {
			return finding("own-output-rejected", "%s: %v", desc, err)
		}
		if err := d.Verify(nil, goodV, ver); err != nil {
			return finding("unusable-signature", "%s: %v", desc, err)
		}
		outcome = "success-verifies"
		if mustFail {
			return finding("entropy-failure-swallowed", "%s: signing succeeded although the entropy source failed before delivering a single byte", desc)
		}
	case "Countersign0":
		parent := &cose.Sign1Message{Headers: c20Headers(), Payload: payload, Signature: []byte{1, 2, 3}}
		sig, err := cose.Countersign0(rd, sg, parent, nil)
		if err != nil {
			if len(sig) != 0 {
				return finding("bytes-with-error", "%s: %x returned with %v", desc, sig, err)
			}
			break
		}
		if c.Signer == "stub-error" || c.Signer == "stub-partial" || c.Signer == "stub-fails-once" {
			return finding("signer-error-lost", "%s: Countersign0 succeeded although the crypto.Signer failed", desc)
		}
		if real {
			if len(sig) == 0 {
				return finding("empty-signature-without-error", "%s: Countersign0 returned no signature and no error", desc)
			}
			if err := cose.VerifyCountersign0(ver, parent, nil, sig); err != nil {
				return finding("unusable-signature", "%s: %v", desc, err)
			}
			outcome = "success-verifies"
			if mustFail {
				return finding("entropy-failure-swallowed", "%s: signing succeeded although the entropy source failed before delivering a single byte", desc)
			}
		}
	}
	stats.Class("entropy/" + refcose.AlgName(c.Key.Alg) + "/" + c.Signer + "/" + outcome)
	stats.Class("entropy-entry/" + c.Entry)
	stats.NTBytes([]byte(desc))
	return nil
}

// entropyReadingKey reads 8 bytes from the source it is handed (nil: none needed) before the key operation.
type entropyReadingKey struct{ inner crypto.Signer }

func (k entropyReadingKey) Public() crypto.PublicKey { return k.inner.Public() }
func (k entropyReadingKey) Sign(r io.Reader, d []byte, o crypto.SignerOpts) ([]byte, error) {
	if r != nil {
		if _, err := io.ReadFull(r, make([]byte, 8)); err != nil {
			return nil, fmt.Errorf("key: entropy source: %w", err)
		}
	}
	return k.inner.Sign(r, d, o)
}

func init() { register("c20entropy", checkC20Entropy) }

func c20EntropyKeys() []refcose.KeyMat {
	return []refcose.KeyMat{
		{Alg: refcose.AlgES256, D: rc.Hex("c20-es256")}, {Alg: refcose.AlgES384, D: rc.Hex("c20-es384")}, {Alg: refcose.AlgES512, D: rc.Hex("c20-es512")},
		{Alg: refcose.AlgEdDSA, D: rc.Hex("c20-eddsa-seed-of-32-bytes!!!!!!!")},
		{Alg: refcose.AlgPS256, RSA: "rsa2048"}, {Alg: refcose.AlgPS384, RSA: "rsa2048b"}, {Alg: refcose.AlgPS512, RSA: "rsa3072"},
	}
}

func TestC20_Entropy(t *testing.T) {
	begin(t, "C20", "entropy")
	sh, nsh := gridShard()
	n := 0
	limits := []int{}
	step := 1
	if !tierThorough() {
		step = 7
	}
	for k := 0; k <= 600; k += step {
		limits = append(limits, k)
	}
	for _, km := range c20EntropyKeys() {
		for _, entry := range []string{"Sign1", "SignMessage2", "Countersign0", "Signer.Sign"} {
			for _, short := range []bool{false, true} {
				for _, k := range limits {
					n++
					if n%nsh != sh {
						continue
					}
					c := c20EntropyCase{Key: km, Entry: entry, Limit: k, Short: short, Signer: "builtin", EOF: (k/step)%2 == 1 || k == 0 && short}
					stats.Eval()
					judge(t, "c20entropy", c, checkC20Entropy)
					if n%401 == 0 {
						stats.Sample("entropy-fault", c)
					}
				}
			}
			for _, lim := range []int{0, 4, 1 << 20} {
				n++
				if n%nsh != sh {
					continue
				}
				c := c20EntropyCase{Key: km, Entry: entry, Limit: lim, Signer: "opaque-key-reads-entropy", EOF: lim == 4}
				stats.Eval()
				judge(t, "c20entropy", c, checkC20Entropy)
				for _, pl := range []int{65536, 1 << 20} {
					c.PayLen = pl
					stats.Eval()
					judge(t, "c20entropy", c, checkC20Entropy)
					b := c
					b.Signer, b.Limit = "builtin", lim
					stats.Eval()
					judge(t, "c20entropy", b, checkC20Entropy)
				}
			}
			for _, sgn := range []string{"stub-error", "stub-partial", "stub-empty", "stub-fails-once", "stub-panics", "stub-oversized-der", "stub-truncated-der-2n", "stub-truncated-der", "opaque-trailing-der", "cose-key-inconsistent-pair"} {
				if km.Family() != "ec" && (sgn == "stub-oversized-der" || strings.HasPrefix(sgn, "stub-truncated-der")) {
					continue
				}
				if km.Family() != "ec" && (sgn == "opaque-trailing-der" || sgn == "cose-key-inconsistent-pair") {
					continue
				}
				n++
				if n%nsh != sh {
					continue
				}
				c := c20EntropyCase{Key: km, Entry: entry, Limit: 1 << 20, Signer: sgn}
				stats.Eval()
				judge(t, "c20entropy", c, checkC20Entropy)
				// the same faults with long content (whatever an implementation does differently from some length on)
				for _, pl := range []int{65535, 65536, 1 << 20} {
					c.PayLen = pl
					stats.Eval()
					stats.Class("entropy/long-content")
					judge(t, "c20entropy", c, checkC20Entropy)
				}
				c.PayLen = 0
				stats.Sample("failing-crypto-signer", c)
			}
		}
	}
	stats.ExhaustivePart("entropy / crypto.Signer fault points (7 algorithms x 3 entry points x cut-off k)", n/nsh)
}

// TestC20_Random: fault vectors on generated messages (random headers,
// payloads, countersignature parents).
func TestC20_Random(t *testing.T) {
	begin(t, "C20", "random")
	prop(t, func(rt *rapid.T) {
		o := c08Opts()
		o.Csigs = false
		o.MaxSigners = 4
		spec := gen.Msg(rt, o)
		modes := make([]int, len(spec.Sigs))
		for i := range modes {
			modes[i] = rapid.SampledFrom([]int{0, 0, 0, 1, 2, 3, 4}).Draw(rt, "mode")
		}
		c := c20RandCase{Spec: spec, Modes: modes}
		stats.Eval()
		judge(rt, "c20rand", c, checkC20Rand)
	})
}

type c20RandCase struct {
	Spec  gen.MsgSpec `json:"spec"`
	Modes []int       `json:"modes"`
}

func checkC20Rand(c c20RandCase) error {
	m := constructLib(&c.Spec)
	var ss []cose.Signer
	faulty := false
	for i, s := range c.Spec.Sigs {
		ss = append(ss, &bridge.SpySigner{Alg: cose.Algorithm(s.Key.Alg), Mode: c.Modes[i], Inner: func(tbs []byte) []byte { return dummySig(tbs) }})
		if c.Modes[i] != bridge.SignOK {
			faulty = true
		}
	}
	err := m.sign(c.Spec.Ext(), ss...)
	out, eerr := m.marshal()
	if faulty {
		if eerr == nil || len(out) != 0 {
			return finding("encodes-half-signed", "a %v whose signers returned %v is encodable (sign err=%v): %x", c.Spec.Kind, modeNames(c.Modes), err, out)
		}
		for _, md := range c.Modes {
			if noSigMode(md) {
				// the first signer that does not sign ends the call: here with the library's own error (F21)
				if err == nil {
					return finding("empty-signature-without-error", "signers %v: a signer returned no signature and no error, Sign reports success", modeNames(c.Modes))
				}
				break
			}
			if isFault(md) {
				if !errors.Is(err, bridge.ErrInjected) {
					return finding("signer-error-lost", "signers %v: Sign returned %v", modeNames(c.Modes), err)
				}
				break
			}
		}
		stats.Class("random/faulty")
		stats.NTBytes([]byte(fmt.Sprintf("%v", c.Modes)), rc.Encode(c.Spec.Prot, nil), c.Spec.Payload)
	} else if err == nil {
		if eerr != nil {
			stats.Class("random/encode-refused")
			return nil
		}
		if e := emptySigInside(out); e != nil {
			return finding("emitted-empty-signature", "%v", e)
		}
		stats.Class("random/clean")
	} else {
		stats.Class("random/sign-refused")
	}
	return nil
}

func init() { register("c20rand", checkC20Rand) }

// ---------------------------------------------------------------------------
// reserved but unfilled slots: a COSE_Sign whose Signatures slice has a nil
// entry is not a completely signed message

type c20NilSlotCase struct {
	N      int  `json:"n"`
	Nil    int  `json:"nil"`    // index of the nil entry
	Signed bool `json:"signed"` // the other slots carry signatures
}

func checkC20NilSlot(c c20NilSlotCase) error {
	payload := []byte("payload")
	m := &cose.SignMessage{Headers: cose.Headers{Protected: cose.ProtectedHeader{}, Unprotected: cose.UnprotectedHeader{}}, Payload: payload}
	m.Signatures = make([]*cose.Signature, c.N)
	var ss []cose.Signer
	var vs []cose.Verifier
	for i := 0; i < c.N; i++ {
		ss = append(ss, &bridge.SpySigner{Alg: cose.AlgorithmEdDSA})
		vs = append(vs, &bridge.SpyVerifier{Alg: cose.AlgorithmEdDSA})
		if i == c.Nil {
			continue
		}
		m.Signatures[i] = &cose.Signature{Headers: c20Headers()}
		if c.Signed {
			m.Signatures[i].Signature = []byte{1, 2, 3}
		}
	}
	desc := fmt.Sprintf("%+v", c)
	if b, err := m.MarshalCBOR(); err == nil || len(b) != 0 {
		return finding("encodes-unsigned/nil-slot", "%s: a COSE_Sign with a nil signature entry is encoded: %x", desc, b)
	}
	if err := m.Verify(nil, vs...); err == nil {
		return finding("verifies-unsigned/nil-slot", "%s: a COSE_Sign with a nil signature entry verifies", desc)
	}
	if !c.Signed {
		err := m.Sign(refcose.NewEntropy(nil), nil, ss...)
		if err == nil {
			return finding("signer-error-lost/nil-slot", "%s: Sign reports success although one slot cannot be signed", desc)
		}
		if b, err := m.MarshalCBOR(); err == nil || len(b) != 0 {
			return finding("encodes-half-signed/nil-slot", "%s: after the failed Sign the message is encodable: %x", desc, b)
		}
	}
	stats.Class("nil-slot")
	return nil
}

func init() { register("c20nil", checkC20NilSlot) }

func TestC20_NilSlots(t *testing.T) {
	begin(t, "C20", "nilslots")
	n := 0
	for k := 1; k <= 4; k++ {
		for p := 0; p < k; p++ {
			for _, signed := range []bool{false, true} {
				c := c20NilSlotCase{N: k, Nil: p, Signed: signed}
				n++
				stats.Eval()
				stats.NTBytes([]byte(fmt.Sprint(c)))
				judge(t, "c20nil", c, checkC20NilSlot)
			}
		}
	}
	stats.ExhaustivePart("nil signature entries (n x position x signed)", n)
}
