package props

import (
	"bytes"
	"errors"
	"fmt"
	"io"
	"testing"

	cose "github.com/veraison/go-cose"

	"verifharness/bridge"
	rc "verifharness/refcbor"
	"verifharness/refcose"
	"verifharness/stats"
)

// COSE_Sign through SignMessage.Sign / Verify: the algorithm rule is applied
// per signer layer, to that layer's own protected header as it is at the
// moment the layer is processed - whatever the body header says, and also
// when several layers hold one map object (one template map for all signers,
// or for body and signer), in which case what an earlier signer inserted is
// what a later signer finds.
type c04LayersCase struct {
	N       int    `json:"n"`
	HdrAlg  []int  `json:"hdr_alg"`  // per signer: 0 absent, 1 the key's algorithm, 2 another algorithm
	BodyAlg int    `json:"body_alg"` // 0 absent, 1 the algorithm of key 0, 2 another one
	Share   int    `json:"share"`    // constructed only: 0 own maps, 1 all signers hold one map object, 2 body and signer 0 hold one map object, 3 the same *Signature listed twice
	Ext     int    `json:"ext"`      // 0 nil, 2 non-empty
	Op      string `json:"op"`       // sign, verify
	Decoded bool   `json:"decoded,omitempty"`
	// FailAt (position + 1; sign only): the key at that position reports an error. Layers signed before keep
	// what was signed: their protected header still encodes to the bytes their key was handed
	FailAt int `json:"fail_at,omitempty"`
}

type c04FailingSigner struct{ *bridge.SpySigner }

var errC04Key = errors.New("injected key failure")

func (f c04FailingSigner) Sign(r io.Reader, content []byte) ([]byte, error) {
	f.SpySigner.Sign(r, content)
	return nil, errC04Key
}

var c04LayerAlgs = []int64{-7, -35, -8}

func (c *c04LayersCase) keyAlg(i int) int64   { return c04LayerAlgs[i%3] }
func (c *c04LayersCase) otherAlg(i int) int64 { return c04LayerAlgs[(i+1)%3] }

func checkC04Layers(c c04LayersCase) error {
	var ext []byte
	if c.Ext == 2 {
		ext = []byte("external data")
	}
	n := c.N
	if c.Share == 3 {
		n = 2
	}
	// model: one alg cell per map object; layer -> map object
	type cell struct {
		present bool
		alg     int64
	}
	cells := make([]*cell, n)
	mk := func(i, state int) *cell {
		switch state {
		case 1:
			return &cell{true, c.keyAlg(i)}
		case 2:
			return &cell{true, c.otherAlg(i)}
		}
		return &cell{}
	}
	for i := 0; i < n; i++ {
		cells[i] = mk(i, c.HdrAlg[i%len(c.HdrAlg)])
	}
	body := mk(0, c.BodyAlg)
	switch c.Share {
	case 1:
		for i := 1; i < n; i++ {
			cells[i] = cells[0]
		}
	case 2:
		body = cells[0]
	case 3:
		cells[1] = cells[0]
	}
	toMap := func(cl *cell) cose.ProtectedHeader {
		p := cose.ProtectedHeader{}
		if cl.present {
			p[cose.HeaderLabelAlgorithm] = cose.Algorithm(cl.alg)
		}
		return p
	}
	toWire := func(cl *cell) []byte {
		if !cl.present {
			return []byte{0x40}
		}
		return protBstr(rc.Map(rc.E(rc.Int(1), rc.Int(cl.alg))))
	}
	// the library objects, with the same aliasing
	objs := map[*cell]cose.ProtectedHeader{}
	mapOf := func(cl *cell) cose.ProtectedHeader {
		if m, ok := objs[cl]; ok {
			return m
		}
		objs[cl] = toMap(cl)
		return objs[cl]
	}
	var m *cose.SignMessage
	payload := []byte("payload")
	if c.Decoded {
		w := []byte{0xd8, 0x62, 0x84}
		w = append(w, toWire(body)...)
		w = append(w, 0xa0, 0x47)
		w = append(w, payload...)
		w = append(w, byte(0x80+n))
		for i := 0; i < n; i++ {
			w = append(w, 0x83)
			w = append(w, toWire(cells[i])...)
			w = append(w, 0xa0, 0x43, 1, 2, byte(i))
		}
		m = new(cose.SignMessage)
		if err := m.UnmarshalCBOR(w); err != nil {
			return fmt.Errorf("harness: %v\n%x", err, w)
		}
	} else {
		m = &cose.SignMessage{Headers: cose.Headers{Protected: mapOf(body)}, Payload: payload}
		for i := 0; i < n; i++ {
			if c.Share == 3 && i == 1 {
				m.Signatures = append(m.Signatures, m.Signatures[0])
				continue
			}
			sg := &cose.Signature{Headers: cose.Headers{Protected: mapOf(cells[i])}}
			if c.Op == "verify" {
				sg.Signature = []byte{1, 2, byte(i)}
			}
			m.Signatures = append(m.Signatures, sg)
		}
	}
	// model run
	invoked := make([]bool, n)
	wantErr, wantMismatch := false, false
	failing := n // index of the layer that stops the operation
	for i := 0; i < n && !wantErr; i++ {
		cl := cells[i]
		failing = i
		switch {
		case cl.present && cl.alg != c.keyAlg(i):
			wantErr, wantMismatch = true, true
		case cl.present:
			invoked[i] = true
		case len(ext) > 0:
			invoked[i] = true
		case c.Op == "sign":
			cl.present, cl.alg = true, c.keyAlg(i)
			invoked[i] = true
		default:
			wantErr = true
		}
		if invoked[i] && c.FailAt == i+1 {
			wantErr = true
		}
	}
	if !wantErr {
		failing = n
	}
	var err error
	calls := make([]int, n)
	tbs := make([][]byte, n)
	if c.Op == "sign" {
		var ss []cose.Signer
		var spies []*bridge.SpySigner
		for i := 0; i < n; i++ {
			sp := &bridge.SpySigner{Alg: cose.Algorithm(c.keyAlg(i))}
			spies = append(spies, sp)
			if c.FailAt == i+1 {
				ss = append(ss, c04FailingSigner{sp})
			} else {
				ss = append(ss, sp)
			}
		}
		err = m.Sign(refcose.NewEntropy(nil), ext, ss...)
		if c.FailAt != 0 {
			// whatever was signed before the failure is still what its layer encodes to
			for i := 0; i < n && i < c.FailAt-1; i++ {
				if len(m.Signatures[i].Signature) == 0 || spies[i].NCalls() == 0 {
					continue
				}
				now, perr := m.Signatures[i].Headers.MarshalProtected()
				nd, derr := rc.Parse(spies[i].Last())
				if perr != nil || derr != nil || len(nd.Items) < 3 || !bytes.Equal(now, nd.Items[2].Raw()) {
					return finding("signed-header-changed-after-failure/layers", "SignMessage.Sign failed at signer %d; signer %d had been signed over the protected header %x, which now encodes to %x (err=%v): the stored signature no longer matches its layer (%+v)", c.FailAt-1, i, nd.Items[2].Raw(), now, perr, c)
				}
				stats.Class("layers/earlier-layer-intact-after-a-later-key-failed")
			}
		}
		for i, sp := range spies {
			calls[i] = sp.NCalls()
			if calls[i] > 0 {
				tbs[i] = sp.Last()
			}
		}
	} else {
		var vs []cose.Verifier
		var spies []*bridge.SpyVerifier
		for i := 0; i < n; i++ {
			sp := &bridge.SpyVerifier{Alg: cose.Algorithm(c.keyAlg(i))}
			spies = append(spies, sp)
			vs = append(vs, sp)
		}
		err = m.Verify(ext, vs...)
		for i, sp := range spies {
			calls[i] = sp.NCalls()
			if calls[i] > 0 {
				tbs[i] = sp.Last().Content
			}
		}
	}
	id := fmt.Sprintf("%+v", c)
	if (err != nil) != wantErr {
		if err == nil {
			return finding("proceeds-though-forbidden/layers", "SignMessage.%s returns nil although the algorithm rule forbids one of the signer layers (%s)", c.Op, id)
		}
		return finding("refused-though-allowed/layers", "SignMessage.%s fails (%v) although every signer layer satisfies the algorithm rule (%s)", c.Op, err, id)
	}
	if wantMismatch && !errors.Is(err, cose.ErrAlgorithmMismatch) {
		return finding("wrong-error-class/layers", "SignMessage.%s: want ErrAlgorithmMismatch, got %v (%s)", c.Op, err, id)
	}
	for i := 0; i < n; i++ {
		want := 0
		if invoked[i] {
			want = 1
		}
		if wantErr && i < failing && calls[i] == 0 {
			// a layer in front of the one that stops the operation: whether its key has been used by then
			// is not fixed by the rule (an implementation may check all layers first)
			stats.Class("layers/earlier-key-not-used-before-the-refusal")
			continue
		}
		if calls[i] != want {
			return finding("key-invocations/layers", "SignMessage.%s: key %d (algorithm %d) was invoked %d times, the rule says %d (%s; error: %v)", c.Op, i, c.keyAlg(i), calls[i], want, id, err)
		}
		if invoked[i] && len(ext) == 0 {
			if a, ok := tbsProtectedAlg(tbs[i], 2); !ok || a != c.keyAlg(i) {
				return finding("signed-bytes-carry-other-alg/layers", "SignMessage.%s: key %d (algorithm %d) was handed a structure whose signer header carries alg %d (present=%v) (%s)", c.Op, i, c.keyAlg(i), a, ok, id)
			}
		}
	}
	stats.Class("layers/" + c.Op)
	stats.Class(fmt.Sprintf("layers/share=%d", c.Share))
	stats.Class(fmt.Sprintf("layers/body-alg=%d", c.BodyAlg))
	return nil
}

func init() { register("c04layers", checkC04Layers) }

func TestC04_SignLayers(t *testing.T) {
	begin(t, "C04", "layers")
	cells := 0
	for n := 1; n <= 3; n++ {
		states := 1
		for i := 0; i < n; i++ {
			states *= 3
		}
		for st := 0; st < states; st++ {
			hdr := make([]int, n)
			for i, x := 0, st; i < n; i, x = i+1, x/3 {
				hdr[i] = x % 3
			}
			for body := 0; body < 3; body++ {
				for _, ext := range []int{0, 2} {
					for _, op := range []string{"sign", "verify"} {
						for share := 0; share <= 3; share++ {
							if share != 0 && n == 1 && share != 2 && share != 3 {
								continue
							}
							if share == 3 && op == "sign" {
								continue // signing one slot twice is refused for a reason that has nothing to do with algorithms
							}
							c := c04LayersCase{N: n, HdrAlg: hdr, BodyAlg: body, Share: share, Ext: ext, Op: op}
							cells++
							stats.Eval()
							stats.NTBytes([]byte(fmt.Sprintf("%+v", c)))
							judge(t, "c04layers", c, checkC04Layers)
							if op == "sign" && body == 0 {
								for at := 1; at <= n; at++ {
									c.FailAt = at
									cells++
									stats.Eval()
									stats.NTBytes([]byte(fmt.Sprintf("%+v", c)))
									judge(t, "c04layers", c, checkC04Layers)
								}
							}
						}
						if op == "verify" {
							c := c04LayersCase{N: n, HdrAlg: hdr, BodyAlg: body, Ext: ext, Op: op, Decoded: true}
							cells++
							stats.Eval()
							stats.NTBytes([]byte(fmt.Sprintf("%+v", c)))
							judge(t, "c04layers", c, checkC04Layers)
						}
					}
				}
			}
		}
	}
	stats.ExhaustivePart("signer-layer cells of COSE_Sign", cells)
}
