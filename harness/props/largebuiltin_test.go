package props

import (
	"fmt"
	"testing"

	cose "github.com/veraison/go-cose"

	rc "verifharness/refcbor"
	"verifharness/refcose"
	"verifharness/stats"
)

// Long content with the BUILT-IN keys (C02, C11): a recording key sees the bytes it is handed, but whatever an
// implementation does differently for built-in signers / verifiers (digest entry points, streaming) shows only in
// the signature. So: messages with payloads on both sides of 2^16 and 2^20, protected buckets behind minimal and
// wide length heads, external data nil / empty / present; what the library's built-in signers produce has to verify
// under the reference verifier over the reference Sig_structure (built from the wire bytes), and what the reference
// signs over that structure has to verify under the library's built-in verifiers - and no longer once one byte of
// the content, the external data or the signature changes.

type largeBuiltinCase struct {
	Struct  string  `json:"struct"` // Sign1, Untagged, Sign
	Algs    []int64 `json:"algs"`   // one per signer
	PayLen  int     `json:"payload_len"`
	Ext     int     `json:"ext"`       // 0 nil, 1 empty, 2 present
	WideP   int     `json:"wide_head"` // width of the length head of the protected buckets on the wire (0 minimal, 1, 2, 4, 8)
	ProtPad int     `json:"protected_pad"`
	Side    string  `json:"side"` // lib-signs, lib-verifies
}

func lbKey(alg int64, i int) refcose.KeyMat {
	km := refcose.KeyMat{Alg: alg}
	switch km.Family() {
	case "ec":
		km.D = rc.Hex(fmt.Sprintf("large-builtin-ec-%d-%d", alg, i))
	case "ed":
		km.D = rc.Hex(fmt.Sprintf("large-builtin-ed25519-seed-%05d", i))[:32]
	default:
		km.RSA = "rsa2048"
	}
	return km
}

type fixedWidth struct{ w int }

func (f fixedWidth) Width(min int) int {
	if f.w > min {
		return f.w
	}
	return min
}
func (fixedWidth) Perm(n int) []int {
	p := make([]int, n)
	for i := range p {
		p[i] = i
	}
	return p
}

func checkLargeBuiltin(prop string) func(c largeBuiltinCase) error {
	return func(c largeBuiltinCase) error {
		payload := make([]byte, c.PayLen)
		for i := range payload {
			payload[i] = byte(i * 7)
		}
		var ext []byte
		switch c.Ext {
		case 1:
			ext = []byte{}
		case 2:
			ext = []byte("external data")
		}
		protFor := func(alg int64) []byte {
			m := rc.Map(rc.E(rc.Int(1), rc.Int(alg)))
			if c.ProtPad > 0 {
				m = m.With(rc.Text("pad"), rc.Bytes(make([]byte, c.ProtPad)))
			}
			return rc.Encode(m, nil)
		}
		bstr := func(content []byte) []byte {
			min := 0
			switch n := len(content); {
			case n >= 1<<16:
				min = 4
			case n >= 1<<8:
				min = 2
			case n >= 24:
				min = 1
			}
			return append(rc.Head(2, uint64(len(content)), fixedWidth{c.WideP}.Width(min)), content...)
		}
		kind := map[string]refcose.Kind{"Sign1": refcose.KSign1, "Untagged": refcose.KSign1Untagged, "Sign": refcose.KSign}[c.Struct]
		// the wire form with placeholder signatures, then the reference structures over it
		var keys []refcose.KeyMat
		var tbs [][]byte
		for i, a := range c.Algs {
			keys = append(keys, lbKey(a, i))
			if kind == refcose.KSign {
				tbs = append(tbs, refcose.SigStructure(nil, protFor(a), ext, payload))
			} else {
				tbs = append(tbs, refcose.SigStructure1(protFor(a), ext, payload))
			}
		}
		build := func(sigs [][]byte) []byte {
			var w []byte
			pl := rc.Encode(rc.Bytes(payload), nil)
			if kind == refcose.KSign {
				w = []byte{0xd8, 0x62, 0x84, 0x40, 0xa0}
				w = append(w, pl...)
				w = append(w, rc.Head(4, uint64(len(sigs)), 0)...)
				for i, s := range sigs {
					w = append(w, 0x83)
					w = append(w, bstr(protFor(c.Algs[i]))...)
					w = append(w, 0xa0)
					w = append(w, rc.Encode(rc.Bytes(s), nil)...)
				}
				return w
			}
			if kind == refcose.KSign1 {
				w = []byte{0xd2}
			}
			w = append(w, 0x84)
			w = append(w, bstr(protFor(c.Algs[0]))...)
			w = append(w, 0xa0)
			w = append(w, pl...)
			return append(w, rc.Encode(rc.Bytes(sigs[0]), nil)...)
		}
		stats.Class("large-builtin/" + c.Side)
		var vers []cose.Verifier
		var sgs []cose.Signer
		for _, km := range keys {
			v, err := libVerifier(km, false)
			if err != nil {
				return fmt.Errorf("harness: %v", err)
			}
			s, err := libSigner(km, false)
			if err != nil {
				return fmt.Errorf("harness: %v", err)
			}
			vers, sgs = append(vers, v), append(sgs, s)
		}
		desc := fmt.Sprintf("%s %v payload=%d ext=%d head-width=%d pad=%d", c.Struct, c.Algs, c.PayLen, c.Ext, c.WideP, c.ProtPad)
		if c.Side == "lib-verifies" {
			var sigs [][]byte
			for i, km := range keys {
				sigs = append(sigs, refcose.Sign(km.Alg, km, tbs[i], []byte("large-builtin")))
			}
			m, err := decodeLib(kind, build(sigs))
			if err != nil {
				return finding("reference-message-refused", "%s: decoding fails: %v", desc, err)
			}
			if err := m.verify(ext, vers...); err != nil {
				return finding("reference-signature-refused/"+prop, "%s: a message signed by the reference over the RFC 9052 Sig_structure is refused by the built-in verifiers: %v", desc, err)
			}
			// one changed byte: payload, external data, each signature
			other := append([]byte{}, ext...)
			other = append(other, 1)
			if err := m.verify(other, vers...); err == nil {
				return finding("accepted-under-other-external/"+prop, "%s: verifies under different external data", desc)
			}
			for i := range sigs {
				bad := make([][]byte, len(sigs))
				for j := range sigs {
					bad[j] = append([]byte{}, sigs[j]...)
				}
				bad[i][len(bad[i])/2] ^= 0x10
				mb, err := decodeLib(kind, build(bad))
				if err != nil {
					return fmt.Errorf("harness: %v", err)
				}
				if err := mb.verify(ext, vers...); err == nil {
					return finding("damaged-signature-accepted/"+prop, "%s: verifies with signature %d damaged", desc, i)
				}
			}
			if c.PayLen > 0 {
				p := m.payload()
				(*p)[len(*p)-1] ^= 1
				if err := m.verify(ext, vers...); err == nil {
					return finding("changed-payload-accepted/"+prop, "%s: verifies with the last payload byte changed", desc)
				}
			}
			return nil
		}
		// lib-signs: decode the wire form (placeholder signatures), clear the signatures, sign with the built-in signers
		ph := make([][]byte, len(keys))
		for i := range ph {
			ph[i] = []byte{1}
		}
		m, err := decodeLib(kind, build(ph))
		if err != nil {
			return finding("reference-message-refused", "%s: decoding fails: %v", desc, err)
		}
		var got [][]byte
		switch {
		case m.s1 != nil:
			m.s1.Signature = nil
		case m.u1 != nil:
			m.u1.Signature = nil
		default:
			for _, s := range m.sm.Signatures {
				s.Signature = nil
			}
		}
		if err := m.sign(ext, sgs...); err != nil {
			return finding("sign-refused/"+prop, "%s: %v", desc, err)
		}
		switch {
		case m.s1 != nil:
			got = [][]byte{m.s1.Signature}
		case m.u1 != nil:
			got = [][]byte{m.u1.Signature}
		default:
			for _, s := range m.sm.Signatures {
				got = append(got, s.Signature)
			}
		}
		for i, km := range keys {
			if !refcose.Verify(km.Alg, km.Public(), tbs[i], got[i]) {
				return finding("signature-not-over-sig-structure/"+prop, "%s: the signature of signer %d made by the built-in signer does not verify over the RFC 9052 Sig_structure of the message", desc, i)
			}
		}
		return nil
	}
}

func init() {
	register("c02large", checkLargeBuiltin("C02"))
	register("c11large", checkLargeBuiltin("C11"))
}

func largeBuiltinCases(multi bool) []largeBuiltinCase {
	var out []largeBuiltinCase
	lens := []int{65535, 65536, 1<<20 - 1, 1 << 20, 1<<20 + 1}
	for _, side := range []string{"lib-signs", "lib-verifies"} {
		for _, pl := range lens {
			for ext := 0; ext < 3; ext++ {
				for _, wide := range []int{0, 1, 2} {
					if multi {
						algsets := [][]int64{{refcose.AlgES256, refcose.AlgPS256}, {refcose.AlgEdDSA, refcose.AlgES384, refcose.AlgES256}}
						out = append(out, largeBuiltinCase{Struct: "Sign", Algs: algsets[(ext+wide)%2], PayLen: pl, Ext: ext, WideP: wide, Side: side})
						continue
					}
					for si, st := range []string{"Sign1", "Untagged"} {
						alg := []int64{refcose.AlgES256, refcose.AlgPS256, refcose.AlgES384, refcose.AlgEdDSA}[(ext+wide+si)%4]
						out = append(out, largeBuiltinCase{Struct: st, Algs: []int64{alg}, PayLen: pl, Ext: ext, WideP: wide, Side: side})
					}
				}
			}
		}
	}
	return out
}

func TestC02_LargeBuiltin(t *testing.T) {
	begin(t, "C02", "large-builtin")
	n := 0
	for _, multi := range []bool{false, true} {
		for _, c := range largeBuiltinCases(multi) {
			n++
			stats.Eval()
			stats.NTBytes([]byte(fmt.Sprint(c)))
			judge(t, "c02large", c, checkLargeBuiltin("C02"))
			if n%19 == 0 {
				stats.Sample("large-builtin", c)
			}
		}
	}
	stats.ExhaustivePart("long content x built-in keys x head widths x external data x side", n)
}

func TestC11_LargeBuiltin(t *testing.T) {
	begin(t, "C11", "large-builtin")
	n := 0
	for _, c := range largeBuiltinCases(true) {
		n++
		stats.Eval()
		stats.NTBytes([]byte(fmt.Sprint(c)))
		judge(t, "c11large", c, checkLargeBuiltin("C11"))
		if n%19 == 0 {
			stats.Sample("large-builtin", c)
		}
	}
	stats.ExhaustivePart("COSE_Sign with long content x built-in keys x head widths x external data x side", n)
}
