package props

import (
	"bytes"
	"fmt"
	"io"
	"reflect"

	cose "github.com/veraison/go-cose"

	"verifharness/bridge"
	"verifharness/refcose"
	"verifharness/stats"
)

// Refused operations as steps of the workspace machine (round 13). Every step below is an operation
// the library must REFUSE - a verification with other external data, with a rejecting key, with too
// few keys, of a message whose payload is momentarily detached; a decode of damaged or foreign bytes
// into a variable that holds a message; a signing call whose key fails; the encoding of something
// that is not signed - followed by the ordinary steps of the history. What is asserted at the step
// itself is the refusal and that no object changed (verification and encoding are read-only, a
// refused decode leaves the receiver as it was); what the refusal may have left behind inside the
// library or the object shows in the sweep after every later step, which judges every object against
// the model.

type wsFailSigner struct {
	cose.Signer
	partial bool
}

func (f wsFailSigner) Sign(io.Reader, []byte) ([]byte, error) {
	if f.partial {
		return []byte{0xde, 0xad, 0xbe, 0xef}, bridge.ErrInjected
	}
	return nil, bridge.ErrInjected
}

type wsRejectVerifier struct{ cose.Verifier }

func (wsRejectVerifier) Verify(_, _ []byte) error { return cose.ErrVerification }

func wsDump(s *wsSlot) string {
	return bridge.DumpValue(s.m.s1) + bridge.DumpValue(s.m.u1) + bridge.DumpValue(s.m.sm)
}

func wsDumpAll(slots []*wsSlot) []string {
	var out []string
	for _, s := range slots {
		out = append(out, wsDump(s))
	}
	return out
}

var errStopHistory = fmt.Errorf("history ends here")

type wsFailFn func(key, format string, args ...any) error

// wsUnchanged reports the first object whose value differs from the snapshot.
func wsUnchanged(slots []*wsSlot, before []string, fail wsFailFn, key, what string, step int) error {
	for i, s := range slots {
		if now := wsDump(s); now != before[i] {
			if e := fail(key, "step %d: %s changed object %d\nbefore=%s\n after=%s", step, what, i, before[i], now); e != nil {
				return e
			}
		}
	}
	return nil
}

// wsVerifyRefused: a verification that must fail, on a signed object.
func wsVerifyRefused(step int, op wsOp, s *wsSlot, slots []*wsSlot, fail wsFailFn) error {
	before := wsDumpAll(slots)
	ext := s.spec.Ext()
	vs := append([]cose.Verifier{}, s.vs...)
	var what, key string
	var saved []byte
	restore := func() {}
	switch v := op.B % 4; {
	case v == 0:
		ext = append(append([]byte{}, ext...), 0x01)
		what, key = "Verify with other external data", "C03:invalid-accepted"
	case v == 1:
		i := (op.B / 4) % len(vs)
		vs[i] = wsRejectVerifier{vs[i]}
		what, key = fmt.Sprintf("Verify with a key that rejects signature %d", i), "C03+C11+C20:rejection-lost"
	case v == 2 && s.m.sm != nil:
		vs = vs[:len(vs)-1]
		what, key = "Verify with one verifier too few", "C11:verifier-count-ignored"
	default:
		p := s.m.payload()
		saved = *p
		*p = nil
		restore = func() { *p = saved }
		what, key = "Verify of a message whose payload is detached, without supplying it", "C03:invalid-accepted"
	}
	err := s.m.verify(ext, vs...)
	restore()
	if err == nil {
		if e := fail(key, "step %d: %s succeeds (%v)", step, what, s.spec.Kind); e != nil {
			return e
		}
	}
	stats.Class("ws/refused/verify")
	if e := wsUnchanged(slots, before, fail, "C18+C19+C03:refused-operation-changed-object", "a refused "+what, step); e != nil {
		return e
	}
	// the same for the countersignatures hanging on the object: verified with other external data
	csVer, err := libVerifier(wsCsKey, false)
	if err != nil {
		return err
	}
	for ci, cs := range s.csigs {
		var other []byte
		if len(cs.ext) == 0 {
			other = []byte("not the countersigner's external data")
		}
		un := s.m.headers().Unprotected
		var verr error
		if cs.abbrev {
			sig, ok := un[int64(12)].([]byte)
			if !ok {
				continue
			}
			verr = cose.VerifyCountersign0(csVer, s.m.parent((step+ci)%2 == 0), other, sig)
		} else {
			obj, ok := un[int64(11)].(*cose.Countersignature)
			if !ok {
				continue
			}
			verr = obj.Verify(csVer, s.m.parent((step+ci)%2 == 1), other)
		}
		if verr == nil {
			if e := fail("C10+C03:countersignature-accepted-with-other-external-data", "step %d: a countersignature (abbreviated=%v) made with external data %x verifies with %x", step, cs.abbrev, cs.ext, other); e != nil {
				return e
			}
		}
		stats.Class("ws/refused/verify-countersignature")
		if e := wsUnchanged(slots, before, fail, "C18+C10+C19:refused-operation-changed-object", "a refused countersignature verification (other external data)", step); e != nil {
			return e
		}
	}
	return nil
}

// wsBadInput derives bytes the decoder of kind must refuse from a valid encoding.
func wsBadInput(kind refcose.Kind, last []byte, v int) ([]byte, string) {
	switch v % 8 {
	case 0:
		return append([]byte{}, last[:len(last)-1]...), "truncated"
	case 1:
		return append(append([]byte{}, last...), 0x00), "trailing-byte"
	case 2:
		switch kind {
		case refcose.KSign1:
			return append([]byte{}, last[1:]...), "tag-removed"
		case refcose.KSign1Untagged:
			return append([]byte{0xd2}, last...), "tag-added"
		default:
			return append([]byte{0xd2}, last[2:]...), "other-tag"
		}
	case 3:
		return []byte{0xf6}, "null"
	}
	// well-formed up to the very last item: the (last) signature is empty
	env, err := refcose.ParseEnv(kind, last)
	if err != nil {
		return append([]byte{}, last[:len(last)-1]...), "truncated"
	}
	if v%8 >= 5 {
		// crit in an unprotected bucket: refused by the header rules after the protected bucket (and, in the
		// signer variant, the body and every earlier signer) has been read
		n := env.Arr.Items[1]
		what := "crit-in-unprotected"
		if sgs := env.Arr.Items[3]; v%8 >= 6 && kind == refcose.KSign && sgs.Major == 4 && len(sgs.Items) > 0 {
			if sg := sgs.Items[len(sgs.Items)-1]; sg.Major == 4 && len(sg.Items) == 3 {
				n, what = sg.Items[1], "crit-in-unprotected-of-last-signer"
			}
		}
		out := append([]byte{}, last[:n.Start]...)
		out = append(out, 0xa1, 0x02, 0x81, 0x04)
		return append(out, last[n.End:]...), what
	}
	n := env.Arr.Items[3]
	if kind == refcose.KSign {
		if n.Major != 4 || len(n.Items) == 0 {
			return append([]byte{}, last[:len(last)-1]...), "truncated"
		}
		sg := n.Items[len(n.Items)-1]
		if sg.Major != 4 || len(sg.Items) != 3 {
			return append([]byte{}, last[:len(last)-1]...), "truncated"
		}
		n = sg.Items[2]
	}
	out := append([]byte{}, last[:n.Start]...)
	out = append(out, 0x40)
	out = append(out, last[n.End:]...)
	return out, "last-signature-empty"
}

// wsDecodeRefused: bytes that the decoder must refuse, decoded into a variable in use.
func wsDecodeRefused(step int, op wsOp, src, dst *wsSlot, slots []*wsSlot, fail wsFailFn) error {
	before := wsDumpAll(slots)
	in, what := append([]byte{}, src.last...), "other-kind"
	if dst.spec.Kind == src.spec.Kind {
		in, what = wsBadInput(dst.spec.Kind, src.last, op.V)
	}
	buf := append([]byte{}, in...)
	var err error
	switch {
	case dst.m.s1 != nil:
		err = dst.m.s1.UnmarshalCBOR(buf)
	case dst.m.u1 != nil:
		err = dst.m.u1.UnmarshalCBOR(buf)
	default:
		err = dst.m.sm.UnmarshalCBOR(buf)
	}
	for i := range buf {
		buf[i] ^= 0x5a
	}
	if err == nil {
		if e := fail("C05:ill-formed-accepted", "step %d: the %v decoder accepts %s input\n%x", step, dst.spec.Kind, what, in); e != nil {
			return e
		}
		return errStopHistory
	}
	stats.Class("ws/refused/decode/" + what)
	return wsUnchanged(slots, before, fail, "C19:refused-decode-changed-receiver", "a refused decode ("+what+") into a used variable", step)
}

// wsSignRefused: an unsigned object, a key that fails at one position; then the ordinary signing
// call, whose outcome must be that of the same call on a fresh object made from the same description.
func wsSignRefused(step int, op wsOp, s *wsSlot, fail wsFailFn) error {
	ss := append([]cose.Signer{}, s.ss...)
	k := op.B % len(ss)
	ss[k] = wsFailSigner{Signer: ss[k], partial: (op.B/4)%2 == 1}
	if _, err := s.m.marshal(); err == nil {
		if e := fail("C20+C11:unsigned-message-encodable", "step %d: a %v without signatures is encoded", step, s.spec.Kind); e != nil {
			return e
		}
	}
	err := s.m.sign(s.spec.Ext(), ss...)
	if err == nil {
		if e := fail("C20:signer-error-lost", "step %d: signing a %v with a key that fails at position %d reports success", step, s.spec.Kind, k); e != nil {
			return e
		}
	}
	if out, merr := s.m.marshal(); merr == nil {
		if e := fail("C20+C11:half-signed-message-encodable", "step %d: after a signing call that failed at signer %d the %v is encoded\n%x", step, k, s.spec.Kind, out); e != nil {
			return e
		}
	}
	for i, p := range s.sigs() {
		if i >= k && len(*p) != 0 {
			if e := fail("C20:slot-filled-despite-failure", "step %d: signature slot %d holds %x after the signer at position %d failed", step, i, *p, k); e != nil {
				return e
			}
		}
		*p = nil
	}
	stats.Class("ws/refused/sign")
	if !s.tmpl || s.shared || s.pEdit != 0 || s.uEdit != 0 || s.cver != s.born {
		return nil
	}
	// second attempt with working keys, next to the same call on a fresh object
	fresh := constructLib(s.spec)
	ferr := fresh.sign(s.spec.Ext(), s.ss...)
	uerr := s.m.sign(s.spec.Ext(), s.ss...)
	if (ferr == nil) != (uerr == nil) {
		if e := fail("C01+C20:signing-after-a-refused-attempt-differs", "step %d: after a failed signing attempt the %v is signed with outcome %v, a fresh object made from the same description with outcome %v", step, s.spec.Kind, uerr, ferr); e != nil {
			return e
		}
	}
	if uerr != nil {
		for _, p := range s.sigs() {
			*p = nil
		}
		return nil
	}
	s.signed, s.valid, s.from, s.tamper = true, true, nil, false
	if a, b := mustMarshal(s.m), mustMarshal(fresh); s.deterministic() && !bytes.Equal(a, b) {
		if e := fail("C01+C08:signing-after-a-refused-attempt-differs", "step %d: after a failed signing attempt the %v encodes to other bytes than a fresh object signed with the same keys\nused =%x\nfresh=%x", step, s.spec.Kind, a, b); e != nil {
			return e
		}
	}
	stats.Class("ws/refused/sign/second-attempt-signed")
	return nil
}

func mustMarshal(m *libMsg) []byte {
	b, err := m.marshal()
	if err != nil {
		return nil
	}
	return b
}

// deterministic: every signer of the object produces the same signature for the same input
// (Ed25519 keys held natively).
func (s *wsSlot) deterministic() bool {
	for _, sg := range s.spec.Sigs {
		if sg.Key.Alg != refcose.AlgEdDSA {
			return false
		}
	}
	return len(s.spec.Sigs) > 0
}

// wsCountersignRefused: countersigning with a key that fails returns nothing usable and leaves the parent alone.
func wsCountersignRefused(step int, op wsOp, s *wsSlot, slots []*wsSlot, fail wsFailFn) error {
	before := wsDumpAll(slots)
	csS, err := libSigner(wsCsKey, false)
	if err != nil {
		return err
	}
	fs := wsFailSigner{Signer: csS, partial: op.B%2 == 1}
	rnd := refcose.NewEntropy([]byte("ws-cs-fail"))
	if (op.B/2)%2 == 1 {
		sig, err := cose.Countersign0(rnd, fs, s.m.parent(op.B%4 < 2), nil)
		if err == nil || len(sig) != 0 {
			if e := fail("C20:signer-error-lost", "step %d: Countersign0 with a failing key returns (%x, %v)", step, sig, err); e != nil {
				return e
			}
		}
	} else {
		obj := cose.NewCountersignature()
		obj.Headers.Protected.SetAlgorithm(cose.AlgorithmEdDSA)
		err := obj.Sign(rnd, fs, s.m.parent(op.B%4 < 2), nil)
		if err == nil || len(obj.Signature) != 0 {
			if e := fail("C20:signer-error-lost", "step %d: Countersignature.Sign with a failing key returns %v and leaves signature %x", step, err, obj.Signature); e != nil {
				return e
			}
		}
		if out, merr := obj.MarshalCBOR(); merr == nil {
			if e := fail("C20:unsigned-countersignature-encodable", "step %d: %x", step, out); e != nil {
				return e
			}
		}
	}
	stats.Class("ws/refused/countersign")
	return wsUnchanged(slots, before, fail, "C18+C19+C10:refused-operation-changed-object", "a refused countersigning call", step)
}

// wsMaps lists the header maps of an object (body and signers) as map pointers.
func wsMaps(s *wsSlot) []uintptr {
	var out []uintptr
	add := func(h *cose.Headers) {
		if h.Protected != nil {
			out = append(out, reflect.ValueOf(h.Protected).Pointer())
		}
		if h.Unprotected != nil {
			out = append(out, reflect.ValueOf(h.Unprotected).Pointer())
		}
	}
	add(s.m.headers())
	if s.m.sm != nil {
		for _, sg := range s.m.sm.Signatures {
			if sg != nil {
				add(&sg.Headers)
			}
		}
	}
	return out
}

// wsNoSharedMaps: what a decoder has just produced shares no header map with any other object
// (nor two of its own layers with each other): a map is mutable, and the library itself writes
// into header maps when it signs.
func wsNoSharedMaps(step int, fresh *wsSlot, slots []*wsSlot, fail wsFailFn) error {
	mine := wsMaps(fresh)
	seen := map[uintptr]bool{}
	for _, p := range mine {
		if seen[p] {
			return fail("C18+C19:decoded-layers-share-a-map", "step %d: two header buckets of one freshly decoded %v are the same Go map", step, fresh.spec.Kind)
		}
		seen[p] = true
	}
	for i, o := range slots {
		if o == fresh {
			continue
		}
		for _, p := range wsMaps(o) {
			if seen[p] {
				if e := fail("C18+C19:decoded-objects-share-a-map", "step %d: a header bucket of the %v just decoded is the same Go map as a bucket of object %d, which came out of an earlier constructor / decoder call", step, fresh.spec.Kind, i); e != nil {
					return e
				}
			}
		}
	}
	return nil
}

// wsDecodeDetachedInto: the encoding of src with its payload replaced by nil (detached content) arrives in a variable
// in use. The decoder accepts it; the variable then holds what a fresh variable would hold, and does not verify
// until the payload is supplied.
func wsDecodeDetachedInto(step int, src, dst *wsSlot, slots []*wsSlot, content int, fail wsFailFn) error {
	env, err := refcose.ParseEnv(src.spec.Kind, src.last)
	if err != nil {
		return nil
	}
	pl := env.Arr.Items[2]
	in := append([]byte{}, src.last[:pl.Start]...)
	in = append(in, 0xf6)
	in = append(in, src.last[pl.End:]...)
	buf := append([]byte{}, in...)
	var derr error
	switch {
	case dst.m.s1 != nil:
		derr = dst.m.s1.UnmarshalCBOR(buf)
	case dst.m.u1 != nil:
		derr = dst.m.u1.UnmarshalCBOR(buf)
	default:
		derr = dst.m.sm.UnmarshalCBOR(buf)
	}
	for i := range buf {
		buf[i] ^= 0x5a
	}
	if derr != nil {
		if e := fail("C07:detached-form-refused", "step %d: the %v decoder refuses a message whose payload is nil: %v\n%x", step, dst.spec.Kind, derr, in); e != nil {
			return e
		}
		return errStopHistory
	}
	fresh, err := decodeLib(src.spec.Kind, in)
	if err != nil {
		return errStopHistory
	}
	if a, b := wsDump(dst), bridge.DumpValue(fresh.s1)+bridge.DumpValue(fresh.u1)+bridge.DumpValue(fresh.sm); a != b {
		if e := fail("C19+C03:history-dependent", "step %d: decoding a message with detached payload into a used variable gives another value than decoding into a fresh one\nused =%s\nfresh=%s", step, a, b); e != nil {
			return e
		}
	}
	dst.spec, dst.ss, dst.vs = src.spec, src.ss, src.vs
	dst.dec, dst.pure, dst.pEdit, dst.uEdit, dst.tmpl, dst.shared = true, false, 0, 0, false, false
	dst.signed, dst.valid, dst.from, dst.tamper, dst.pre = true, false, append([]byte{}, in...), false, false
	dst.last, dst.cver, dst.csigs = nil, content, nil
	stats.Class("ws/decode-detached-into-used-variable")
	return wsNoSharedMaps(step, dst, slots, fail)
}
