package props

import (
	"bytes"
	"crypto"
	"crypto/ecdsa"
	"crypto/ed25519"
	"crypto/elliptic"
	"fmt"
	"math/big"
	"sync"
	"testing"

	cose "github.com/veraison/go-cose"

	"pgregory.net/rapid"
	"verifharness/bridge"

	"verifharness/gen"
	rc "verifharness/refcbor"
	"verifharness/refcose"
	"verifharness/stats"
)

// zeroCoordScalars: small private scalars whose public point has a coordinate
// with leading zero bytes (found by exhaustive search over d = 1..3*10^5,
// 1.5*10^5, 2*10^4 on P-256, P-384, P-521). x1/y1: one leading zero byte in
// x / y, x2/y2: two or more, xy: both coordinates.
var zeroCoordScalars = []struct {
	Curve int
	D     int64
	Class string
}{
	{256, 43, "y1"}, {256, 379, "x1"}, {256, 444, "y1"}, {256, 552, "x1"}, {256, 742, "y1"}, {256, 751, "x1"}, {256, 783, "x1"}, {256, 833, "x1"},
	{256, 997, "y1"}, {256, 1307, "y1"}, {256, 2376, "y2"}, {256, 40393, "x2"}, {256, 49350, "xy"}, {256, 61552, "y2"}, {256, 77299, "y2"},
	{256, 112756, "xy"}, {256, 116173, "x2"}, {256, 120189, "y2"}, {256, 120908, "xy"}, {256, 124396, "xy"}, {256, 136425, "xy"}, {256, 162290, "y2"}, {256, 209780, "x2"},
	{384, 176, "y1"}, {384, 197, "x1"}, {384, 234, "x1"}, {384, 463, "x1"}, {384, 550, "x1"}, {384, 831, "y1"}, {384, 1069, "x1"}, {384, 1163, "y1"},
	{384, 1247, "y1"}, {384, 1283, "y1"}, {384, 6394, "xy"}, {384, 10184, "xy"}, {384, 14971, "x2"}, {384, 40603, "x2"}, {384, 64109, "x2"}, {384, 64159, "xy"},
	{384, 93150, "y2"}, {384, 108595, "xy"}, {384, 119438, "y2"}, {384, 142047, "x2"},
	{521, 1, "x1"}, {521, 2, "xy"}, {521, 4, "xy"}, {521, 5, "x1"}, {521, 7, "xy"}, {521, 8, "x1"}, {521, 9, "y1"}, {521, 11, "xy"}, {521, 13, "x1"},
	{521, 14, "y1"}, {521, 15, "x1"}, {521, 16, "y1"}, {521, 17, "y1"}, {521, 20, "y1"}, {521, 30, "xy"}, {521, 73, "y2"}, {521, 273, "x2"},
	{521, 351, "x2"}, {521, 555, "x2"}, {521, 819, "x2"}, {521, 968, "y2"}, {521, 1010, "x2"}, {521, 1195, "y2"}, {521, 1463, "y2"}, {521, 2946, "y2"},
}

// bigZeroCoordScalars: P-521 scalars with exactly one leading zero byte in d whose public point has
// two leading zero bytes in x (d1x2) or y (d1y2) (search over d = 2^519 + i, i < 20000): the shapes
// where the coordinates are shorter than the private scalar.
var bigZeroCoordScalars = []struct {
	Curve int
	D     string
	Class string
}{
	{521, "8000000000000000000000000000000000000000000000000000000000000000000000000000000000000000000000000000000000000000000000000000000001", "d1x2"},
	{521, "8000000000000000000000000000000000000000000000000000000000000000000000000000000000000000000000000000000000000000000000000000000126", "d1x2"},
	{521, "8000000000000000000000000000000000000000000000000000000000000000000000000000000000000000000000000000000000000000000000000000000164", "d1x2"},
	{521, "8000000000000000000000000000000000000000000000000000000000000000000000000000000000000000000000000000000000000000000000000000000286", "d1y2"},
	{521, "80000000000000000000000000000000000000000000000000000000000000000000000000000000000000000000000000000000000000000000000000000003c2", "d1y2"},
	{521, "8000000000000000000000000000000000000000000000000000000000000000000000000000000000000000000000000000000000000000000000000000000954", "d1y2"},
}

type c14Case struct {
	Curve   int    `json:"curve"`            // 256, 384, 521; 0 = Ed25519
	D       rc.Hex `json:"d"`                // private scalar (big-endian, exactly as used) or Ed25519 seed
	XZero   bool   `json:"x_zero,omitempty"` // the point (0, sqrt(b)) (public key only)
	PubX    rc.Hex `json:"pub_x,omitempty"`  // public key only: the point with this x coordinate (and the odd / even y)
	PubYOdd bool   `json:"pub_y_odd,omitempty"`
	// InMemX / InMemY: a COSE_Key assembled with NewKeyEC2 from coordinates of these few octets (as big.Int.Bytes()
	// leaves very small numbers): only the serialised size of the coordinates is judged
	InMemX  rc.Hex  `json:"in_mem_x,omitempty"`
	InMemY  rc.Hex  `json:"in_mem_y,omitempty"`
	Kid     rc.Hex  `json:"kid,omitempty"`
	Ops     []int64 `json:"ops,omitempty"`
	HasOps  bool    `json:"has_ops,omitempty"`
	BaseIV  rc.Hex  `json:"base_iv,omitempty"`
	Extra   []rc.KV `json:"extra,omitempty"`
	Message rc.Hex  `json:"message"`
}

func curveOf(n int) elliptic.Curve {
	switch n {
	case 256:
		return elliptic.P256()
	case 384:
		return elliptic.P384()
	}
	return elliptic.P521()
}

func leadingZeros(b []byte) int {
	n := 0
	for _, x := range b {
		if x != 0 {
			break
		}
		n++
	}
	return n
}

func (c *c14Case) decorate(k *cose.Key) {
	if c.Kid != nil {
		k.ID = append([]byte{}, c.Kid...)
	}
	if c.HasOps {
		k.Ops = []cose.KeyOp{}
		for _, o := range c.Ops {
			k.Ops = append(k.Ops, cose.KeyOp(o))
		}
	}
	if c.BaseIV != nil {
		k.BaseIV = append([]byte{}, c.BaseIV...)
	}
	for _, e := range c.Extra {
		k.Params[bridgeToGo(e.K)] = bridgeToGo(e.V)
	}
}

func opsAllow(c *c14Case, op int64) bool {
	if !c.HasOps {
		return true
	}
	for _, o := range c.Ops {
		if o == op {
			return true
		}
	}
	return false
}

// c14PriorKeys: serialised keys (one with every optional member: kid, alg, key_ops,
// Base IV, an unknown parameter; one symmetric) that a Key variable held before
// it is reused.
var c14PriorKeys = sync.OnceValue(func() [][]byte {
	x := make([]byte, 32)
	x[0] = 1
	full := cose.Key{Type: cose.KeyTypeOKP, ID: []byte("prior"), Algorithm: cose.AlgorithmEdDSA, Ops: []cose.KeyOp{cose.KeyOpVerify}, BaseIV: []byte{9, 9},
		Params: map[any]any{cose.KeyLabelOKPCurve: cose.CurveEd25519, cose.KeyLabelOKPX: x, int64(-70): "prior"}}
	b1, err := full.MarshalCBOR()
	if err != nil {
		panic(err)
	}
	b2, err := cose.NewKeySymmetric([]byte("prior-symmetric-key-material-123")).MarshalCBOR()
	if err != nil {
		panic(err)
	}
	return [][]byte{b1, b2}
})

// checkC14: Go key -> COSE_Key -> bytes -> COSE_Key -> Go key is the identity,
// x and y are serialised at full field size, and the derived signer/verifier
// interoperate (also with the reference verifier).
func checkC14(c c14Case) error {
	if len(c.InMemX) > 0 || len(c.InMemY) > 0 {
		curve := curveOf(c.Curve)
		size := (curve.Params().BitSize + 7) / 8
		alg := map[int]cose.Algorithm{256: cose.AlgorithmES256, 384: cose.AlgorithmES384, 521: cose.AlgorithmES512}[c.Curve]
		k, err := cose.NewKeyEC2(alg, append([]byte{}, c.InMemX...), append([]byte{}, c.InMemY...), nil)
		if err != nil {
			stats.Class("in-memory-tiny-coordinates-refused")
			return nil
		}
		b, err := k.MarshalCBOR()
		if err != nil {
			stats.Class("in-memory-tiny-coordinates-refused")
			return nil
		}
		nt := false
		if err := c14CheckCoords(b, c.Curve, size, &nt); err != nil {
			return err
		}
		var back cose.Key
		if err := back.UnmarshalCBOR(b); err != nil {
			return finding("own-key-rejected", "Key.UnmarshalCBOR rejects Key.MarshalCBOR output: %v\n%x", err, b)
		}
		if re, err := back.MarshalCBOR(); err != nil || !bytes.Equal(re, b) {
			return finding("key-reencode", "decoded key re-encodes differently (err=%v)\n in=%x\nout=%x", err, b, re)
		}
		stats.Class("in-memory-tiny-coordinates")
		return nil
	}
	var priv crypto.Signer
	var pub crypto.PublicKey
	size := 32
	alg := refcose.AlgEdDSA
	if c.Curve == 0 {
		seed := make([]byte, 32)
		copy(seed, c.D)
		p := ed25519.NewKeyFromSeed(seed)
		priv, pub = p, p.Public()
	} else {
		curve := curveOf(c.Curve)
		size = (curve.Params().BitSize + 7) / 8
		alg = map[int]int64{256: refcose.AlgES256, 384: refcose.AlgES384, 521: refcose.AlgES512}[c.Curve]
		if len(c.PubX) > 0 {
			y := c14YFor(curve, new(big.Int).SetBytes(c.PubX), c.PubYOdd)
			if y == nil {
				return fmt.Errorf("harness: no point with x=%x on P-%d", []byte(c.PubX), c.Curve)
			}
			pub = &ecdsa.PublicKey{Curve: curve, X: new(big.Int).SetBytes(c.PubX), Y: y}
		} else if c.XZero {
			p := curve.Params()
			y := new(big.Int).ModSqrt(p.B, p.P)
			if y == nil {
				return fmt.Errorf("harness: b is not a square on P-%d", c.Curve)
			}
			pub = &ecdsa.PublicKey{Curve: curve, X: new(big.Int), Y: y}
		} else {
			d := new(big.Int).SetBytes(c.D)
			buf := make([]byte, size)
			d.FillBytes(buf)
			x, y := curve.ScalarBaseMult(buf)
			pk := &ecdsa.PrivateKey{PublicKey: ecdsa.PublicKey{Curve: curve, X: x, Y: y}, D: d}
			priv, pub = pk, &pk.PublicKey
		}
	}
	nt := false
	// ---- public half
	kp, err := cose.NewKeyFromPublic(pub)
	if err != nil {
		return finding("from-public-refused", "NewKeyFromPublic: %v", err)
	}
	c.decorate(kp)
	bp, err := kp.MarshalCBOR()
	if err != nil {
		return finding("marshal-refused", "public COSE_Key does not encode: %v", err)
	}
	if err := c14CheckCoords(bp, c.Curve, size, &nt); err != nil {
		return err
	}
	var kp2 cose.Key
	if err := kp2.UnmarshalCBOR(append([]byte{}, bp...)); err != nil {
		return finding("own-key-rejected", "Key.UnmarshalCBOR rejects Key.MarshalCBOR output: %v\n%x", err, bp)
	}
	pub2, err := kp2.PublicKey()
	if err != nil {
		return finding("public-key-lost", "PublicKey() on the decoded key fails: %v\n%x", err, bp)
	}
	if !refcose.PublicEqual(pub, pub2) {
		return finding("public-key-changed", "public key changed in the round trip\n%x", bp)
	}
	if re, err := kp2.MarshalCBOR(); err != nil || !bytes.Equal(re, bp) {
		return finding("key-reencode", "decoded key re-encodes differently (err=%v)\n in=%x\nout=%x", err, bp, re)
	}
	if c.XZero || len(c.PubX) > 0 {
		stats.Class("x-zero-point")
		return nil
	}
	// ---- private half
	ks, err := cose.NewKeyFromPrivate(priv)
	if err != nil {
		return finding("from-private-refused", "NewKeyFromPrivate: %v", err)
	}
	c.decorate(ks)
	bs, err := ks.MarshalCBOR()
	if err != nil {
		return finding("marshal-refused", "private COSE_Key does not encode: %v", err)
	}
	if err := c14CheckCoords(bs, c.Curve, size, &nt); err != nil {
		return err
	}
	var ks2 cose.Key
	if err := ks2.UnmarshalCBOR(append([]byte{}, bs...)); err != nil {
		return finding("own-key-rejected", "Key.UnmarshalCBOR rejects Key.MarshalCBOR output (private key): %v\n%x", err, bs)
	}
	// parsing into a Key variable that held another key before gives the same key
	for _, prior := range c14PriorKeys() {
		var used cose.Key
		if err := used.UnmarshalCBOR(prior); err != nil {
			return fmt.Errorf("harness: prior key: %v", err)
		}
		for _, in := range [][]byte{bs, bp} {
			var fresh cose.Key
			if err := fresh.UnmarshalCBOR(append([]byte{}, in...)); err != nil {
				return finding("own-key-rejected", "%v", err)
			}
			if err := used.UnmarshalCBOR(append([]byte{}, in...)); err != nil {
				return finding("parse-depends-on-destination", "parsing into a Key that held another key before fails: %v\n%x", err, in)
			}
			if a, b := bridge.DumpValue(&used), bridge.DumpValue(&fresh); a != b {
				return finding("parse-depends-on-destination", "parsing a serialised key into a Key variable that held another key before gives a different key than parsing into a fresh one\nused =%s\nfresh=%s\n%x", a, b, in)
			}
		}
		if _, err := used.PublicKey(); err != nil {
			return finding("public-key-lost", "PublicKey() on a key parsed into a used variable fails: %v", err)
		}
	}
	stats.Class("parsed-into-used-variable")
	priv2, err := ks2.PrivateKey()
	if err != nil {
		return finding("private-key-lost", "PrivateKey() on the decoded key fails: %v\n%x", err, bs)
	}
	type eq interface{ Equal(crypto.PrivateKey) bool }
	if e, ok := priv.(eq); !ok || !e.Equal(priv2) {
		return finding("private-key-changed", "private key changed in the round trip\n%x", bs)
	}
	if pub3, err := ks2.PublicKey(); err != nil || !refcose.PublicEqual(pub, pub3) {
		return finding("public-key-changed", "public half of the decoded private key differs (err=%v)", err)
	}
	if re, err := ks2.MarshalCBOR(); err != nil || !bytes.Equal(re, bs) {
		return finding("key-reencode", "decoded private key re-encodes differently (err=%v)", err)
	}
	// kid / ops / base IV / extra parameters survive
	for _, k := range []*cose.Key{&kp2, &ks2} {
		if !bytes.Equal(k.ID, c.Kid) || !bytes.Equal(k.BaseIV, c.BaseIV) || len(k.Ops) != len(c.Ops) || (c.HasOps && k.Ops == nil) {
			return finding("common-parameters-changed", "kid / key_ops / Base IV changed: got id=%x iv=%x ops=%v", k.ID, k.BaseIV, k.Ops)
		}
	}
	// ---- signer from the private COSE_Key, verifier from the public one
	sg, serr := ks2.Signer()
	vf, verr := kp2.Verifier()
	if opsAllow(&c, 1) != (serr == nil) {
		return finding("signer-gate", "Signer(): err=%v with key_ops=%v (present=%v)", serr, c.Ops, c.HasOps)
	}
	if opsAllow(&c, 2) != (verr == nil) {
		return finding("verifier-gate", "Verifier(): err=%v with key_ops=%v (present=%v)", verr, c.Ops, c.HasOps)
	}
	if serr == nil {
		if int64(sg.Algorithm()) != alg {
			return finding("signer-alg", "signer algorithm %v", sg.Algorithm())
		}
		sig, err := sg.Sign(refcose.NewEntropy([]byte("c14")), c.Message)
		if err != nil {
			return finding("sign-fails", "signer from COSE_Key fails: %v", err)
		}
		if !refcose.Verify(alg, pub, c.Message, sig) {
			return finding("ref-verify", "reference verifier (original Go key) rejects the signature made by the signer from the COSE_Key")
		}
		if verr == nil {
			if err := vf.Verify(c.Message, sig); err != nil {
				return finding("verify-fails", "verifier from the public COSE_Key rejects the signature of the signer from the private COSE_Key: %v", err)
			}
			stats.Class("signed-and-verified")
		}
		// the same signer object again: after a call that failed (entropy source broken) and with another message
		_, ferr := sg.Sign(&faultyReader{inner: refcose.NewEntropy(nil), left: 0}, append([]byte("failed call: "), c.Message...))
		msg3 := append([]byte("third message: "), c.Message...)
		sig3, err := sg.Sign(refcose.NewEntropy([]byte("c14-3")), msg3)
		if err != nil {
			return finding("sign-fails", "signer from COSE_Key fails on its third call: %v", err)
		}
		if !refcose.Verify(alg, pub, msg3, sig3) {
			return finding("ref-verify/signer-reused", "the signer from the COSE_Key signs something else than the message it is given once an earlier call on it has failed (failed call returned %v)", ferr)
		}
		if verr == nil {
			if err := vf.Verify(msg3, sig3); err != nil {
				return finding("verify-fails/signer-reused", "verifier from the public COSE_Key rejects the third signature of the same signer object: %v", err)
			}
		}
		stats.Class("signer-reused-after-failed-call")
	}
	if verr == nil {
		// a reference-made signature is accepted too
		rsig := refcose.Sign(alg, refcose.KeyMat{Alg: alg, Curve: c.Curve, D: keyMatD(c)}, c.Message, []byte("c14ref"))
		if err := vf.Verify(c.Message, rsig); err != nil {
			return finding("verify-fails", "verifier from the public COSE_Key rejects a reference-made signature: %v", err)
		}
	}
	if c.Curve != 0 {
		db := make([]byte, size)
		new(big.Int).SetBytes(c.D).FillBytes(db)
		if leadingZeros(db) > 0 {
			nt = true
			stats.Class("leading-zero/d")
		}
	}
	stats.Class(fmt.Sprintf("curve/%d", c.Curve))
	if nt || c.Curve == 0 {
		stats.NTBytes([]byte(fmt.Sprint(c.Curve)), c.D)
	}
	return nil
}

// keyMatD converts the exact scalar to the KeyMat convention (d-1, reduced later).
func keyMatD(c c14Case) rc.Hex {
	if c.Curve == 0 {
		return c.D
	}
	d := new(big.Int).SetBytes(c.D)
	d.Sub(d, big.NewInt(1))
	return d.Bytes()
}

func c14CheckCoords(b []byte, curve, size int, nt *bool) error {
	n, err := rc.Parse(b)
	if err != nil || n.Major != 5 {
		return finding("key-not-a-map", "encoded key is not a CBOR map: %x", b)
	}
	if is := rc.DeterminismIssues(n); len(is) > 0 {
		return finding("key-not-deterministic", "encoded key is not deterministic CBOR: %+v\n%x", is, b)
	}
	if curve == 0 {
		if x := n.Lookup(-2); x == nil || x.Major != 2 || len(x.Content) != 32 {
			return finding("okp-x-length", "OKP x is not 32 bytes: %x", b)
		}
		return nil
	}
	for _, l := range []int64{-2, -3} {
		v := n.Lookup(l)
		if v == nil || v.Major != 2 {
			return finding("coordinate-missing", "label %d missing from the encoded EC2 key: %x", l, b)
		}
		if len(v.Content) != size {
			key := "coordinate-length"
			if len(v.Content) == 0 {
				key = "coordinate-length/zero-coordinate"
			}
			return finding(key, "label %d is serialised with %d bytes, the field size is %d\n%x", l, len(v.Content), size, b)
		}
		if z := leadingZeros(v.Content); z > 0 {
			*nt = true
			name := map[int64]string{-2: "x", -3: "y"}[l]
			if z >= 2 {
				stats.Class("leading-zero/" + name + ">=2")
			}
			stats.Class("leading-zero/" + name)
		}
	}
	return nil
}

func init() { register("c14", checkC14) }

func bridgeToGo(v rc.Val) any { return bridgeToGoImpl(v) }

func genC14Case(t *rapid.T) c14Case {
	c := c14Case{Message: gen.Blob(t, "msg", rapid.IntRange(0, 64).Draw(t, "msglen"))}
	if c.Message == nil {
		c.Message = rc.Hex{}
	}
	cls := rapid.IntRange(0, 9).Draw(t, "keyclass")
	switch {
	case cls == 0:
		c.Curve = 0
		c.D = rapid.SliceOfN(rapid.Byte(), 32, 32).Draw(t, "seed")
	case cls == 1:
		e := rapid.SampledFrom(bigZeroCoordScalars).Draw(t, "bigtable")
		d, _ := new(big.Int).SetString(e.D, 16)
		c.Curve, c.D = e.Curve, d.Bytes()
	case cls <= 4:
		// a scalar whose public point has a short coordinate, or its negation (same x, full-size d)
		e := rapid.SampledFrom(zeroCoordScalars).Draw(t, "table")
		c.Curve = e.Curve
		d := big.NewInt(e.D)
		if rapid.Bool().Draw(t, "negate") {
			d.Sub(curveOf(e.Curve).Params().N, d)
		}
		c.D = d.Bytes()
	case cls <= 6:
		// d itself with leading zero bytes
		c.Curve = rapid.SampledFrom([]int{256, 384, 521}).Draw(t, "curve")
		size := (c.Curve + 7) / 8
		k := rapid.IntRange(1, size-1).Draw(t, "d-zero-bytes")
		b := rapid.SliceOfN(rapid.Byte(), size-k, size-k).Draw(t, "d-short")
		d := new(big.Int).SetBytes(b)
		if d.Sign() == 0 {
			d.SetInt64(1)
		}
		c.D = d.Bytes()
	default:
		c.Curve = rapid.SampledFrom([]int{256, 256, 384, 521}).Draw(t, "curve")
		n := curveOf(c.Curve).Params().N
		d := new(big.Int).SetBytes(rapid.SliceOfN(rapid.Byte(), 66, 66).Draw(t, "d-any"))
		d.Mod(d, new(big.Int).Sub(n, big.NewInt(1)))
		d.Add(d, big.NewInt(1))
		if rapid.IntRange(0, 9).Draw(t, "d-edge") == 0 {
			d = rapid.SampledFrom([]*big.Int{big.NewInt(1), big.NewInt(2), new(big.Int).Sub(n, big.NewInt(1)), new(big.Int).Sub(n, big.NewInt(2))}).Draw(t, "edge")
		}
		c.D = d.Bytes()
	}
	if rapid.IntRange(0, 2).Draw(t, "haskid") == 0 {
		c.Kid = rapid.SliceOfN(rapid.Byte(), 0, 8).Draw(t, "kid")
		if c.Kid == nil {
			c.Kid = rc.Hex{}
		}
	}
	if rapid.IntRange(0, 2).Draw(t, "hasops") == 0 {
		c.HasOps = true
		c.Ops = rapid.SampledFrom([][]int64{{1}, {2}, {1, 2}, {2, 1}, {3}, {1, 2, 3, 4, 5, 6, 7, 8, 9, 10}, {}}).Draw(t, "ops")
	}
	if rapid.IntRange(0, 3).Draw(t, "hasiv") == 0 {
		c.BaseIV = rapid.SliceOfN(rapid.Byte(), 1, 8).Draw(t, "baseiv")
	}
	switch rapid.IntRange(0, 11).Draw(t, "extra-odd") {
	case 0:
		// a text label that spells the number of a label the key also has (text and integer labels are different labels)
		c.Extra = append(c.Extra, rc.E(rc.Text(rapid.SampledFrom([]string{"-1", "-2", "-3", "-4", "1", "2", "3", "4", "5", "0", ""}).Draw(t, "elabel-numeric")), gen.Leaf(t, gen.ValOpts{})))
		stats.Class("extra/text-label-spelling-a-number")
		return c
	case 1:
		// an integer label next to the text label that spells it
		l := int64(rapid.SampledFrom([]int{-70001, -7, 6, 99, 65536}).Draw(t, "twin-label"))
		c.Extra = append(c.Extra, rc.E(rc.Int(l), gen.Leaf(t, gen.ValOpts{})), rc.E(rc.Text(fmt.Sprint(l)), gen.Leaf(t, gen.ValOpts{})))
		stats.Class("extra/integer-and-text-twin")
		return c
	case 2:
		// many parameters (whatever limit an implementation places on the number of map entries)
		n := rapid.SampledFrom([]int{9, 10, 11, 12, 13, 14, 15, 16, 17, 20, 30, 33, 64, 65, 130}).Draw(t, "many-extra")
		for i := 0; i < n; i++ {
			if i%2 == 0 {
				c.Extra = append(c.Extra, rc.E(rc.Int(int64(1000+i)), rc.Int(int64(i))))
			} else {
				c.Extra = append(c.Extra, rc.E(rc.Text(fmt.Sprintf("p%d", i)), rc.Bytes([]byte{byte(i)})))
			}
		}
		stats.Class("extra/many-parameters")
		return c
	}
	if rapid.IntRange(0, 3).Draw(t, "hasextra") == 0 {
		if rapid.Bool().Draw(t, "extra-text") {
			c.Extra = append(c.Extra, rc.E(rc.Text(rapid.StringMatching(`[a-z]{1,6}`).Draw(t, "elabel")), gen.Leaf(t, gen.ValOpts{})))
		} else {
			l := int64(rapid.IntRange(-70000, 70000).Draw(t, "ilabel"))
			if l < -6 || l > 5 {
				c.Extra = append(c.Extra, rc.E(rc.Int(l), gen.Leaf(t, gen.ValOpts{})))
			}
		}
	}
	return c
}

func TestC14_Keys(t *testing.T) {
	begin(t, "C14", "keys")
	prop(t, func(rt *rapid.T) {
		c := genC14Case(rt)
		stats.Eval()
		if len(c.Extra) == 0 {
			stats.Sample(fmt.Sprintf("key/%d", c.Curve), map[string]any{"curve": c.Curve, "d": c.D, "ops": c.Ops, "kid": c.Kid})
		}
		judge(rt, "c14", c, checkC14)
	})
}

// c14YFor returns the y with the wanted parity such that (x, y) is on the curve, or nil.
func c14YFor(curve elliptic.Curve, x *big.Int, odd bool) *big.Int {
	p := curve.Params()
	if x.Cmp(p.P) >= 0 {
		return nil
	}
	// y^2 = x^3 - 3x + b
	rhs := new(big.Int).Exp(x, big.NewInt(3), p.P)
	rhs.Sub(rhs, new(big.Int).Mul(x, big.NewInt(3)))
	rhs.Add(rhs, p.B)
	rhs.Mod(rhs, p.P)
	y := new(big.Int).ModSqrt(rhs, p.P)
	if y == nil {
		return nil
	}
	if (y.Bit(0) == 1) != odd {
		y.Sub(p.P, y)
	}
	if !curve.IsOnCurve(x, y) {
		return nil
	}
	return y
}

// TestC14_Table runs every tabulated short-coordinate scalar (and its
// negation) and the x = 0 points.
func TestC14_Table(t *testing.T) {
	begin(t, "C14", "table")
	n := 0
	for _, e := range zeroCoordScalars {
		for _, neg := range []bool{false, true} {
			d := big.NewInt(e.D)
			if neg {
				d.Sub(curveOf(e.Curve).Params().N, d)
			}
			c := c14Case{Curve: e.Curve, D: d.Bytes(), Message: rc.Hex("table")}
			n++
			stats.Eval()
			stats.Class("table/" + e.Class)
			judge(t, "c14", c, checkC14)
		}
	}
	for _, e := range bigZeroCoordScalars {
		d, _ := new(big.Int).SetString(e.D, 16)
		n++
		stats.Eval()
		stats.Class("table/" + e.Class)
		judge(t, "c14", c14Case{Curve: e.Curve, D: d.Bytes(), Message: rc.Hex("table")}, checkC14)
	}
	for _, cv := range []int{256, 384, 521} {
		n++
		stats.Eval()
		judge(t, "c14", c14Case{Curve: cv, XZero: true, Message: rc.Hex{}}, checkC14)
	}
	// keys assembled in memory from coordinates of one or two octets
	for _, cv := range []int{256, 384, 521} {
		for _, xy := range [][2][]byte{{{5}, {7}}, {{1, 2}, {3}}, {{9}, {1, 0}}, {{0xff}, {0xff, 0xff, 0xff}}, {bytes.Repeat([]byte{1}, 31), {2}}} {
			n++
			stats.Eval()
			judge(t, "c14", c14Case{Curve: cv, InMemX: xy[0], InMemY: xy[1], Message: rc.Hex{}}, checkC14)
		}
	}
	// private scalars at the ends of their range, and Ed25519 seeds that are all zero / all ones / a counter
	for _, cv := range []int{256, 384, 521} {
		nn := curveOf(cv).Params().N
		for _, d := range []*big.Int{big.NewInt(1), big.NewInt(2), big.NewInt(3), new(big.Int).Sub(nn, big.NewInt(1)), new(big.Int).Sub(nn, big.NewInt(2)), new(big.Int).Rsh(nn, 1)} {
			n++
			stats.Eval()
			stats.Class("table/extreme-private-scalar")
			judge(t, "c14", c14Case{Curve: cv, D: d.Bytes(), Message: rc.Hex("extreme")}, checkC14)
		}
	}
	for _, seed := range [][]byte{make([]byte, 32), bytes.Repeat([]byte{0xff}, 32), bytes.Repeat([]byte{0x01}, 32), append(make([]byte, 31), 1), append([]byte{0x80}, make([]byte, 31)...)} {
		n++
		stats.Eval()
		stats.Class("table/extreme-ed25519-seed")
		judge(t, "c14", c14Case{Curve: 0, D: seed, Message: rc.Hex("extreme")}, checkC14)
	}
	// public keys whose x coordinate lies at the ends of the field and around the group order n (n < p on all
	// three curves: the x values in [n, p) are valid coordinates that no random key will ever show)
	for _, cv := range []int{256, 384, 521} {
		p := curveOf(cv).Params()
		for _, base := range []struct {
			from *big.Int
			step int64
			name string
		}{{big.NewInt(1), 1, "x-smallest"}, {new(big.Int).Sub(p.P, big.NewInt(1)), -1, "x-largest"}, {new(big.Int).Set(p.N), 1, "x-from-group-order-up"}, {new(big.Int).Sub(p.N, big.NewInt(1)), -1, "x-below-group-order"}} {
			found := 0
			for k := int64(0); k < 200 && found < 6; k++ {
				x := new(big.Int).Add(base.from, big.NewInt(k*base.step))
				for _, odd := range []bool{false, true} {
					if c14YFor(curveOf(cv), x, odd) == nil {
						continue
					}
					n++
					found++
					stats.Eval()
					stats.Class("table/public-point/" + base.name)
					judge(t, "c14", c14Case{Curve: cv, PubX: x.Bytes(), PubYOdd: odd, Message: rc.Hex{}}, checkC14)
				}
			}
		}
	}
	stats.ExhaustivePart("tabulated short-coordinate keys", n)
}
