package props

import (
	"bytes"
	"crypto"
	"fmt"
	"strings"
	"testing"

	cose "github.com/veraison/go-cose"
	"pgregory.net/rapid"

	"verifharness/bridge"
	"verifharness/gen"
	"verifharness/refcose"
	"verifharness/stats"
)

// The key workspace: the counterpart of the message workspace for COSE_Key
// objects. A generated history over several Key objects - convert from Go keys,
// serialise, parse into new or used variables, ask for verifiers and signers,
// edit the object in place (other public point of the same curve, x or d
// removed, key_ops replaced), overwrite caller-owned buffers - with a model
// that knows which key material and which restrictions every object holds NOW.
// Attribution: serialisation / round-trip clauses -> C14; what a key may yield
// (restrictions follow the current state, right algorithm, right material) ->
// C15; "encoding or asking never modifies the key" -> C18.

type kwOp struct {
	Op string `json:"op"`
	A  int    `json:"a,omitempty"`
	B  int    `json:"b,omitempty"`
}

type kwCase struct {
	Mats []refcose.KeyMat `json:"mats"`
	Ops  []kwOp           `json:"ops"`
}

type kwSlot struct {
	k        *cose.Key
	pub      int // index of the material whose public point the object holds (-1: none)
	priv     int // ... whose private scalar / seed it holds (-1: none)
	alg      int64
	ops      []int64
	hasOps   bool
	pristine bool // converted / parsed and never edited
	last     []byte
}

func kwAllows(s *kwSlot, op int64) bool {
	if !s.hasOps {
		return true
	}
	for _, o := range s.ops {
		if o == op {
			return true
		}
	}
	return false
}

func checkKeyWorkspaceFor(c kwCase, only string) error {
	fail := func(key, format string, args ...any) error {
		if only == "" || strings.Contains(key[:strings.Index(key, ":")], only) {
			return finding(key, format, args...)
		}
		stats.Class("kw/finding-of-another-property-left-to-its-own-run")
		return nil
	}
	var slots []*kwSlot
	var buffers [][]byte
	var outs, outCopies [][]byte // serialiser outputs exactly as returned, next to private copies
	msg := []byte("key workspace message")
	pick := func(i int) *kwSlot {
		if len(slots) == 0 {
			return nil
		}
		return slots[i%len(slots)]
	}
	refSig := func(mi int, tag string) []byte {
		return refcose.Sign(c.Mats[mi].Alg, c.Mats[mi], msg, []byte(tag))
	}
	for step, op := range c.Ops {
		switch op.Op {
		case "new-public", "new-private":
			if len(slots) >= 6 {
				continue
			}
			mi := op.A % len(c.Mats)
			var k *cose.Key
			var err error
			s := &kwSlot{pub: mi, priv: -1, alg: c.Mats[mi].Alg, pristine: true}
			if op.Op == "new-public" {
				k, err = cose.NewKeyFromPublic(c.Mats[mi].Public())
			} else {
				k, err = cose.NewKeyFromPrivate(c.Mats[mi].Private())
				s.priv = mi
			}
			if err != nil {
				if e := fail("C14:conversion-refused", "step %d: %s of a supported key fails: %v", step, op.Op, err); e != nil {
					return e
				}
				continue
			}
			s.k = k
			slots = append(slots, s)
			stats.Class("kw/" + op.Op)
		case "marshal":
			s := pick(op.A)
			if s == nil {
				continue
			}
			before := bridge.Dump(s.k)
			b1, err := s.k.MarshalCBOR()
			if after := bridge.Dump(s.k); after != before {
				if e := fail("C18:marshal-modifies-key", "step %d: Key.MarshalCBOR changed the key object\nbefore=%s\n after=%s", step, before, after); e != nil {
					return e
				}
			}
			if err != nil {
				if s.pub >= 0 || s.priv >= 0 {
					if e := fail("C14:marshal-refused", "step %d: a key that holds key material cannot be serialised: %v", step, err); e != nil {
						return e
					}
				}
				continue
			}
			if s.pub < 0 && s.priv < 0 {
				// an object stripped of all key material is no key any more: what the serialiser does with it
				// (it writes it out, the parser refuses it) is outside the statement
				stats.Class("kw/marshal-of-empty-key-not-judged")
				continue
			}
			b2, err := s.k.MarshalCBOR()
			if err != nil || !bytes.Equal(b1, b2) {
				if e := fail("C14:serialisation-unstable", "step %d: two serialisations of the same key object differ (err=%v)\n%x\n%x", step, err, b1, b2); e != nil {
					return e
				}
			}
			var k2 cose.Key
			if err := k2.UnmarshalCBOR(append([]byte{}, b1...)); err != nil {
				if e := fail("C14:own-key-rejected", "step %d: Key.UnmarshalCBOR rejects Key.MarshalCBOR output: %v\n%x", step, err, b1); e != nil {
					return e
				}
				continue
			}
			if b3, err := k2.MarshalCBOR(); err != nil || !bytes.Equal(b3, b1) {
				if e := fail("C14:key-reencode", "step %d: the parsed key serialises differently (err=%v)\n in=%x\nout=%x", step, err, b1, b3); e != nil {
					return e
				}
			}
			s.last = append([]byte{}, b1...)
			for i := range outs {
				if !bytes.Equal(outs[i], outCopies[i]) {
					if e := fail("C14:serialiser-output-overwritten", "step %d: bytes returned by an earlier Key.MarshalCBOR changed when another key was serialised\nreturned=%x\n     now=%x", step, outCopies[i], outs[i]); e != nil {
						return e
					}
					outCopies[i] = append([]byte{}, outs[i]...)
				}
			}
			outs, outCopies = append(outs, b1), append(outCopies, append([]byte{}, b1...))
			stats.Class("kw/marshal")
		case "unmarshal-new", "unmarshal-into":
			src := pick(op.A)
			if src == nil || src.last == nil {
				continue
			}
			buf := append([]byte{}, src.last...)
			buffers = append(buffers, buf)
			dst := &kwSlot{k: &cose.Key{}}
			if op.Op == "unmarshal-into" {
				if dst = pick(op.B); dst == nil {
					continue
				}
			} else if len(slots) >= 8 {
				continue
			}
			if err := dst.k.UnmarshalCBOR(buf); err != nil {
				if e := fail("C14:own-key-rejected", "step %d: Key.UnmarshalCBOR rejects an earlier Key.MarshalCBOR output: %v\n%x", step, err, buf); e != nil {
					return e
				}
				return nil
			}
			var fresh cose.Key
			if err := fresh.UnmarshalCBOR(append([]byte{}, src.last...)); err == nil {
				if a, b := bridge.DumpValue(dst.k), bridge.DumpValue(&fresh); a != b {
					if e := fail("C14:parse-depends-on-destination", "step %d: parsing into a used Key variable gives another key than parsing into a fresh one\nused =%s\nfresh=%s", step, a, b); e != nil {
						return e
					}
				}
			}
			k := dst.k
			*dst = *src
			dst.k, dst.last = k, nil
			if op.Op == "unmarshal-new" {
				slots = append(slots, dst)
			}
			stats.Class("kw/" + op.Op)
		case "verifier":
			s := pick(op.A)
			if s == nil {
				continue
			}
			before := bridge.Dump(s.k)
			v, err := s.k.Verifier()
			if after := bridge.Dump(s.k); after != before {
				if e := fail("C18:verifier-modifies-key", "step %d: Key.Verifier() changed the key object\nbefore=%s\n after=%s", step, before, after); e != nil {
					return e
				}
			}
			want := s.pub >= 0 && kwAllows(s, 2)
			if (err == nil) != want {
				if err == nil {
					why := "it holds no public point"
					if s.pub >= 0 {
						why = "its key_ops do not include verify"
					}
					if e := fail("C15:verifier-against-current-state", "step %d: Key.Verifier() succeeds although the key object, as it is now, must not yield one (%s)", step, why); e != nil {
						return e
					}
				} else if e := fail("C14+C15:verifier-refused", "step %d: Key.Verifier() fails (%v) although the key holds a public point and may verify", step, err); e != nil {
					return e
				}
				continue
			}
			if err != nil {
				continue
			}
			if int64(v.Algorithm()) != s.alg {
				if e := fail("C15:verifier-algorithm", "step %d: verifier reports %v, the key fixes %d", step, v.Algorithm(), s.alg); e != nil {
					return e
				}
			}
			if verr := v.Verify(msg, refSig(s.pub, "kw")); verr != nil {
				if e := fail("C14+C15:verifier-of-other-key", "step %d: the verifier obtained from the key rejects a signature made with the key material the object holds now: %v", step, verr); e != nil {
					return e
				}
			}
			for mi := range c.Mats {
				if mi != s.pub && c.Mats[mi].Alg == s.alg {
					if v.Verify(msg, refSig(mi, "kw")) == nil {
						if e := fail("C15:verifier-of-other-key", "step %d: the verifier obtained from the key accepts a signature made with other key material (material %d, the object holds %d)", step, mi, s.pub); e != nil {
							return e
						}
					}
				}
			}
			stats.Class("kw/verifier")
		case "signer":
			s := pick(op.A)
			if s == nil {
				continue
			}
			before := bridge.Dump(s.k)
			sg, err := s.k.Signer()
			if after := bridge.Dump(s.k); after != before {
				if e := fail("C18:signer-modifies-key", "step %d: Key.Signer() changed the key object", step); e != nil {
					return e
				}
			}
			ec := c.Mats[maxInt(s.priv, 0)].Family() == "ec"
			want := s.priv >= 0 && kwAllows(s, 1) && (!ec || s.pub >= 0)
			if (err == nil) != want {
				if err == nil {
					if e := fail("C15:signer-against-current-state", "step %d: Key.Signer() succeeds although the key object, as it is now, must not yield one (private material: %v, key_ops: %v / %v)", step, s.priv >= 0, s.hasOps, s.ops); e != nil {
						return e
					}
				} else if e := fail("C14+C15:signer-refused", "step %d: Key.Signer() fails (%v) although the key holds private material and may sign", step, err); e != nil {
					return e
				}
				continue
			}
			if err != nil {
				continue
			}
			if int64(sg.Algorithm()) != s.alg {
				if e := fail("C15:signer-algorithm", "step %d: signer reports %v, the key fixes %d", step, sg.Algorithm(), s.alg); e != nil {
					return e
				}
			}
			sig, err := sg.Sign(refcose.NewEntropy([]byte("kw")), msg)
			if err != nil {
				if e := fail("C14:sign-fails", "step %d: %v", step, err); e != nil {
					return e
				}
				continue
			}
			if ec || s.pub == s.priv || s.pub < 0 {
				// (an Ed25519 private key with a foreign public half signs for nobody; not asserted)
				if !refcose.Verify(s.alg, c.Mats[s.priv].Public(), msg, sig) {
					if e := fail("C14+C15:signer-of-other-key", "step %d: the signature of the signer obtained from the key is not valid under the private material the object holds now", step); e != nil {
						return e
					}
				}
			}
			stats.Class("kw/signer")
		case "roundtrip-go":
			// converting back yields the Go key (only for objects nobody edited)
			s := pick(op.A)
			if s == nil || !s.pristine {
				continue
			}
			pk, err := s.k.PublicKey()
			if err != nil || !refcose.PublicEqual(pk, c.Mats[s.pub].Public()) {
				if e := fail("C14:public-key-changed", "step %d: PublicKey() of an unedited key object is not the Go key it was made from (err=%v)", step, err); e != nil {
					return e
				}
			}
			if s.priv >= 0 {
				sk, err := s.k.PrivateKey()
				type eq interface{ Equal(crypto.PrivateKey) bool }
				if e2, ok := c.Mats[s.priv].Private().(eq); err != nil || !ok || !e2.Equal(sk) {
					if e := fail("C14:private-key-changed", "step %d: PrivateKey() of an unedited key object is not the Go key it was made from (err=%v)", step, err); e != nil {
						return e
					}
				}
			}
			stats.Class("kw/roundtrip-go")
		case "edit-swap-public":
			s := pick(op.A)
			mi := op.B % len(c.Mats)
			if s == nil || s.pub < 0 || c.Mats[mi].Alg != s.alg || c.Mats[mi].Curve != c.Mats[s.pub].Curve {
				continue
			}
			k2, err := cose.NewKeyFromPublic(c.Mats[mi].Public())
			if err != nil {
				continue
			}
			for _, l := range []int64{-2, -3} {
				if v, ok := k2.Params[l]; ok {
					s.k.Params[l] = v
				}
			}
			s.pub, s.pristine, s.last = mi, false, nil
			stats.Class("kw/edit-swap-public")
		case "edit-drop-x", "edit-drop-d":
			s := pick(op.A)
			if s == nil {
				continue
			}
			if op.Op == "edit-drop-x" {
				delete(s.k.Params, int64(-2))
				s.pub = -1
			} else {
				delete(s.k.Params, int64(-4))
				s.priv = -1
			}
			s.pristine, s.last = false, nil
			stats.Class("kw/" + op.Op)
		case "edit-ops":
			s := pick(op.A)
			if s == nil {
				continue
			}
			variants := [][]int64{nil, {}, {1}, {2}, {1, 2}, {2, 2, 7}, {7, 8}}
			v := variants[op.B%len(variants)]
			s.hasOps, s.ops = v != nil, v
			s.k.Ops = nil
			if v != nil {
				s.k.Ops = make([]cose.KeyOp, 0, 8)
				for _, o := range v {
					s.k.Ops = append(s.k.Ops, cose.KeyOp(o))
				}
			}
			s.pristine, s.last = false, nil
			stats.Class("kw/edit-ops")
		case "scribble":
			if len(buffers) == 0 {
				continue
			}
			var before []string
			for _, s := range slots {
				before = append(before, bridge.Dump(s.k))
			}
			b := buffers[op.A%len(buffers)]
			for i := range b {
				b[i] ^= 0x5a
			}
			for i, s := range slots {
				if after := bridge.Dump(s.k); after != before[i] {
					if e := fail("C14:key-aliases-caller-buffer", "step %d: overwriting a buffer the caller owns (an earlier parser input or serialiser output) changed key object %d", step, i); e != nil {
						return e
					}
				}
			}
			stats.Class("kw/scribble")
		}
	}
	return nil
}

func checkKeyWorkspace(c kwCase) error { return checkKeyWorkspaceFor(c, "") }

func init() { register("kw", checkKeyWorkspace) }

func genKeyWorkspace(t *rapid.T) kwCase {
	c := kwCase{}
	alg := rapid.SampledFrom([]int64{refcose.AlgES256, refcose.AlgES256, refcose.AlgES384, refcose.AlgES512, refcose.AlgEdDSA, refcose.AlgEdDSA}).Draw(t, "alg")
	n := rapid.IntRange(2, 3).Draw(t, "nmats")
	for i := 0; i < n; i++ {
		a := alg
		if i == 2 && rapid.Bool().Draw(t, "other-alg") {
			a = rapid.SampledFrom([]int64{refcose.AlgES256, refcose.AlgEdDSA, refcose.AlgES384}).Draw(t, "alg2")
		}
		c.Mats = append(c.Mats, gen.KeyMat(t, a))
	}
	names := []string{"new-public", "new-private", "new-private", "marshal", "marshal", "unmarshal-new", "unmarshal-into", "verifier", "verifier", "signer", "signer",
		"roundtrip-go", "edit-swap-public", "edit-swap-public", "edit-drop-x", "edit-drop-d", "edit-ops", "edit-ops", "scribble"}
	c.Ops = append(c.Ops, kwOp{Op: "new-private"}, kwOp{Op: "new-public", A: 1})
	k := rapid.IntRange(4, 24).Draw(t, "nops")
	for i := 0; i < k; i++ {
		c.Ops = append(c.Ops, kwOp{Op: rapid.SampledFrom(names).Draw(t, "op"), A: rapid.IntRange(0, 7).Draw(t, "a"), B: rapid.IntRange(0, 7).Draw(t, "b")})
	}
	return c
}

func runKeyWorkspace(t *testing.T, prop_ string) {
	begin(t, prop_, "keyworkspace")
	prop(t, func(rt *rapid.T) {
		c := genKeyWorkspace(rt)
		stats.Eval()
		judge(rt, "kw", c, func(c kwCase) error {
			err := safely(func() error { return checkKeyWorkspaceFor(c, prop_) })
			if f, ok := err.(*Finding); ok && f.Key != "panic" {
				return &Finding{Key: "keyworkspace/" + f.Key[strings.Index(f.Key, ":")+1:], Msg: f.Msg}
			}
			return err
		})
		distinct := map[string]bool{}
		for _, op := range c.Ops {
			distinct[op.Op] = true
		}
		if len(distinct) >= 4 {
			stats.NTBytes([]byte(fmt.Sprintf("%+v %+v", c.Mats, c.Ops)))
			if len(c.Ops) <= 8 {
				stats.Sample("keyworkspace", c.Ops)
			}
		}
	})
}

func TestC14_KeyWorkspace(t *testing.T) { runKeyWorkspace(t, "C14") }
func TestC15_KeyWorkspace(t *testing.T) { runKeyWorkspace(t, "C15") }
func TestC18_KeyWorkspace(t *testing.T) { runKeyWorkspace(t, "C18") }
