package props

import (
	"bytes"
	"encoding/json"
	"fmt"
	"sort"
	"testing"

	cose "github.com/veraison/go-cose"
	"pgregory.net/rapid"

	"verifharness/bridge"
	"verifharness/gen"
	rc "verifharness/refcbor"
	"verifharness/refcose"
	"verifharness/stats"
)

// ---------------------------------------------------------------------------
// constructed messages: what the Signer is handed

type c02ConCase struct {
	Spec gen.MsgSpec `json:"spec"`
}

func checkC02Constructed(c c02ConCase) error {
	r, err := runConstructed(&c.Spec, false)
	if err != nil {
		return err
	}
	if r.skip != "" {
		stats.Class("refused/" + shortErr(fmt.Errorf("%s", r.skip)))
		return nil
	}
	if r.corrupted() {
		return finding("tbs-unstable-while-in-use", "the bytes handed to a signer / verifier changed while the key was still using them (another library operation ran in between)")
	}
	if len(r.libTBS) != len(r.refTBS) {
		return finding("tbs-count", "library made %d signing calls, reference %d", len(r.libTBS), len(r.refTBS))
	}
	var all [][]byte
	wheres := make([]string, 0, len(r.refTBS))
	for where := range r.refTBS {
		wheres = append(wheres, where)
	}
	sort.Strings(wheres)
	for _, where := range wheres {
		want := r.refTBS[where]
		got, ok := r.libTBS[where]
		if !ok {
			return finding("tbs-missing", "no signing call recorded for %s", where)
		}
		if !bytes.Equal(got, want) {
			return finding("tbs-mismatch", "%s: ToBeSigned differs from the RFC structure\n got=%x\nwant=%x", where, got, want)
		}
		all = append(all, got)
		classifyTBS(where, got)
	}
	stats.NTBytes(all...)
	// metamorphic: tagged vs untagged message, and nil vs empty external data,
	// hand the signer identical bytes
	if c.Spec.Kind != refcose.KSign {
		alt := c.Spec
		if alt.Kind == refcose.KSign1 {
			alt.Kind = refcose.KSign1Untagged
		} else {
			alt.Kind = refcose.KSign1
		}
		if len(alt.Ext()) == 0 {
			alt.ExtNil = !alt.ExtNil
			alt.External = nil
		}
		alt.Unprot = rc.Map(rc.E(rc.Text("only-unprotected"), rc.Int(1)))
		r2, err := runConstructed(&alt, true)
		if err != nil {
			return err
		}
		if r2.skip != "" || !bytes.Equal(r2.libTBS["msg"], r.libTBS["msg"]) {
			return finding("tbs-metamorphic", "tag / nil-vs-empty external / unprotected headers changed ToBeSigned (skip=%q)\n a=%x\n b=%x", r2.skip, r.libTBS["msg"], r2.libTBS["msg"])
		}
		stats.Class("metamorphic-tag-ext-unprotected")
	}
	// the one-shot helpers: what the signer is handed is the structure over the protected
	// bytes of the message the helper returns
	if c.Spec.Kind != refcose.KSign && len(c.Spec.Sigs) == 1 {
		for variant := 0; variant < 2; variant++ {
			h := bridge.Headers(c.Spec.Prot, c.Spec.Unprot)
			if len(c.Spec.Prot.M) == 0 {
				// an empty protected bucket may be a nil map or an empty one
				h.Protected = nil
				if variant == 1 {
					h.Protected = cose.ProtectedHeader{}
				}
			} else if variant == 1 {
				break
			}
			spy := &bridge.SpySigner{Alg: cose.Algorithm(c.Spec.Sigs[0].Key.Alg), Inner: dummySig}
			var wire []byte
			var err error
			rnd := refcose.NewEntropy(nil)
			if c.Spec.Kind == refcose.KSign1 {
				wire, err = cose.Sign1(rnd, spy, h, c.Spec.Payload, c.Spec.Ext())
			} else {
				wire, err = cose.Sign1Untagged(rnd, spy, h, c.Spec.Payload, c.Spec.Ext())
			}
			if err != nil {
				stats.Class("helper-refused/" + shortErr(err))
				continue
			}
			env, err := refcose.ParseEnv(c.Spec.Kind, wire)
			if err != nil {
				return finding("helper-output-unparseable", "%v: %x", err, wire)
			}
			payload, _ := env.PayloadBytes()
			want := refcose.SigStructure1(env.ProtContent(), c.Spec.Ext(), payload)
			if got := spy.Last(); !bytes.Equal(got, want) {
				return finding("tbs-mismatch/helper", "one-shot helper for %v: the signer was handed a structure over other protected bytes / payload than the returned message carries\n got=%x\nwant=%x\nwire=%x", c.Spec.Kind, got, want, wire)
			}
			if !bytes.Equal(env.Sig.Content, dummySig(want)) {
				return finding("tbs-mismatch/helper", "one-shot helper: returned signature is not the signer's output")
			}
			stats.Class(fmt.Sprintf("helper/%v/protected-nil=%v", c.Spec.Kind, h.Protected == nil))
		}
	}
	stats.Class("constructed/" + c.Spec.Kind.String())
	return nil
}

func classifyTBS(where string, tbs []byte) {
	n, err := rc.Parse(tbs)
	if err != nil || n.Major != 4 || len(n.Items) < 2 {
		return
	}
	ctx := string(n.Items[0].Content)
	stats.Class("context/" + ctx)
	stats.Sample("tbs/"+ctx, map[string]any{"signing_operation": where, "to_be_signed": rc.Hex(tbs)})
	// protected fields are items 1 (and 2 for Signature / countersignatures)
	for i := 1; i < len(n.Items) && i <= 2; i++ {
		if n.Items[i].Major != 2 {
			continue
		}
		if ctx == "Signature1" && i == 2 {
			break
		}
		switch l := len(n.Items[i].Content); {
		case l == 0:
			stats.Class("protected-len/0")
		case l < 24:
			stats.Class("protected-len/<24")
		case l < 256:
			stats.Class("protected-len/24-255")
		default:
			stats.Class("protected-len/>=256")
		}
	}
	var i int
	if k, _ := fmt.Sscanf(where, "sig[%d]", &i); k == 1 && i >= 2 {
		stats.Class("signer-index>=2")
	}
}

func init() { register("c02con", checkC02Constructed) }

func TestC02_Constructed(t *testing.T) {
	begin(t, "C02", "constructed")
	prop(t, func(rt *rapid.T) {
		o := c08Opts() // NaN/Inf excluded: bytes are compared with the reference encoding
		o.MaxSigners = 6
		c := c02ConCase{Spec: gen.Msg(rt, o)}
		stats.Eval()
		judge(rt, "c02con", c, checkC02Constructed)
	})
}

// ---------------------------------------------------------------------------
// decoded messages: what the Verifier is handed

// checkC02Decoded: for a message decoded from any accepted encoding, the
// bytes the verifier sees are the RFC structure over the received protected
// bytes (content verbatim, only the bstr head normalised).
func checkC02Decoded(c wireCase) error {
	env, err := refcose.ParseEnv(c.Spec.Kind, c.Wire)
	if err != nil {
		return finding("harness-inconsistent", "reference cannot parse its own message: %v", err)
	}
	m, err := decodeLib(c.Spec.Kind, c.Wire)
	if err != nil {
		return finding("rejected", "conforming message rejected: %v\nwire=%x", err, []byte(c.Wire))
	}
	if c.Spec.Detached {
		*m.payload() = append([]byte{}, c.Spec.Payload...)
	}
	ext := c.Spec.Ext()
	var spies []*bridge.SpyVerifier
	var vs []cose.Verifier
	for _, s := range c.Spec.Sigs {
		sv := &bridge.SpyVerifier{Alg: cose.Algorithm(s.Key.Alg), Reenter: reenterLibrary}
		spies = append(spies, sv)
		vs = append(vs, sv)
	}
	if err := m.verify(ext, vs...); err != nil {
		return finding("spy-verify-error", "Verify with accepting spy verifiers failed: %v", err)
	}
	for i, sv := range spies {
		if sv.Corrupted {
			return finding("tbs-unstable-while-in-use", "the bytes handed to verifier %d changed while it was still using them (another library operation ran in between)", i)
		}
	}
	// a COSE_Signature decoded on its own from the caller's buffer, which is then reused
	if c.Spec.Kind == refcose.KSign {
		for i := range c.Spec.Sigs {
			buf := append([]byte{}, env.Sigs[i].Root.Raw()...)
			var sg cose.Signature
			if err := sg.UnmarshalCBOR(buf); err != nil {
				return finding("rejected", "stand-alone COSE_Signature rejected: %v", err)
			}
			for j := range buf {
				buf[j] ^= 0x5a
			}
			sv := &bridge.SpyVerifier{Alg: cose.Algorithm(c.Spec.Sigs[i].Key.Alg)}
			bp, _ := m.sm.Headers.MarshalProtected()
			if err := sg.Verify(sv, bp, c.Spec.Payload, ext); err != nil {
				return finding("spy-verify-error", "Signature.Verify with an accepting spy failed: %v", err)
			}
			want := refcose.SigStructure(env.ProtContent(), env.Sigs[i].ProtContent(), ext, c.Spec.Payload)
			if !bytes.Equal(sv.Last().Content, want) {
				return finding("tbs-mismatch", "stand-alone decoded Signature %d (input buffer reused afterwards): ToBeSigned differs\n got=%x\nwant=%x", i, sv.Last().Content, want)
			}
			stats.Class("decoded/standalone-signature-buffer-reused")
		}
	}
	noncanon := len(rc.DeterminismIssues(env.Root)) > 0
	var ntParts [][]byte
	for i, sv := range spies {
		if sv.NCalls() != 1 {
			return finding("verifier-calls", "verifier %d called %d times", i, sv.NCalls())
		}
		var want []byte
		var sigBytes []byte
		if c.Spec.Kind == refcose.KSign {
			want = refcose.SigStructure(env.ProtContent(), env.Sigs[i].ProtContent(), ext, c.Spec.Payload)
			sigBytes = env.Sigs[i].Sig.Content
			if !env.Sigs[i].Prot.MinimalHead() {
				stats.Class("decoded/non-minimal-protected-head")
				noncanon = true
			}
		} else {
			want = refcose.SigStructure1(env.ProtContent(), ext, c.Spec.Payload)
			sigBytes = env.Sig.Content
		}
		if !env.Prot.MinimalHead() {
			stats.Class("decoded/non-minimal-protected-head")
			noncanon = true
		}
		got := sv.Last()
		if !bytes.Equal(got.Content, want) {
			return finding("tbs-mismatch", "verifier %d: ToBeSigned differs from the RFC structure over the received bytes\n got=%x\nwant=%x\nwire=%x", i, got.Content, want, []byte(c.Wire))
		}
		if !bytes.Equal(got.Sig, sigBytes) {
			return finding("sig-mismatch", "verifier %d was handed signature %x, wire has %x", i, got.Sig, sigBytes)
		}
		classifyTBS(fmt.Sprintf("sig[%d]", i), got.Content)
		if pm := env.ProtMap; pm != nil && len(rc.DeterminismIssues(pm)) > 0 {
			stats.Class("decoded/non-canonical-inner-map")
			noncanon = true
		}
		if noncanon {
			ntParts = append(ntParts, got.Content)
		}
	}
	if len(ntParts) > 0 {
		stats.NTBytes(ntParts...)
	}
	// the tag contributes nothing: the same body decoded by the other Sign1
	// decoder yields the same bytes
	if c.Spec.Kind == refcose.KSign1 || c.Spec.Kind == refcose.KSign1Untagged {
		var altWire []byte
		altKind := refcose.KSign1Untagged
		if c.Spec.Kind == refcose.KSign1 {
			altWire = c.Wire[1:]
		} else {
			altWire = append([]byte{0xd2}, c.Wire...)
			altKind = refcose.KSign1
		}
		m2, err := decodeLib(altKind, altWire)
		if err != nil {
			return finding("retag-rejected", "re-tagged message rejected: %v", err)
		}
		if c.Spec.Detached {
			*m2.payload() = append([]byte{}, c.Spec.Payload...)
		}
		sv := &bridge.SpyVerifier{Alg: cose.Algorithm(c.Spec.Sigs[0].Key.Alg)}
		altExt := ext
		if len(ext) == 0 {
			if ext == nil {
				altExt = []byte{}
			} else {
				altExt = nil
			}
		}
		if err := m2.verify(altExt, sv); err != nil {
			return finding("spy-verify-error", "Verify of re-tagged message failed: %v", err)
		}
		if !bytes.Equal(sv.Last().Content, spies[0].Last().Content) {
			return finding("tbs-metamorphic", "tag or nil/empty external changed ToBeSigned\n a=%x\n b=%x", spies[0].Last().Content, sv.Last().Content)
		}
		stats.Class("metamorphic-tag-ext")
	}
	// the payload buffer of the same message object is rewritten in place (a detached payload read into a
	// reused buffer): the next Verify hands the verifier the structure over the bytes that are there now
	if pl := *m.payload(); len(pl) > 0 && m.sm == nil {
		pl[len(pl)/2] ^= 0x77
		sv := &bridge.SpyVerifier{Alg: cose.Algorithm(c.Spec.Sigs[0].Key.Alg)}
		if err := m.verify(ext, sv); err != nil {
			return finding("spy-verify-error", "second Verify with an accepting spy failed: %v", err)
		}
		want := refcose.SigStructure1(env.ProtContent(), ext, pl)
		if !bytes.Equal(sv.Last().Content, want) {
			return finding("tbs-mismatch/payload-rewritten-in-place", "second Verify of the same message object after its payload buffer was rewritten in place: ToBeSigned is not the structure over the current payload\n got=%x\nwant=%x", sv.Last().Content, want)
		}
		pl[len(pl)/2] ^= 0x77
		stats.Class("decoded/verified-again-after-payload-rewritten-in-place")
	}
	// the decoded message is kept as a value copy while the variable it was decoded into receives
	// another message whose protected header has the same length: the copy still stands for the
	// bytes it was decoded from
	if sib := sameLenProtected(len(env.ProtContent())); sib != nil {
		root, err := rc.MParse(c.Wire, false)
		if err != nil {
			return fmt.Errorf("harness: %v", err)
		}
		arr := root
		if c.Spec.Kind != refcose.KSign1Untagged {
			arr = root.Child
		}
		arr.Items[0].Bytes = sib
		sibWire := root.Enc()
		kept := &libMsg{kind: m.kind}
		var derr error
		switch {
		case m.s1 != nil:
			cp := *m.s1
			kept.s1 = &cp
			derr = m.s1.UnmarshalCBOR(sibWire)
		case m.u1 != nil:
			cp := *m.u1
			kept.u1 = &cp
			derr = m.u1.UnmarshalCBOR(sibWire)
		default:
			cp := *m.sm
			kept.sm = &cp
			derr = m.sm.UnmarshalCBOR(sibWire)
		}
		if derr != nil {
			return finding("rejected", "sibling message (same envelope, other protected header of equal length) rejected: %v\nwire=%x", derr, sibWire)
		}
		var vs2 []cose.Verifier
		var spies2 []*bridge.SpyVerifier
		for _, sg := range c.Spec.Sigs {
			sv := &bridge.SpyVerifier{Alg: cose.Algorithm(sg.Key.Alg)}
			spies2 = append(spies2, sv)
			vs2 = append(vs2, sv)
		}
		if err := kept.verify(ext, vs2...); err != nil {
			return finding("spy-verify-error", "Verify of a value copy failed after its original variable received another message: %v", err)
		}
		for i := range spies2 {
			if !bytes.Equal(spies2[i].Last().Content, spies[i].Last().Content) {
				return finding("tbs-mismatch/value-copy-after-redecode", "verifier %d: a value copy of the decoded message yields another ToBeSigned after the variable it was decoded into received another message\nbefore=%x\n after=%x", i, spies[i].Last().Content, spies2[i].Last().Content)
			}
		}
		stats.Class("decoded/value-copy-verified-after-variable-reuse")
	}
	stats.Class("decoded/" + c.Spec.Kind.String())
	return nil
}

// sameLenProtected returns the encoding of some valid protected map ({text label: bstr}) that is
// exactly n bytes long (nil when n is too small to hold one).
func sameLenProtected(n int) []byte {
	for a := 1; a <= 3; a++ {
		for _, hw := range []int{1, 2, 3} {
			k := n - 1 - (1 + a) - hw
			if k < 0 || (hw == 1 && k >= 24) || (hw == 2 && (k < 24 || k > 255)) || (hw == 3 && (k < 256 || k > 65535)) {
				continue
			}
			out := []byte{0xa1, byte(0x60 + a)}
			out = append(out, []byte("zzz")[:a]...)
			switch hw {
			case 1:
				out = append(out, byte(0x40+k))
			case 2:
				out = append(out, 0x58, byte(k))
			default:
				out = append(out, 0x59, byte(k>>8), byte(k))
			}
			for i := 0; i < k; i++ {
				out = append(out, 0xee)
			}
			return out
		}
	}
	return nil
}

func init() { register("c02dec", checkC02Decoded) }

func TestC02_Decoded(t *testing.T) {
	begin(t, "C02", "decoded")
	prop(t, func(rt *rapid.T) {
		o := c07Opts()
		o.Csigs = false
		a := refcose.AlgEdDSA
		o.FixedAlg = &a
		c, _ := genWireCase(rt, o, true)
		stats.Eval()
		judge(rt, "c02dec", c, checkC02Decoded)
	})
}

// ---------------------------------------------------------------------------
// user-supplied raw protected bytes

type c02RawCase struct {
	Kind     refcose.Kind `json:"kind"` // KSign1 or KSign
	Prot     rc.Val       `json:"prot"`
	RawProt  rc.Hex       `json:"raw_prot"` // complete bstr item (any head width)
	SigProt  rc.Hex       `json:"sig_prot"` // complete bstr item for the signer layer (Sign)
	SigMap   rc.Val       `json:"sig_map"`
	Payload  rc.Hex       `json:"payload"`
	External rc.Hex       `json:"external"`
	Alg      int64        `json:"alg"`
	// ViaMessage: the signer layer is signed through SignMessage.Sign (body RawProtected on the message)
	ViaMessage bool `json:"via_message,omitempty"`
	MirrorMap  bool `json:"mirror_map,omitempty"`
	// Framed: the body's protected item and the payload are two windows of ONE buffer of the caller
	// (protected item first, content right behind it), as a caller that frames its own messages holds them
	Framed bool `json:"framed,omitempty"`
	// Annotated: the Protected map next to the raw bytes carries one more entry than the raw bytes (an
	// application note); the documentation says the map is ignored when RawProtected is set
	Annotated bool `json:"annotated,omitempty"`
}

// frame lays the protected item and the payload out in one buffer and returns the two windows.
func (c *c02RawCase) frame() (frame, rawProt, payload []byte) {
	if !c.Framed {
		return nil, append([]byte{}, c.RawProt...), c.Payload
	}
	frame = append(append([]byte{}, c.RawProt...), c.Payload...)
	n := len(c.RawProt)
	return frame, frame[:n], frame[n:]
}

func checkC02Raw(c c02RawCase) error {
	spy := &bridge.SpySigner{Alg: cose.Algorithm(c.Alg)}
	rnd := refcose.NewEntropy(nil)
	bodyN, err := rc.Parse(c.RawProt)
	if err != nil {
		return fmt.Errorf("bad case: %v", err)
	}
	var want []byte
	frame, rawProt, payload := c.frame()
	frameWas := append([]byte{}, frame...)
	annotate := func(p cose.ProtectedHeader) cose.ProtectedHeader {
		if c.Annotated {
			if p == nil {
				p = cose.ProtectedHeader{}
			}
			p["noted-by-the-application"] = int64(1)
			stats.Class("raw/map-has-more-than-the-raw-bytes")
		}
		return p
	}
	if c.Framed {
		stats.Class("raw/framed-in-one-caller-buffer")
	}
	if c.Kind == refcose.KSign1 {
		m := &cose.Sign1Message{Headers: cose.Headers{RawProtected: rawProt, Protected: annotate(bridge.ToProtected(c.Prot))}, Payload: payload}
		if err := m.Sign(rnd, c.External, spy); err != nil {
			stats.Class("refused/" + shortErr(err))
			return nil
		}
		want = refcose.SigStructure1(bodyN.Content, c.External, c.Payload)
		sv := &bridge.SpyVerifier{Alg: cose.Algorithm(c.Alg)}
		if err := m.Verify(c.External, sv); err != nil {
			return finding("spy-verify-error", "Sign1Message.Verify with an accepting spy failed right after Sign: %v", err)
		}
		if !bytes.Equal(sv.Last().Content, want) {
			return finding("tbs-mismatch", "user-supplied raw protected bytes: the verifier was handed other bytes than the RFC structure\n got=%x\nwant=%x", sv.Last().Content, want)
		}
		if len(bodyN.Content) == 0 {
			stats.Class("raw/empty-bucket-next-to-a-filled-map")
		}
	} else {
		sigN, err := rc.Parse(c.SigProt)
		if err != nil {
			return fmt.Errorf("bad case: %v", err)
		}
		s := &cose.Signature{Headers: cose.Headers{RawProtected: append([]byte{}, c.SigProt...), Protected: bridge.ToProtected(c.SigMap)}}
		if c.ViaMessage {
			// through SignMessage.Sign / Verify with caller-supplied raw body header (map mirrored or left empty)
			sm := &cose.SignMessage{Headers: cose.Headers{RawProtected: rawProt}, Payload: payload, Signatures: []*cose.Signature{s}}
			if c.MirrorMap {
				sm.Headers.Protected = bridge.ToProtected(c.Prot)
			}
			sm.Headers.Protected = annotate(sm.Headers.Protected)
			if err := sm.Sign(rnd, c.External, spy); err != nil {
				stats.Class("refused/" + shortErr(err))
				return nil
			}
			sv := &bridge.SpyVerifier{Alg: cose.Algorithm(c.Alg)}
			if err := sm.Verify(c.External, sv); err != nil {
				return finding("spy-verify-error", "SignMessage.Verify with an accepting spy failed: %v", err)
			}
			if !bytes.Equal(sv.Last().Content, spy.Last()) {
				return finding("tbs-mismatch", "SignMessage with caller-supplied RawProtected: signer and verifier were handed different bytes\n sign=%x\nverify=%x", spy.Last(), sv.Last().Content)
			}
			stats.Class("raw/SignMessage")
		} else {
			if err := s.Sign(rnd, spy, rawProt, payload, c.External); err != nil {
				stats.Class("refused/" + shortErr(err))
				return nil
			}
			sv := &bridge.SpyVerifier{Alg: cose.Algorithm(c.Alg)}
			if err := s.Verify(sv, rawProt, payload, c.External); err != nil {
				return finding("spy-verify-error", "Signature.Verify with an accepting spy failed right after Sign: %v", err)
			}
			if !bytes.Equal(sv.Last().Content, spy.Last()) {
				return finding("tbs-mismatch", "Signature.Sign / Verify with a caller-supplied protected item: signer and verifier were handed different bytes\n sign=%x\nverify=%x", spy.Last(), sv.Last().Content)
			}
		}
		want = refcose.SigStructure(bodyN.Content, sigN.Content, c.External, c.Payload)
		if !sigN.MinimalHead() {
			stats.Class("raw/non-minimal-head")
		}
	}
	if !bytes.Equal(frame, frameWas) {
		return finding("caller-buffer-modified", "signing / verifying wrote into the caller's buffer that holds the protected item and, behind it, the content\n was=%x\n now=%x", frameWas, frame)
	}
	if spy.NCalls() != 1 {
		return finding("signer-calls", "signer called %d times", spy.NCalls())
	}
	if !bytes.Equal(spy.Last(), want) {
		return finding("tbs-mismatch", "user-supplied raw protected bytes: ToBeSigned differs\n got=%x\nwant=%x", spy.Last(), want)
	}
	if !bodyN.MinimalHead() {
		stats.Class("raw/non-minimal-head")
		stats.NTBytes(spy.Last())
	}
	stats.Class("raw/" + c.Kind.String())
	return nil
}

func init() { register("c02raw", checkC02Raw) }

func genC02RawCase(rt *rapid.T) c02RawCase {
	ch := &gen.RChooser{T: rt, Free: true}
	o := peerHdrOpts()
	o.MaxEntries = 12
	alg := rapid.SampledFrom([]int64{-7, -8, -37, -65535, 7}).Draw(rt, "alg")
	o.Alg = &alg
	c := c02RawCase{Alg: alg, Kind: rapid.SampledFrom([]refcose.Kind{refcose.KSign1, refcose.KSign}).Draw(rt, "kind")}
	c.Payload = gen.Blob(rt, "payload", gen.BoundaryLen(rt, "plen", false))
	if c.Payload == nil {
		c.Payload = rc.Hex{}
	}
	c.External = gen.Blob(rt, "ext", rapid.IntRange(0, 40).Draw(rt, "elen"))
	wrap := func(m rc.Val) []byte {
		var content []byte
		if len(m.M) > 0 {
			content = rc.Encode(m, ch)
		}
		return rc.Encode(rc.Bytes(content), ch)
	}
	c.Framed = rapid.IntRange(0, 2).Draw(rt, "framed") == 0
	c.Annotated = rapid.IntRange(0, 2).Draw(rt, "annotated") == 0
	if c.Kind == refcose.KSign1 {
		c.Prot, _ = gen.Headers(rt, o)
		c.RawProt = wrap(c.Prot)
		if rapid.IntRange(0, 3).Draw(rt, "empty-raw") == 0 {
			// the empty bucket in its shortest spelling, next to a map that names the algorithm
			c.RawProt = rc.Hex{0x40}
		}
	} else {
		bo := o
		bo.Alg = nil
		c.Prot, _ = gen.Headers(rt, bo)
		c.RawProt = wrap(c.Prot)
		c.SigMap, _ = gen.Headers(rt, o)
		c.SigProt = wrap(c.SigMap)
		c.ViaMessage = rapid.Bool().Draw(rt, "via-message")
		c.MirrorMap = rapid.Bool().Draw(rt, "mirror-map")
	}
	return c
}

func TestC02_Raw(t *testing.T) {
	begin(t, "C02", "raw")
	prop(t, func(rt *rapid.T) {
		c := genC02RawCase(rt)
		stats.Eval()
		judge(rt, "c02raw", c, checkC02Raw)
	})
}

var _ = json.Marshal

// ---------------------------------------------------------------------------
// the message VerifyHashEnvelope hands back is the received message: verifying it again (or countersigning,
// re-encoding) works on the protected bytes as they came in, whatever encoding the sender chose for them

type c02EnvCase struct {
	Alg     int64  `json:"alg"`
	ProtRaw rc.Hex `json:"prot_raw"` // complete bstr item of the protected bucket (peer's encoding choices)
	Unprot  rc.Val `json:"unprot"`
	Hash    rc.Hex `json:"hash"`
}

func checkC02Envelope(c c02EnvCase) error {
	pn, err := rc.Parse(c.ProtRaw)
	if err != nil {
		return fmt.Errorf("bad case: %v", err)
	}
	wire := append([]byte{0xd2, 0x84}, c.ProtRaw...)
	wire = append(wire, rc.Encode(c.Unprot, nil)...)
	wire = append(wire, rc.Encode(rc.Bytes(c.Hash), nil)...)
	wire = append(wire, 0x43, 1, 2, 3)
	want := refcose.SigStructure1(pn.Content, nil, c.Hash)
	sv := &bridge.SpyVerifier{Alg: cose.Algorithm(c.Alg)}
	msg, err := cose.VerifyHashEnvelope(sv, append([]byte{}, wire...))
	if err != nil {
		stats.Class("envelope-refused/" + shortErr(err))
		return nil
	}
	if !bytes.Equal(sv.Last().Content, want) {
		return finding("tbs-mismatch/envelope", "VerifyHashEnvelope handed the verifier other bytes than the Sig_structure over the received protected bytes\n got=%x\nwant=%x", sv.Last().Content, want)
	}
	sv2 := &bridge.SpyVerifier{Alg: cose.Algorithm(c.Alg)}
	if err := msg.Verify(nil, sv2); err != nil {
		return finding("spy-verify-error/envelope", "the message returned by VerifyHashEnvelope does not verify again with an accepting verifier: %v", err)
	}
	if !bytes.Equal(sv2.Last().Content, want) {
		return finding("tbs-mismatch/envelope-returned", "verifying the message VerifyHashEnvelope returned hands the verifier other bytes than the Sig_structure over the received protected bytes\n got=%x\nwant=%x\nwire=%x", sv2.Last().Content, want, wire)
	}
	// ... and a countersigner of the returned message is handed the received protected bytes, too
	spy := &bridge.SpySigner{Alg: cose.AlgorithmEdDSA}
	if _, err := cose.Countersign0(refcose.NewEntropy(nil), spy, msg, nil); err == nil {
		n, perr := rc.Parse(spy.Last())
		if perr != nil || len(n.Items) < 2 || !bytes.Equal(n.Items[1].Content, pn.Content) {
			return finding("tbs-mismatch/envelope-returned", "countersigning the message VerifyHashEnvelope returned covers other protected bytes than were received\n got=%x\nwant content=%x", spy.Last(), pn.Content)
		}
	}
	if len(rc.DeterminismIssues(mustParse(pn.Content))) > 0 || !pn.MinimalHead() {
		stats.NTBytes(want)
		stats.Class("envelope/non-canonical-protected-bytes")
	}
	stats.Class("envelope-returned-message-reverified")
	return nil
}

func init() { register("c02env", checkC02Envelope) }

func TestC02_EnvelopeReturned(t *testing.T) {
	begin(t, "C02", "envelope")
	prop(t, func(rt *rapid.T) {
		ch := &gen.RChooser{T: rt, Free: true}
		o := peerHdrOpts()
		o.MaxEntries = 6
		o.NoCty = true
		alg := rapid.SampledFrom([]int64{-7, -8, -37}).Draw(rt, "alg")
		o.Alg = &alg
		p, u := gen.Headers(rt, o)
		hashAlg := rapid.SampledFrom([]int64{-16, -43, -44}).Draw(rt, "hashalg")
		p = p.With(rc.Int(258), rc.Int(hashAlg))
		if rapid.Bool().Draw(rt, "location") {
			p = p.With(rc.Int(260), rc.Text("https://example.com/x"))
		}
		c := c02EnvCase{Alg: alg, Unprot: u, Hash: gen.Blob(rt, "hash", hashLen(hashAlg))}
		c.ProtRaw = rc.Encode(rc.Bytes(rc.Encode(p, ch)), ch)
		stats.Eval()
		judge(rt, "c02env", c, checkC02Envelope)
	})
}

// TestC02_RawWidths: caller-supplied protected items of every length on and around the head boundaries - up to
// 2^24 bytes - behind every permitted head width: the structure handed to the signer carries the content behind the
// shortest head.
type c02WidthCase struct {
	Len   int  `json:"len"`
	Width int  `json:"width"` // argument bytes of the bstr head: 0 (length in the initial byte), 1, 2, 4, 8
	Sign  bool `json:"sign_message,omitempty"`
}

func checkC02Width(c c02WidthCase) error {
	content := bytes.Repeat([]byte{0x5a}, c.Len)
	raw := append(rc.Head(2, uint64(c.Len), c.Width), content...)
	spy := &bridge.SpySigner{Alg: cose.AlgorithmEdDSA}
	payload := []byte("p")
	var want []byte
	if !c.Sign {
		m := &cose.Sign1Message{Headers: cose.Headers{RawProtected: raw, Protected: cose.ProtectedHeader{int64(1): cose.AlgorithmEdDSA}}, Payload: payload}
		if err := m.Sign(refcose.NewEntropy(nil), nil, spy); err != nil {
			return finding("refused/raw-width", "%+v: Sign refuses a well-formed protected item: %v", c, err)
		}
		want = refcose.SigStructure1(content, nil, payload)
	} else {
		s := &cose.Signature{Headers: cose.Headers{RawProtected: raw, Protected: cose.ProtectedHeader{int64(1): cose.AlgorithmEdDSA}}}
		m := &cose.SignMessage{Headers: cose.Headers{RawProtected: append([]byte{}, raw...)}, Payload: payload, Signatures: []*cose.Signature{s}}
		if err := m.Sign(refcose.NewEntropy(nil), nil, spy); err != nil {
			return finding("refused/raw-width", "%+v: SignMessage.Sign refuses well-formed protected items: %v", c, err)
		}
		want = refcose.SigStructure(content, content, nil, payload)
	}
	if got := spy.Last(); !bytes.Equal(got, want) {
		n := 40
		return finding("tbs-mismatch/raw-width", "%+v: the structure handed to the signer differs from the RFC structure (first bytes)\n got=%x\nwant=%x", c, got[:min(n, len(got))], want[:min(n, len(want))])
	}
	stats.Class(fmt.Sprintf("raw-width/%d", c.Width))
	return nil
}

func init() { register("c02width", checkC02Width) }

func TestC02_RawWidths(t *testing.T) {
	begin(t, "C02", "rawwidths")
	n := 0
	for _, l := range []int{0, 1, 23, 24, 25, 255, 256, 257, 65535, 65536, 65537, 1 << 24, 1<<24 + 1} {
		for _, w := range []int{0, 1, 2, 4, 8} {
			if (w == 0 && l > 23) || (w == 1 && l > 255) || (w == 2 && l > 65535) {
				continue
			}
			for _, sm := range []bool{false, true} {
				if sm && l > 65537 && w != 8 {
					continue
				}
				n++
				stats.Eval()
				stats.NTBytes([]byte(fmt.Sprint(l, w, sm)))
				judge(t, "c02width", c02WidthCase{Len: l, Width: w, Sign: sm}, checkC02Width)
			}
		}
	}
	stats.ExhaustivePart("protected item length x head width", n)
}
