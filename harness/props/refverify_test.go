package props

import (
	"fmt"

	"verifharness/gen"
	rc "verifharness/refcbor"
	"verifharness/refcose"
)

// refVerifyAll verifies, with the reference implementation only, every
// signature and countersignature that spec says is on the wire message:
// Sig_structure / Countersign_structure are computed from the wire bytes as
// located by the reference parser. payload is the detached payload to use when
// the wire carries nil.
func refVerifyAll(spec *gen.MsgSpec, wire []byte) error {
	env, err := refcose.ParseEnv(spec.Kind, wire)
	if err != nil {
		return finding("ref-parse", "reference cannot parse the message: %v\nwire=%x", err, wire)
	}
	payload, ok := env.PayloadBytes()
	if !ok {
		payload = spec.Payload
	}
	ext := spec.Ext()
	switch spec.Kind {
	case refcose.KSign1, refcose.KSign1Untagged:
		key := spec.Sigs[0].Key
		tbs := refcose.SigStructure1(env.ProtContent(), ext, payload)
		if !refcose.Verify(key.Alg, key.Public(), tbs, env.Sig.Content) {
			return finding("ref-verify", "reference verifier rejects the %v signature\nwire=%x", spec.Kind, wire)
		}
		p := gen.Parent{Kind: refcose.KSign1, BodyProt: env.ProtContent(), Payload: payload, Sig: env.Sig.Content}
		return refVerifyGroups(env.Unprot, spec.Groups, p, "msg")
	case refcose.KSign:
		if len(env.Sigs) != len(spec.Sigs) {
			return finding("ref-nsig", "wire has %d signatures, spec %d", len(env.Sigs), len(spec.Sigs))
		}
		for i, s := range spec.Sigs {
			se := env.Sigs[i]
			tbs := refcose.SigStructure(env.ProtContent(), se.ProtContent(), ext, payload)
			if !refcose.Verify(s.Key.Alg, s.Key.Public(), tbs, se.Sig.Content) {
				return finding("ref-verify", "reference verifier rejects signature %d\nwire=%x", i, wire)
			}
			p := gen.Parent{Kind: refcose.KSignature, BodyProt: se.ProtContent(), Payload: se.Sig.Content}
			if err := refVerifyGroups(se.Unprot, s.Groups, p, fmt.Sprintf("sig[%d]", i)); err != nil {
				return err
			}
		}
		p := gen.Parent{Kind: refcose.KSign, BodyProt: env.ProtContent(), Payload: payload}
		return refVerifyGroups(env.Unprot, spec.Groups, p, "msg")
	}
	return fmt.Errorf("refVerifyAll: unsupported kind")
}

func refVerifyGroups(un *rc.Node, groups []gen.CsigGroup, p gen.Parent, where string) error {
	for _, g := range groups {
		v := un.Lookup(g.Label)
		if v == nil {
			return finding("ref-csig-missing", "%s: label %d not on the wire", where, g.Label)
		}
		if g.Abbrev() {
			c := g.Items[0]
			if v.Major != 2 {
				return finding("ref-csig-shape", "%s: label %d is not a bstr", where, g.Label)
			}
			tbs := gen.CountersignTBS(p, true, []byte{}, c.External)
			if !refcose.Verify(c.Key.Alg, c.Key.Public(), tbs, v.Content) {
				return finding("ref-csig0-verify", "%s: reference rejects abbreviated countersignature %d", where, g.Label)
			}
			continue
		}
		var items []*rc.Node
		if g.AsList {
			if v.Major != 4 || len(v.Items) != len(g.Items) {
				return finding("ref-csig-shape", "%s: label %d: not a list of %d", where, g.Label, len(g.Items))
			}
			items = v.Items
		} else {
			items = []*rc.Node{v}
		}
		for i, c := range g.Items {
			ce, err := refcose.ParseEnv(refcose.KSignature, items[i].Raw())
			if err != nil {
				return finding("ref-csig-shape", "%s: label %d[%d]: %v", where, g.Label, i, err)
			}
			tbs := gen.CountersignTBS(p, false, ce.ProtContent(), c.External)
			if !refcose.Verify(c.Key.Alg, c.Key.Public(), tbs, ce.Sig.Content) {
				return finding("ref-csig-verify", "%s: reference rejects countersignature %d[%d]", where, g.Label, i)
			}
			np := gen.Parent{Kind: refcose.KCountersignature, BodyProt: ce.ProtContent(), Payload: ce.Sig.Content}
			if err := refVerifyGroups(ce.Unprot, c.Groups, np, fmt.Sprintf("%s/%d[%d]", where, g.Label, i)); err != nil {
				return err
			}
		}
	}
	return nil
}
