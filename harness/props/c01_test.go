package props

import (
	"bytes"
	"encoding/json"
	"fmt"
	"strings"
	"testing"

	cose "github.com/veraison/go-cose"
	"pgregory.net/rapid"

	"verifharness/bridge"
	"verifharness/gen"
	rc "verifharness/refcbor"
	"verifharness/refcose"
	"verifharness/stats"
)

type c01Case struct {
	Spec          gen.MsgSpec `json:"spec"`
	Helper        bool        `json:"helper,omitempty"`         // cose.Sign1 / cose.Sign1Untagged helpers
	DecodedParent bool        `json:"decoded_parent,omitempty"` // countersign a decoded (not constructed) parent
	RawBody       bool        `json:"raw_body,omitempty"`       // the caller supplies Headers.RawProtected (a non-canonical encoding of the same map)
	OpaqueKeys    bool        `json:"opaque_keys,omitempty"`    // signers are built over opaque crypto.Signer wrappers (HSM / KMS style)
	Reentrant     bool        `json:"reentrant,omitempty"`      // every key runs other library operations between being handed its bytes and reading them
	// SharedMaps (constructed COSE_Sign): 1 - the body and signer 0 hold the SAME protected map object (one
	// set of parameters for both layers); 2 - all signers hold one map object
	SharedMaps int `json:"shared_maps,omitempty"`
	// AlgHint: every layer whose alg is to be inserted by Sign also names the signer's algorithm in its
	// UNPROTECTED bucket (a hint for the recipient, as older profiles do)
	AlgHint bool `json:"alg_hint,omitempty"`
}

// revChooser encodes maps in reverse entry order with minimal heads: a valid
// encoding that differs from the library's own whenever a map has two entries.
type revChooser struct{}

func (revChooser) Width(min int) int { return min }
func (revChooser) Perm(n int) []int {
	p := make([]int, n)
	for i := range p {
		p[i] = n - 1 - i
	}
	return p
}

func constructedHdrOpts() gen.HeaderOpts {
	return gen.HeaderOpts{
		Val:         gen.ValOpts{Depth: 3, Floats: true, NaN: true, Tags: true, BstrKeys: true, BigInts: true, Spellings: true},
		MaxEntries:  40,
		AlgSpell:    true,
		PadBoundary: true,
		PadHuge:     true,
	}
}

// constructLib builds the unsigned in-memory library message of a spec. Half of
// the messages (those with an even payload length) are built the way the
// package documentation shows it - New*Message / NewSignature constructors whose
// header maps are then filled, SetAlgorithm for a typed alg - the other half as
// struct literals.
func constructLib(spec *gen.MsgSpec) *libMsg {
	m := &libMsg{kind: spec.Kind}
	h := bridge.Headers(spec.Prot, spec.Unprot)
	payload := append([]byte{}, spec.Payload...)
	viaConstructors := len(spec.Payload)%2 == 0
	fill := func(dst *cose.Headers, src cose.Headers) {
		for k, v := range src.Protected {
			if a, ok := v.(cose.Algorithm); ok && k == any(int64(1)) {
				dst.Protected.SetAlgorithm(a)
				continue
			}
			dst.Protected[k] = v
		}
		for k, v := range src.Unprotected {
			dst.Unprotected[k] = v
		}
	}
	switch spec.Kind {
	case refcose.KSign1:
		if viaConstructors {
			m.s1 = cose.NewSign1Message()
			fill(&m.s1.Headers, h)
			m.s1.Payload = payload
			break
		}
		m.s1 = &cose.Sign1Message{Headers: h, Payload: payload}
	case refcose.KSign1Untagged:
		if viaConstructors {
			m.u1 = (*cose.UntaggedSign1Message)(cose.NewSign1Message())
			fill(&m.u1.Headers, h)
			m.u1.Payload = payload
			break
		}
		m.u1 = &cose.UntaggedSign1Message{Headers: h, Payload: payload}
	case refcose.KSign:
		if viaConstructors {
			m.sm = cose.NewSignMessage()
			fill(&m.sm.Headers, h)
			m.sm.Payload = payload
			for _, s := range spec.Sigs {
				sg := cose.NewSignature()
				fill(&sg.Headers, bridge.Headers(s.Prot, s.Unprot))
				m.sm.Signatures = append(m.sm.Signatures, sg)
			}
			break
		}
		m.sm = &cose.SignMessage{Headers: h, Payload: payload}
		for _, s := range spec.Sigs {
			m.sm.Signatures = append(m.sm.Signatures, &cose.Signature{Headers: bridge.Headers(s.Prot, s.Unprot)})
		}
	}
	if viaConstructors {
		stats.Class("built-with-constructors")
	}
	return m
}

func specSigners(spec *gen.MsgSpec) ([]cose.Signer, []cose.Verifier, error) {
	var ss []cose.Signer
	var vs []cose.Verifier
	for _, s := range spec.Sigs {
		sg, err := libSigner(s.Key, s.ViaKey)
		if err != nil {
			return nil, nil, fmt.Errorf("signer for %s: %w", refcose.AlgName(s.Key.Alg), err)
		}
		v, err := libVerifier(s.Key, s.ViaKey)
		if err != nil {
			return nil, nil, fmt.Errorf("verifier for %s: %w", refcose.AlgName(s.Key.Alg), err)
		}
		ss = append(ss, sg)
		vs = append(vs, v)
	}
	return ss, vs, nil
}

// attachGroups creates, with the library, the countersignatures a spec asks
// for over parent, checks each in memory, and stores them in un.
func attachGroups(un cose.UnprotectedHeader, groups []gen.CsigGroup, parent func(ptr bool) any, where string, mk signerFactory) error {
	rnd := refcose.NewEntropy([]byte("csig"))
	for gi, g := range groups {
		if g.Abbrev() {
			c := g.Items[0]
			sg, ver, err := mk(c.Key, fmt.Sprintf("%s/%d", where, g.Label))
			if err != nil {
				return finding("signer", "%v", err)
			}
			sig, err := cose.Countersign0(rnd, sg, parent(gi%2 == 0), c.External)
			if err != nil {
				stats.Class("csig-sign-refused")
				return errSkip
			}
			if err := cose.VerifyCountersign0(ver, parent(gi%2 == 1), c.External, sig); err != nil {
				return finding("csig0-verify-mem", "%s: fresh abbreviated countersignature (label %d) does not verify in memory: %v", where, g.Label, err)
			}
			un[int64(g.Label)] = sig
			continue
		}
		var list []*cose.Countersignature
		for ci, c := range g.Items {
			sg, ver, err := mk(c.Key, fmt.Sprintf("%s/%d[%d]", where, g.Label, ci))
			if err != nil {
				return finding("signer", "%v", err)
			}
			cs := cose.NewCountersignature()
			cs.Headers = bridge.Headers(c.Prot, c.Unprot)
			if err := cs.Sign(rnd, sg, parent(ci%2 == 0), c.External); err != nil {
				stats.Class("csig-sign-refused")
				return errSkip
			}
			if err := cs.Verify(ver, parent(ci%2 == 1), c.External); err != nil {
				return finding("csig-verify-mem", "%s: fresh countersignature %d[%d] does not verify in memory: %v", where, g.Label, ci, err)
			}
			if cs.Headers.Unprotected == nil {
				cs.Headers.Unprotected = cose.UnprotectedHeader{}
			}
			self := cs
			if err := attachGroups(cs.Headers.Unprotected, c.Groups, func(ptr bool) any {
				if ptr {
					return self
				}
				return *self
			}, fmt.Sprintf("%s/%d[%d]", where, g.Label, ci), mk); err != nil {
				return err
			}
			list = append(list, cs)
		}
		if g.AsList {
			un[int64(g.Label)] = list
		} else {
			un[int64(g.Label)] = list[0]
		}
	}
	return nil
}

var errSkip = fmt.Errorf("skip")

// signerFactory provides the signer and matching verifier used for the
// signing operation at path where.
type signerFactory func(km refcose.KeyMat, where string) (cose.Signer, cose.Verifier, error)

func libFactory(km refcose.KeyMat, where string) (cose.Signer, cose.Verifier, error) {
	s, err := libSigner(km, false)
	if err != nil {
		return nil, nil, err
	}
	v, err := libVerifier(km, false)
	return s, v, err
}

func shortErr(err error) string {
	s := err.Error()
	stats.Note("refusal: "+s[:min(len(s), 60)], s)
	if i := strings.IndexAny(s, ":'\""); i > 0 {
		s = s[:i]
	}
	if len(s) > 40 {
		s = s[:40]
	}
	return s
}

// checkC01: whenever signing succeeds, verification with the matching key and
// same external data succeeds, in memory and after a wire round trip, for
// every layer (signatures and countersignatures); the reference verifier
// agrees on the wire bytes.
func checkC01(c c01Case) error {
	spec := &c.Spec
	ss, vs, err := specSigners(spec)
	if err != nil {
		return finding("signer", "%v", err)
	}
	if c.OpaqueKeys {
		for i, s := range spec.Sigs {
			ss[i], err = cose.NewSigner(cose.Algorithm(s.Key.Alg), opaqueSigner{s.Key.Private()})
			if err != nil {
				return finding("signer", "NewSigner over an opaque crypto.Signer: %v", err)
			}
		}
		stats.Class("opaque-crypto-signers")
	}
	factory := signerFactory(libFactory)
	if c.Reentrant {
		for i := range ss {
			ss[i] = reentrantSigner{ss[i]}
		}
		for i := range vs {
			vs[i] = reentrantVerifier{vs[i]}
		}
		factory = func(km refcose.KeyMat, where string) (cose.Signer, cose.Verifier, error) {
			s, v, err := libFactory(km, where)
			if err != nil {
				return nil, nil, err
			}
			return reentrantSigner{s}, reentrantVerifier{v}, nil
		}
		stats.Class("keys-run-other-library-operations")
	}
	ext := spec.Ext()
	var m *libMsg
	if c.Helper && spec.Kind != refcose.KSign && len(spec.Groups) == 0 {
		// one-shot helpers
		h := bridge.Headers(spec.Prot, spec.Unprot)
		rnd := refcose.NewEntropy([]byte("helper"))
		var wire []byte
		if spec.Kind == refcose.KSign1 {
			wire, err = cose.Sign1(rnd, ss[0], h, spec.Payload, ext)
		} else {
			wire, err = cose.Sign1Untagged(rnd, ss[0], h, spec.Payload, ext)
		}
		if err != nil {
			stats.Class("sign-refused/" + shortErr(err))
			return nil
		}
		stats.Class("helper")
		hs := *spec
		hs.Detached = false // the helpers always embed the payload
		return c01Decoded(&hs, wire, vs)
	}
	m = constructLib(spec)
	if c.RawBody && len(spec.Prot.M) > 0 {
		m.headers().RawProtected = rc.Encode(rc.Bytes(rc.Encode(spec.Prot, revChooser{})), nil)
		stats.Class("caller-supplied-raw-protected")
	}
	if c.AlgHint {
		hint := func(h *cose.Headers, inject bool, alg int64) {
			if !inject {
				return
			}
			if h.Unprotected == nil {
				h.Unprotected = cose.UnprotectedHeader{}
			}
			if _, taken := h.Unprotected[int64(1)]; !taken {
				h.Unprotected[int64(1)] = cose.Algorithm(alg)
				stats.Class("alg-hint-in-unprotected-bucket-of-a-layer-without-alg")
			}
		}
		if m.sm == nil {
			hint(m.headers(), spec.Inject, spec.Sigs[0].Key.Alg)
		} else {
			for i, sg := range spec.Sigs {
				hint(&m.sm.Signatures[i].Headers, sg.Inject, sg.Key.Alg)
			}
		}
	}
	if m.sm != nil && c.SharedMaps != 0 && !c.RawBody {
		switch c.SharedMaps {
		case 1:
			if m.sm.Headers.Protected == nil {
				m.sm.Headers.Protected = cose.ProtectedHeader{}
			}
			m.sm.Signatures[0].Headers.Protected = m.sm.Headers.Protected
			stats.Class("layers-share-a-map/body-and-signer")
		default:
			for _, sg := range m.sm.Signatures[1:] {
				sg.Headers.Protected = m.sm.Signatures[0].Headers.Protected
			}
			stats.Class("layers-share-a-map/all-signers")
		}
	}
	if err := m.sign(ext, ss...); err != nil {
		stats.Class("sign-refused/" + shortErr(err))
		return nil
	}
	if err := m.verify(ext, vs...); err != nil {
		return finding("verify-mem", "freshly signed %v does not verify in memory: %v", spec.Kind, err)
	}
	target := m
	if c.DecodedParent {
		wire, err := m.marshal()
		if err != nil {
			stats.Class("marshal-refused/" + shortErr(err))
			return nil
		}
		d, err := decodeLib(spec.Kind, wire)
		if err != nil {
			return finding("roundtrip-decode", "own output rejected: %v\nwire=%x", err, wire)
		}
		d.headers().RawUnprotected = nil // the caller is about to add parameters
		if d.sm != nil {
			for _, s := range d.sm.Signatures {
				s.Headers.RawUnprotected = nil
			}
		}
		target = d
		stats.Class("decoded-parent")
	}
	if target.headers().Unprotected == nil {
		target.headers().Unprotected = cose.UnprotectedHeader{}
	}
	if err := attachGroups(target.headers().Unprotected, spec.Groups, target.parent, "msg", factory); err != nil {
		if err == errSkip {
			return nil
		}
		return err
	}
	if target.sm != nil {
		for i, s := range spec.Sigs {
			sig := target.sm.Signatures[i]
			if sig.Headers.Unprotected == nil {
				sig.Headers.Unprotected = cose.UnprotectedHeader{}
			}
			if err := attachGroups(sig.Headers.Unprotected, s.Groups, func(ptr bool) any {
				if ptr {
					return sig
				}
				return *sig
			}, fmt.Sprintf("sig[%d]", i), factory); err != nil {
				if err == errSkip {
					return nil
				}
				return err
			}
		}
	}
	if spec.Detached {
		*target.payload() = nil
	}
	wire, err := target.marshal()
	if err != nil {
		stats.Class("marshal-refused/" + shortErr(err))
		return nil
	}
	if err := c01Decoded(spec, wire, vs); err != nil {
		return err
	}
	// re-issue: the same in-memory message (already signed and encoded once) gets another protected
	// parameter, its signatures are cleared and it is signed and encoded again
	anyGroups := len(spec.Groups) > 0
	for _, s := range spec.Sigs {
		anyGroups = anyGroups || len(s.Groups) > 0
	}
	if target == m && !c.RawBody && !anyGroups {
		h := m.headers()
		if h.Protected == nil {
			h.Protected = cose.ProtectedHeader{}
		}
		if _, clash := h.Protected["re-issued"]; !clash {
			h.Protected["re-issued"] = int64(1)
			switch {
			case m.s1 != nil:
				m.s1.Signature = nil
			case m.u1 != nil:
				m.u1.Signature = nil
			default:
				for _, sg := range m.sm.Signatures {
					sg.Signature = nil
				}
			}
			*m.payload() = append([]byte{}, spec.Payload...)
			if err := m.sign(ext, ss...); err != nil {
				stats.Class("re-issue-refused/" + shortErr(err))
				return nil
			}
			if err := m.verify(ext, vs...); err != nil {
				return finding("verify-mem/re-issued", "a message that was signed and encoded, then changed and signed again does not verify in memory: %v", err)
			}
			if spec.Detached {
				*m.payload() = nil
			}
			wire2, err := m.marshal()
			if err != nil {
				return finding("re-issue-unencodable", "%v", err)
			}
			env, err := refcose.ParseEnv(spec.Kind, wire2)
			if err != nil {
				return finding("roundtrip-decode", "reference cannot parse the re-issued message: %v", err)
			}
			found := false
			if env.ProtMap != nil {
				for _, kn := range env.ProtMap.Keys {
					if kn.Major == 3 && string(kn.Content) == "re-issued" {
						found = true
					}
				}
			}
			if !found {
				return finding("re-issue-ignored", "the protected parameter added before signing again is missing from the emitted message\nwire=%x", wire2)
			}
			if err := c01Decoded(spec, wire2, vs); err != nil {
				return err
			}
			stats.Class("re-issued")
		}
	}
	return nil
}

func c01Decoded(spec *gen.MsgSpec, wire []byte, vs []cose.Verifier) error {
	d, err := decodeLib(spec.Kind, wire)
	if err != nil {
		return finding("roundtrip-decode", "own output rejected: %v\nwire=%x", err, wire)
	}
	if spec.Detached {
		if *d.payload() != nil {
			return finding("detached", "nil payload decoded as %x", *d.payload())
		}
		*d.payload() = append([]byte{}, spec.Payload...)
	} else if *d.payload() == nil || !bytes.Equal(*d.payload(), spec.Payload) {
		return finding("payload", "payload changed in round trip: %x", *d.payload())
	}
	if err := d.verify(spec.Ext(), vs...); err != nil {
		return finding("verify-wire", "%v no longer verifies after the wire round trip: %v\nwire=%x", spec.Kind, err, wire)
	}
	if err := verifyGroups(d.headers().Unprotected, spec.Groups, d.parent(len(wire)%2 == 0), "msg"); err != nil {
		return err
	}
	if d.sm != nil {
		for i, s := range spec.Sigs {
			var p any = d.sm.Signatures[i]
			if i%2 == 1 {
				p = *d.sm.Signatures[i]
			}
			if err := verifyGroups(d.sm.Signatures[i].Headers.Unprotected, s.Groups, p, fmt.Sprintf("sig[%d]", i)); err != nil {
				return err
			}
		}
	}
	stats.Class("roundtrip-verified")
	stats.Class("roundtrip/" + spec.Kind.String())
	for _, s := range spec.Sigs {
		stats.Class("roundtrip-alg/" + refcose.AlgName(s.Key.Alg))
		if s.ViaKey {
			stats.Class("key-via-COSE_Key")
		}
	}
	if n, _ := specCsigStats(spec); n > 0 {
		stats.Class("roundtrip-with-countersignatures")
	}
	classifyCsigParents(spec)
	if spec.Detached {
		stats.Class("roundtrip-detached")
	}
	if env, err := refcose.ParseEnv(spec.Kind, wire); err == nil {
		switch n := len(env.Prot.Content); {
		case n < 24:
			stats.Class("protected-len/<24")
		case n < 256:
			stats.Class("protected-len/24-255")
		default:
			stats.Class("protected-len/>=256")
		}
	}
	sj, _ := json.Marshal(spec)
	stats.NTBytes(sj)
	stats.Sample("roundtrip/"+spec.Kind.String(), map[string]any{"kind": spec.Kind.String(), "wire": rc.Hex(wire)})
	// (c) the independent verifier accepts the same wire bytes
	return refVerifyAll(spec, wire)
}

func init() { register("c01", checkC01) }

func c01Opts() gen.MsgOpts {
	return gen.MsgOpts{MaxSigners: 6, Csigs: true, Hdr: constructedHdrOpts(), HugeLens: true, Inject: true, CrossCurve: true}
}

func TestC01_Random(t *testing.T) {
	begin(t, "C01", "random")
	prop(t, func(rt *rapid.T) {
		c := c01Case{Spec: gen.Msg(rt, c01Opts())}
		c.Helper = rapid.IntRange(0, 3).Draw(rt, "helper") == 0
		c.DecodedParent = rapid.Bool().Draw(rt, "decoded-parent")
		c.RawBody = rapid.IntRange(0, 4).Draw(rt, "raw-body") == 0
		c.OpaqueKeys = rapid.IntRange(0, 4).Draw(rt, "opaque-keys") == 0
		c.Reentrant = rapid.IntRange(0, 3).Draw(rt, "reentrant") == 0
		if c.Spec.Kind == refcose.KSign {
			c.SharedMaps = rapid.SampledFrom([]int{0, 0, 0, 1, 1, 2}).Draw(rt, "shared-maps")
		}
		c.AlgHint = rapid.IntRange(0, 2).Draw(rt, "alg-hint") == 0
		if rapid.IntRange(0, 15).Draw(rt, "textual-alg") == 0 && len(c.Spec.Sigs) > 0 {
			// alg given as the text name of the signer's algorithm (alg = int / tstr): the library may refuse
			// to sign; if it signs, the message must verify like any other
			name := rc.Text(refcose.AlgName(c.Spec.Sigs[0].Key.Alg))
			target := &c.Spec.Prot
			if c.Spec.Kind == refcose.KSign {
				target = &c.Spec.Sigs[0].Prot
			}
			for i := range target.M {
				if l, ok := target.M[i].K.Int64(); ok && l == 1 && target.M[i].K.K == rc.KInt {
					target.M[i].V = name
				}
			}
		}
		stats.Eval()
		judge(rt, "c01", c, checkC01)
	})
}

// ---------------------------------------------------------------------------
// hash envelopes

type c01HashCase struct {
	Key      refcose.KeyMat `json:"key"`
	ViaKey   bool           `json:"via_key,omitempty"`
	Prot     rc.Val         `json:"prot"`
	Unprot   rc.Val         `json:"unprot"`
	HashAlg  int64          `json:"hash_alg"`
	Hash     rc.Hex         `json:"hash"`
	CtyKind  int            `json:"cty_kind"` // 0 none, 1 uint, 2 string
	CtyUint  uint64         `json:"cty_uint,omitempty"`
	CtyText  string         `json:"cty_text,omitempty"`
	Location string         `json:"location,omitempty"`
	// StaleRaw: the caller's Headers still carry raw bytes (of another message: headers re-used as a template); 1:
	// RawProtected only, 2: both raw fields
	StaleRaw int `json:"stale_raw,omitempty"`
}

func hashLen(alg int64) int {
	switch alg {
	case -16:
		return 32
	case -43:
		return 48
	case -44:
		return 64
	}
	return -1
}

func (c *c01HashCase) payload() cose.HashEnvelopePayload {
	p := cose.HashEnvelopePayload{HashAlgorithm: cose.Algorithm(c.HashAlg), HashValue: append([]byte{}, c.Hash...), Location: c.Location}
	switch c.CtyKind {
	case 1:
		p.PreimageContentType = c.CtyUint
	case 2:
		p.PreimageContentType = c.CtyText
	}
	return p
}

func checkC01Hash(c c01HashCase) error {
	sg, err := libSigner(c.Key, c.ViaKey)
	if err != nil {
		return finding("signer", "%v", err)
	}
	ver, err := libVerifier(c.Key, c.ViaKey)
	if err != nil {
		return finding("verifier", "%v", err)
	}
	h := bridge.Headers(c.Prot, c.Unprot)
	if c.StaleRaw != 0 {
		// what a decoder left behind for another envelope signed under the same algorithm
		stale := rc.Map(rc.E(rc.Int(1), rc.Int(c.Key.Alg)), rc.E(rc.Int(258), rc.Int(-44)), rc.E(rc.Int(260), rc.Text("https://stale.example/")))
		h.RawProtected = rc.Encode(rc.Bytes(rc.Encode(stale, nil)), nil)
		if c.StaleRaw == 2 {
			h.RawUnprotected = rc.Encode(c.Unprot, nil)
		}
		stats.Class("envelope-from-headers-with-stale-raw-bytes")
	}
	env, err := cose.SignHashEnvelope(refcose.NewEntropy([]byte("henv")), sg, h, c.payload())
	if err != nil {
		stats.Class("sign-refused/" + shortErr(err))
		return nil
	}
	msg, err := cose.VerifyHashEnvelope(ver, env)
	if err != nil {
		return finding("henv-verify", "VerifyHashEnvelope refuses SignHashEnvelope's output: %v\nenvelope=%x", err, env)
	}
	if !bytes.Equal(msg.Payload, c.Hash) {
		return finding("henv-payload", "payload %x, want hash %x", msg.Payload, []byte(c.Hash))
	}
	// plain Sign1 decode + verify of the same bytes
	var m cose.Sign1Message
	if err := m.UnmarshalCBOR(env); err != nil {
		return finding("roundtrip-decode", "envelope rejected by Sign1Message.UnmarshalCBOR: %v", err)
	}
	if err := m.Verify(nil, ver); err != nil {
		return finding("verify-wire", "envelope does not verify as Sign1: %v", err)
	}
	// independent verification
	e, err := refcose.ParseEnv(refcose.KSign1, env)
	if err != nil {
		return finding("ref-parse", "%v", err)
	}
	pl, _ := e.PayloadBytes()
	if !refcose.Verify(c.Key.Alg, c.Key.Public(), refcose.SigStructure1(e.ProtContent(), nil, pl), e.Sig.Content) {
		return finding("ref-verify", "reference verifier rejects the envelope signature\n%x", env)
	}
	stats.Class("hash-envelope")
	stats.Class("roundtrip-alg/" + refcose.AlgName(c.Key.Alg))
	stats.NTBytes(env[:len(env)-len(e.Sig.Content)])
	stats.Sample("hash-envelope", map[string]any{"kind": "hash-envelope", "wire": rc.Hex(env)})
	return nil
}

func init() { register("c01hash", checkC01Hash) }

func genHashCase(rt *rapid.T, ho gen.HeaderOpts) c01HashCase {
	c := c01HashCase{}
	alg := gen.Alg(rt)
	c.Key = gen.KeyMat(rt, alg)
	c.ViaKey = rapid.IntRange(0, 4).Draw(rt, "viakey") == 0
	ho.NoCty = true
	if rapid.Bool().Draw(rt, "alg-present") {
		ho.Alg = &alg
	}
	c.Prot, c.Unprot = gen.Headers(rt, ho)
	c.HashAlg = rapid.SampledFrom([]int64{-16, -43, -44}).Draw(rt, "hashalg")
	c.Hash = gen.Blob(rt, "hash", hashLen(c.HashAlg))
	c.CtyKind = rapid.IntRange(0, 2).Draw(rt, "ctykind")
	switch c.CtyKind {
	case 1:
		c.CtyUint = uint64(rapid.SampledFrom([]int64{0, 1, 23, 24, 50, 255, 256, 65535, 65536, 1 << 40}).Draw(rt, "ctyuint"))
	case 2:
		c.CtyText = gen.MediaType(rt)
		if rapid.IntRange(0, 7).Draw(rt, "long-cty") == 0 {
			// a media type whose parameter makes the text end exactly on / next to a length-head boundary
			n := rapid.SampledFrom([]int{23, 24, 255, 256, 65535, 65536, 65537}).Draw(rt, "long-cty-len")
			if base := "application/x-long; pad="; n > len(base) {
				c.CtyText = base + strings.Repeat("p", n-len(base))
			}
			stats.Class("envelope/long-preimage-content-type")
		}
	}
	if rapid.Bool().Draw(rt, "has-location") {
		c.Location = rapid.StringMatching(`https://[a-z]{1,10}\.example/[a-z0-9/]{0,20}`).Draw(rt, "location")
		if rapid.IntRange(0, 7).Draw(rt, "long-location") == 0 {
			n := rapid.SampledFrom([]int{23, 24, 255, 256, 65535, 65536, 65537}).Draw(rt, "long-location-len")
			c.Location = "https://x.example/" + strings.Repeat("l", n-len("https://x.example/"))
			stats.Class("envelope/long-location")
		} else if rapid.IntRange(0, 5).Draw(rt, "non-ascii-location") == 0 {
			c.Location += "?q=\u00fc\u4e2d\U0001f600"
			stats.Class("envelope/non-ascii-location")
		}
	}
	c.StaleRaw = rapid.SampledFrom([]int{0, 0, 1, 2}).Draw(rt, "stale-raw")
	return c
}

func TestC01_HashEnvelope(t *testing.T) {
	begin(t, "C01", "hashenv")
	prop(t, func(rt *rapid.T) {
		c := genHashCase(rt, constructedHdrOpts())
		stats.Eval()
		judge(rt, "c01hash", c, checkC01Hash)
	})
}

// classifyCsigParents counts countersignatures by parent kind and form.
func classifyCsigParents(spec *gen.MsgSpec) {
	var walk func(gs []gen.CsigGroup, parent string)
	walk = func(gs []gen.CsigGroup, parent string) {
		for _, g := range gs {
			form := "full"
			if g.Abbrev() {
				form = "abbreviated"
			}
			stats.ClassN("csig/"+parent+"/"+form, len(g.Items))
			for _, c := range g.Items {
				walk(c.Groups, "Countersignature")
			}
		}
	}
	top := "Sign1"
	if spec.Kind == refcose.KSign {
		top = "Sign"
	}
	walk(spec.Groups, top)
	if spec.Kind == refcose.KSign {
		for _, s := range spec.Sigs {
			walk(s.Groups, "Signature")
		}
	}
}

// TestC01_LargeRSA: the round trip with RSA keys far above the usual sizes (a four-prime key of 8200 bits; its
// operations are too slow for the random parts): every structure kind, all three PS algorithms.
func TestC01_LargeRSA(t *testing.T) {
	begin(t, "C01", "largersa")
	n := 0
	for _, alg := range []int64{refcose.AlgPS256, refcose.AlgPS384, refcose.AlgPS512} {
		for _, kind := range []refcose.Kind{refcose.KSign1, refcose.KSign1Untagged, refcose.KSign} {
			km := refcose.KeyMat{Alg: alg, RSA: "rsa8200"}
			spec := gen.MsgSpec{Kind: kind, Prot: rc.Map(), Unprot: rc.Map(rc.E(rc.Int(4), rc.Bytes([]byte("large-rsa")))), Payload: rc.Hex("payload under a large key"), ExtNil: true,
				Sigs: []gen.SigSpec{{Key: km, Prot: rc.Map(rc.E(rc.Int(1), rc.Int(alg))), Unprot: rc.Map()}}}
			if kind != refcose.KSign {
				spec.Prot = rc.Map(rc.E(rc.Int(1), rc.Int(alg)))
			}
			n++
			stats.Eval()
			stats.Class("large-rsa-key")
			judge(t, "c01", c01Case{Spec: spec}, checkC01)
		}
	}
	stats.ExhaustivePart("large RSA key x algorithm x structure", n)
}
