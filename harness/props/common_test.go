package props

import (
	"bufio"
	"encoding/json"
	"errors"
	"fmt"
	"os"
	"path/filepath"
	"runtime/debug"
	"sort"
	"strconv"
	"strings"
	"sync"
	"testing"

	"pgregory.net/rapid"

	"verifharness/stats"
)

// Finding is the error type of an oracle failure. Key is the root-cause key
// computed from the failing case itself (matched against known-findings.txt).
type Finding struct {
	Key string
	Msg string
}

func (f *Finding) Error() string { return "[" + f.Key + "] " + f.Msg }

func finding(key, format string, args ...any) *Finding {
	return &Finding{Key: key, Msg: fmt.Sprintf(format, args...)}
}

// ---------------------------------------------------------------------------
// environment

func verifDir() string {
	if d := os.Getenv("VERIF_DIR"); d != "" {
		return d
	}
	return "/verif"
}

func tierThorough() bool { return os.Getenv("VERIF_TIER") == "thorough" }

func shardID() string {
	if s := os.Getenv("VERIF_SHARD"); s != "" {
		return s
	}
	return "0"
}

// gridShard returns this process' shard index and the number of shards an
// exhaustive enumeration is split into (cell i belongs to shard i % n).
func gridShard() (int, int) {
	sh, _ := strconv.Atoi(os.Getenv("VERIF_SHARD"))
	n, _ := strconv.Atoi(os.Getenv("VERIF_NSHARDS"))
	if n < 1 {
		return 0, 1
	}
	return sh % n, n
}

// ---------------------------------------------------------------------------
// known findings

type knownEntry struct {
	Property string
	Key      string
	Probe    string
	Text     string
}

var (
	knownOnce sync.Once
	knownList []knownEntry
)

func loadKnown() []knownEntry {
	knownOnce.Do(func() {
		f, err := os.Open(filepath.Join(verifDir(), "known-findings.txt"))
		if err != nil {
			return
		}
		defer f.Close()
		sc := bufio.NewScanner(f)
		for sc.Scan() {
			line := strings.TrimSpace(sc.Text())
			if !strings.HasPrefix(line, "known:") {
				continue
			}
			e := knownEntry{}
			rest := strings.Fields(strings.TrimPrefix(line, "known:"))
			var text []string
			for _, w := range rest {
				switch {
				case strings.HasPrefix(w, "property=") && e.Property == "":
					e.Property = strings.TrimPrefix(w, "property=")
				case strings.HasPrefix(w, "key=") && e.Key == "":
					e.Key = strings.TrimPrefix(w, "key=")
				case strings.HasPrefix(w, "probe=") && e.Probe == "":
					e.Probe = strings.TrimPrefix(w, "probe=")
				default:
					text = append(text, w)
				}
			}
			e.Text = strings.Join(text, " ")
			knownList = append(knownList, e)
		}
	})
	return knownList
}

func isKnown(property, key string) bool {
	for _, e := range loadKnown() {
		if e.Property == property && e.Key == key {
			return true
		}
	}
	return false
}

// ---------------------------------------------------------------------------
// property context

type propCtx struct {
	Property string
	Part     string
}

var cur propCtx

// begin starts a property part: resets statistics.
func begin(t *testing.T, property, part string) {
	t.Helper()
	cur = propCtx{Property: property, Part: part}
	stats.Reset(property)
	t.Cleanup(func() {
		if err := stats.Flush(); err != nil {
			t.Errorf("stats flush: %v", err)
		}
	})
	os.RemoveAll("testdata/rapid")
}

type replayFile struct {
	Property string          `json:"property"`
	Kind     string          `json:"kind"`
	Key      string          `json:"key,omitempty"`
	Message  string          `json:"message"`
	Case     json.RawMessage `json:"case"`
}

func replayPath() string {
	dir := os.Getenv("VERIF_REPLAY_DIR")
	if dir == "" {
		dir = filepath.Join(os.TempDir(), "verif-replays")
	}
	os.MkdirAll(dir, 0o755)
	return filepath.Join(dir, fmt.Sprintf("%s-%s-%s.json", cur.Property, cur.Part, shardID()))
}

func writeReplay(kind string, c any, key, msg string) string {
	cb, err := json.Marshal(c)
	if err != nil {
		cb, _ = json.Marshal(fmt.Sprintf("unserialisable case: %v", err))
	}
	rf := replayFile{Property: cur.Property, Kind: kind, Key: key, Message: msg, Case: cb}
	b, _ := json.MarshalIndent(rf, "", " ")
	p := replayPath()
	os.WriteFile(p, b, 0o644)
	return p
}

var inflightOn = os.Getenv("VERIF_INFLIGHT") != ""

func inflightPath() string {
	if p := os.Getenv("VERIF_INFLIGHT"); p != "" {
		os.MkdirAll(filepath.Dir(p), 0o755)
		return p
	}
	dir := os.Getenv("VERIF_REPLAY_DIR")
	if dir == "" {
		dir = filepath.Join(os.TempDir(), "verif-replays")
	}
	os.MkdirAll(dir, 0o755)
	return filepath.Join(dir, fmt.Sprintf("%s-inflight-%s.json", cur.Property, shardID()))
}

// failer is implemented by *rapid.T and *testing.T.
type failer interface {
	Fatalf(format string, args ...any)
	Helper()
}

// judge runs the oracle f on case c. A panic inside the oracle counts as a
// failure (key "panic"). Failures listed as known findings are counted and
// skipped; anything else writes the replay file and fails.
func judge[C any](t failer, kind string, c C, f func(C) error) {
	t.Helper()
	if inflightOn {
		// parts whose cases may end the process (runtime fatal errors cannot be recovered): the case
		// about to run is on disk, so that the driver can attribute a crash to it
		if cb, err := json.Marshal(c); err == nil {
			rf := replayFile{Property: cur.Property, Kind: kind, Key: "process-crash", Message: "in-flight case when the process ended with a fatal runtime error", Case: cb}
			if b, err := json.Marshal(rf); err == nil {
				os.WriteFile(inflightPath(), b, 0o644)
			}
		}
	}
	err := safely(func() error { return f(c) })
	if err == nil {
		return
	}
	key := "unkeyed"
	var fd *Finding
	if errors.As(err, &fd) {
		key = fd.Key
	}
	if isKnown(cur.Property, key) {
		stats.KnownHit(key)
		return
	}
	stats.Violation()
	p := writeReplay(kind, c, key, err.Error())
	t.Fatalf("VIOLATION-CANDIDATE property=%s kind=%s replay=%s\n%v", cur.Property, kind, p, err)
}

func safely(f func() error) (err error) {
	defer func() {
		if r := recover(); r != nil {
			err = finding("panic", "panic: %v\n%s", r, debug.Stack())
		}
	}()
	return f()
}

// registry of replayers: kind -> function that re-runs the oracle on a
// serialised case.
var replayers = map[string]func(json.RawMessage) error{}

func register[C any](kind string, f func(C) error) {
	replayers[kind] = func(raw json.RawMessage) error {
		var c C
		if err := json.Unmarshal(raw, &c); err != nil {
			return fmt.Errorf("bad case for %s: %w", kind, err)
		}
		return safely(func() error { return f(c) })
	}
}

// prop wraps rapid.Check so that a panic in the generator or property body is
// reported with a replay file as well.
func prop(t *testing.T, body func(rt *rapid.T)) {
	t.Helper()
	rapid.Check(t, body)
}

// TestReplay re-executes one replay / corpus file (VERIF_REPLAY) without any
// generator or PRNG.
func TestReplay(t *testing.T) {
	p := os.Getenv("VERIF_REPLAY")
	if p == "" {
		t.Skip("VERIF_REPLAY not set")
	}
	rf, err := readReplay(p)
	if err != nil {
		t.Fatal(err)
	}
	cur = propCtx{Property: rf.Property, Part: "replay"}
	r, ok := replayers[rf.Kind]
	if !ok {
		t.Fatalf("no replayer for kind %q", rf.Kind)
	}
	reps := 1
	if n, err := strconv.Atoi(os.Getenv("VERIF_REPLAY_REPEAT")); err == nil && n > 1 {
		reps = n // schedule-dependent cases are re-run several times
	}
	for i := 0; i < reps; i++ {
		if err := r(rf.Case); err != nil {
			t.Fatalf("REPLAY-FAILS property=%s kind=%s\n%v", rf.Property, rf.Kind, err)
		}
	}
	fmt.Printf("REPLAY-PASSES property=%s kind=%s\n", rf.Property, rf.Kind)
}

func readReplay(p string) (*replayFile, error) {
	b, err := os.ReadFile(p)
	if err != nil {
		return nil, err
	}
	var rf replayFile
	if err := json.Unmarshal(b, &rf); err != nil {
		return nil, fmt.Errorf("%s: %w", p, err)
	}
	return &rf, nil
}

// TestRegress is the regression tier of property VERIF_PROPERTY: every file
// in corpus/<ID>/ must pass; every known: entry's probe is executed and, if
// it still fails with its key, reported as KNOWN-FINDING.
func TestRegress(t *testing.T) {
	id := os.Getenv("VERIF_PROPERTY")
	if id == "" {
		t.Skip("VERIF_PROPERTY not set")
	}
	begin(t, id, "regress")
	probes := map[string]knownEntry{}
	for _, e := range loadKnown() {
		if e.Property == id && e.Probe != "" {
			probes[filepath.Clean(filepath.Join(verifDir(), e.Probe))] = e
		}
	}
	files, _ := filepath.Glob(filepath.Join(verifDir(), "corpus", id, "*.json"))
	sort.Strings(files)
	for _, f := range files {
		if _, isProbe := probes[filepath.Clean(f)]; isProbe {
			continue
		}
		rf, err := readReplay(f)
		if err != nil {
			t.Fatal(err)
		}
		r, ok := replayers[rf.Kind]
		if !ok {
			t.Fatalf("%s: no replayer for kind %q", f, rf.Kind)
		}
		stats.Eval()
		stats.Class("regression-file")
		if err := r(rf.Case); err != nil {
			key := "unkeyed"
			var fd *Finding
			if errors.As(err, &fd) {
				key = fd.Key
			}
			if isKnown(id, key) {
				stats.KnownHit(key)
				continue
			}
			stats.Violation()
			out := writeReplay(rf.Kind, json.RawMessage(rf.Case), key, err.Error())
			t.Fatalf("VIOLATION-CANDIDATE property=%s kind=%s replay=%s (regression file %s)\n%v", id, rf.Kind, out, f, err)
		}
	}
	var keys []string
	for p := range probes {
		keys = append(keys, p)
	}
	sort.Strings(keys)
	for _, p := range keys {
		e := probes[p]
		rf, err := readReplay(p)
		if err != nil {
			t.Fatalf("known-finding probe: %v", err)
		}
		r, ok := replayers[rf.Kind]
		if !ok {
			t.Fatalf("%s: no replayer for kind %q", p, rf.Kind)
		}
		stats.Eval()
		stats.Class("known-probe")
		err = r(rf.Case)
		if err == nil {
			continue // no longer fails: nothing to report
		}
		var fd *Finding
		if errors.As(err, &fd) && fd.Key == e.Key {
			stats.KnownHit(e.Key)
			stats.KnownLine(fmt.Sprintf("KNOWN-FINDING: property=%s %s", id, e.Text))
			continue
		}
		stats.Violation()
		out := writeReplay(rf.Kind, json.RawMessage(rf.Case), "probe-changed", err.Error())
		t.Fatalf("VIOLATION-CANDIDATE property=%s kind=%s replay=%s (known-finding probe %s now fails differently)\n%v", id, rf.Kind, out, p, err)
	}
}
