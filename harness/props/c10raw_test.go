package props

import (
	"bytes"
	"encoding/hex"
	"fmt"
	"testing"

	cose "github.com/veraison/go-cose"

	"verifharness/bridge"
	rc "verifharness/refcbor"
	"verifharness/refcose"
	"verifharness/stats"
)

// Caller-supplied RawProtected on the parent and on the countersigner: exactly one well-formed byte string
// goes into the Countersign_structure (head normalised), anything else - stray bytes behind it, a truncated
// item, something that is no byte string - is refused before a key is used.
type c10RawCase struct {
	Where  string `json:"where"` // parent, countersigner
	Raw    rc.Hex `json:"raw"`
	Abbrev bool   `json:"abbrev,omitempty"`
	Op     string `json:"op"` // sign, verify
	Value  bool   `json:"value,omitempty"`
}

func checkC10Raw(c c10RawCase) error {
	n, perr := rc.Parse(c.Raw)
	valid := perr == nil && n.Major == 2 && !n.Indef && len(n.Raw()) == len(c.Raw)
	parentHdr := cose.Headers{Protected: cose.ProtectedHeader{int64(1): cose.AlgorithmEdDSA}}
	csHdr := cose.Headers{Protected: cose.ProtectedHeader{int64(1): cose.AlgorithmEdDSA}}
	if c.Where == "parent" {
		parentHdr.RawProtected = append([]byte{}, c.Raw...)
	} else {
		if c.Abbrev {
			return nil
		}
		csHdr.RawProtected = append([]byte{}, c.Raw...)
	}
	p := &cose.Sign1Message{Headers: parentHdr, Payload: []byte("payload"), Signature: []byte{1, 2, 3}}
	var parent any = p
	if c.Value {
		parent = *p
	}
	spyS, spyV := &bridge.SpySigner{Alg: cose.AlgorithmEdDSA}, &bridge.SpyVerifier{Alg: cose.AlgorithmEdDSA}
	var err error
	switch {
	case c.Abbrev && c.Op == "sign":
		_, err = cose.Countersign0(refcose.NewEntropy(nil), spyS, parent, nil)
	case c.Abbrev:
		err = cose.VerifyCountersign0(spyV, parent, nil, []byte{4, 5, 6})
	case c.Op == "sign":
		err = (&cose.Countersignature{Headers: csHdr}).Sign(refcose.NewEntropy(nil), spyS, parent, nil)
	default:
		err = (&cose.Countersignature{Headers: csHdr, Signature: []byte{4, 5, 6}}).Verify(spyV, parent, nil)
	}
	calls := spyS.NCalls() + spyV.NCalls()
	if !valid {
		if err == nil || calls != 0 {
			return finding("malformed-raw-protected-used", "%+v: the %s's RawProtected %x is not exactly one byte string, yet the operation proceeds (err=%v, key invoked %d times)", c, c.Where, []byte(c.Raw), err, calls)
		}
		stats.Class("raw/refused")
		return nil
	}
	if err != nil || calls != 1 {
		return finding("wellformed-raw-protected-refused", "%+v: err=%v, key invoked %d times", c, err, calls)
	}
	tbs := spyS.Last()
	if c.Op == "verify" {
		tbs = spyV.Last().Content
	}
	t, terr := rc.Parse(tbs)
	idx := 1
	if c.Where == "countersigner" {
		idx = 2
	}
	if terr != nil || len(t.Items) <= idx || !bytes.Equal(t.Items[idx].Content, n.Content) || !t.Items[idx].MinimalHead() {
		return finding("tbs-mismatch/raw-protected", "%+v: the structure handed to the key does not carry the %s's protected bytes %x in shortest form at position %d\ntbs=%x", c, c.Where, n.Content, idx, tbs)
	}
	stats.Class("raw/used")
	return nil
}

func init() { register("c10raw", checkC10Raw) }

func TestC10_RawProtected(t *testing.T) {
	begin(t, "C10", "rawprotected")
	raws := []string{"40", "43a10127", "5803a10127", "590003a10127", "4040", "404040", "4040405824", "43a1012700", "43a10127ff", "5803a1012700", "41", "43a101", "a0", "a10127", "f6", "5f43a10127ff", "63616263"}
	n := 0
	for _, r := range raws {
		raw, _ := hex.DecodeString(r)
		for _, where := range []string{"parent", "countersigner"} {
			for _, abbrev := range []bool{false, true} {
				for _, op := range []string{"sign", "verify"} {
					for _, val := range []bool{false, true} {
						if where == "countersigner" && abbrev {
							continue
						}
						c := c10RawCase{Where: where, Raw: raw, Abbrev: abbrev, Op: op, Value: val}
						n++
						stats.Eval()
						stats.NTBytes([]byte(fmt.Sprintf("%+v", c)))
						judge(t, "c10raw", c, checkC10Raw)
					}
				}
			}
		}
	}
	stats.ExhaustivePart("raw protected shapes x position x form x operation", n)
}

// Signature values that are themselves well-formed CBOR items (a byte string head followed by exactly that many
// bytes, an array, a tagged item ...): one genuine signature in 2^16 starts with 58 3e and is 64 bytes long. The
// verifier is handed the signature field exactly as given - not its content, not a prefix - over the reference
// structure, by every countersignature verification entry point; and what a signer returns is stored / returned
// exactly as returned.
type c10SigBytesCase struct {
	Entry string `json:"entry"` // VerifyCountersign0, Countersignature.Verify, decoded-countersignature, Countersign0, Countersignature.Sign
	Sig   rc.Hex `json:"signature"`
	Value bool   `json:"value,omitempty"`
}

func checkC10SigBytes(c c10SigBytesCase) error {
	p := &cose.Sign1Message{Headers: cose.Headers{Protected: cose.ProtectedHeader{int64(1): cose.AlgorithmEdDSA}, Unprotected: cose.UnprotectedHeader{}}, Payload: []byte("payload"), Signature: []byte{1, 2, 3}}
	var parent any = p
	if c.Value {
		parent = *p
	}
	bodyProt := []byte{0xa1, 0x01, 0x27}
	csHdr := cose.Headers{Protected: cose.ProtectedHeader{int64(1): cose.AlgorithmEdDSA}, Unprotected: cose.UnprotectedHeader{}}
	spyV := &bridge.SpyVerifier{Alg: cose.AlgorithmEdDSA}
	spyS := &bridge.SpySigner{Alg: cose.AlgorithmEdDSA, Inner: func([]byte) []byte { return append([]byte{}, c.Sig...) }}
	wantFull := refcose.CountersignStructure("CounterSignatureV2", bodyProt, bodyProt, nil, []byte("payload"), [][]byte{{1, 2, 3}})
	wantAbbrev := refcose.CountersignStructure("CounterSignature0V2", bodyProt, nil, nil, []byte("payload"), [][]byte{{1, 2, 3}})
	stats.Class("signature-bytes/" + c.Entry)
	switch c.Entry {
	case "Countersign0":
		out, err := cose.Countersign0(refcose.NewEntropy(nil), spyS, parent, nil)
		if err != nil || !bytes.Equal(out, c.Sig) {
			return finding("signature-bytes-changed", "Countersign0 returns %x (err=%v) where the signer returned %x", out, err, []byte(c.Sig))
		}
		return nil
	case "Countersignature.Sign":
		cs := &cose.Countersignature{Headers: csHdr}
		if err := cs.Sign(refcose.NewEntropy(nil), spyS, parent, nil); err != nil || !bytes.Equal(cs.Signature, c.Sig) {
			return finding("signature-bytes-changed", "Countersignature.Sign stores %x (err=%v) where the signer returned %x", cs.Signature, err, []byte(c.Sig))
		}
		enc, err := cs.MarshalCBOR()
		if err != nil {
			return finding("signature-bytes-changed", "a countersignature holding the signature %x is not encodable: %v", []byte(c.Sig), err)
		}
		var back cose.Countersignature
		if err := back.UnmarshalCBOR(enc); err != nil || !bytes.Equal(back.Signature, c.Sig) {
			return finding("signature-bytes-changed", "signature %x comes back as %x (err=%v) from encode + decode", []byte(c.Sig), back.Signature, err)
		}
		return nil
	}
	var err error
	want := wantFull
	switch c.Entry {
	case "VerifyCountersign0":
		want = wantAbbrev
		err = cose.VerifyCountersign0(spyV, parent, nil, append([]byte{}, c.Sig...))
	case "Countersignature.Verify":
		err = (&cose.Countersignature{Headers: csHdr, Signature: append([]byte{}, c.Sig...)}).Verify(spyV, parent, nil)
	case "decoded-countersignature":
		wire := rc.Encode(rc.Array(rc.Bytes(bodyProt), rc.Map(), rc.Bytes(c.Sig)), nil)
		var cs cose.Countersignature
		if derr := cs.UnmarshalCBOR(wire); derr != nil {
			return finding("signature-bytes-changed", "a countersignature whose signature is %x is refused by the decoder: %v", []byte(c.Sig), derr)
		}
		err = cs.Verify(spyV, parent, nil)
	}
	if err != nil || spyV.NCalls() != 1 {
		return finding("signature-bytes-changed", "%s with signature %x: err=%v, verifier invoked %d times (an accepting verifier, a non-empty signature)", c.Entry, []byte(c.Sig), err, spyV.NCalls())
	}
	call := spyV.Last()
	if !bytes.Equal(call.Sig, c.Sig) {
		return finding("signature-bytes-changed", "%s handed the verifier the signature %x where the caller gave %x", c.Entry, call.Sig, []byte(c.Sig))
	}
	if !bytes.Equal(call.Content, want) {
		return finding("tbs-mismatch/signature-bytes", "%s with signature %x: structure handed to the verifier differs from the reference\n got=%x\nwant=%x", c.Entry, []byte(c.Sig), call.Content, want)
	}
	return nil
}

func init() { register("c10sigbytes", checkC10SigBytes) }

func c10CBORLookingSignatures() [][]byte {
	fill := func(head []byte, n int) []byte {
		out := append([]byte{}, head...)
		for i := 0; len(out) < n; i++ {
			out = append(out, byte(0x11+i))
		}
		return out
	}
	return [][]byte{
		fill([]byte{0x58, 0x3e}, 64), fill([]byte{0x58, 0x5e}, 96), fill([]byte{0x58, 0x82}, 132), fill([]byte{0x59, 0x00, 0x81}, 132), fill([]byte{0x59, 0x00, 0xfd}, 256),
		fill([]byte{0x59, 0x00, 0x3d}, 64), fill([]byte{0x5a, 0, 0, 0, 0x3b}, 64), fill([]byte{0x78, 0x3e}, 64),
		{0x40}, {0x41, 0x07}, {0x42, 1, 2}, {0x43, 1, 2, 3}, {0x57, 1, 2, 3, 4, 5, 6, 7, 8, 9, 10, 11, 12, 13, 14, 15, 16, 17, 18, 19, 20, 21, 22, 23},
		{0x83, 0x40, 0xa0, 0x41, 0x01}, {0xd2, 0x84, 0x40, 0xa0, 0xf6, 0x41, 0x01}, {0xf6}, {0x00}, {0x80}, {0xa0}, {0x60}, {0xc2, 0x41, 0x01},
		fill([]byte{0x30, 0x44, 0x02, 0x20}, 70), fill([]byte{0x00, 0x00}, 64), fill([]byte{0xff}, 64),
	}
}

func TestC10_SignatureBytes(t *testing.T) {
	begin(t, "C10", "signaturebytes")
	n := 0
	for _, sig := range c10CBORLookingSignatures() {
		for _, e := range []string{"VerifyCountersign0", "Countersignature.Verify", "decoded-countersignature", "Countersign0", "Countersignature.Sign"} {
			for _, val := range []bool{false, true} {
				c := c10SigBytesCase{Entry: e, Sig: sig, Value: val}
				n++
				stats.Eval()
				stats.NTBytes([]byte(fmt.Sprintf("%+v", c)))
				judge(t, "c10sigbytes", c, checkC10SigBytes)
				if n%13 == 0 {
					stats.Sample("signature-bytes", c)
				}
			}
		}
	}
	stats.ExhaustivePart("signatures that are well-formed CBOR items x countersignature entry point x parent form", n)
}
