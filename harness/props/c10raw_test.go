package props

import (
	"bytes"
	"encoding/hex"
	"fmt"
	"testing"

	cose "github.com/veraison/go-cose"

	"verifharness/bridge"
	rc "verifharness/refcbor"
	"verifharness/refcose"
	"verifharness/stats"
)

// Caller-supplied RawProtected on the parent and on the countersigner: exactly one well-formed byte string
// goes into the Countersign_structure (head normalised), anything else - stray bytes behind it, a truncated
// item, something that is no byte string - is refused before a key is used.
type c10RawCase struct {
	Where  string `json:"where"` // parent, countersigner
	Raw    rc.Hex `json:"raw"`
	Abbrev bool   `json:"abbrev,omitempty"`
	Op     string `json:"op"` // sign, verify
	Value  bool   `json:"value,omitempty"`
}

func checkC10Raw(c c10RawCase) error {
	n, perr := rc.Parse(c.Raw)
	valid := perr == nil && n.Major == 2 && !n.Indef && len(n.Raw()) == len(c.Raw)
	parentHdr := cose.Headers{Protected: cose.ProtectedHeader{int64(1): cose.AlgorithmEdDSA}}
	csHdr := cose.Headers{Protected: cose.ProtectedHeader{int64(1): cose.AlgorithmEdDSA}}
	if c.Where == "parent" {
		parentHdr.RawProtected = append([]byte{}, c.Raw...)
	} else {
		if c.Abbrev {
			return nil
		}
		csHdr.RawProtected = append([]byte{}, c.Raw...)
	}
	p := &cose.Sign1Message{Headers: parentHdr, Payload: []byte("payload"), Signature: []byte{1, 2, 3}}
	var parent any = p
	if c.Value {
		parent = *p
	}
	spyS, spyV := &bridge.SpySigner{Alg: cose.AlgorithmEdDSA}, &bridge.SpyVerifier{Alg: cose.AlgorithmEdDSA}
	var err error
	switch {
	case c.Abbrev && c.Op == "sign":
		_, err = cose.Countersign0(refcose.NewEntropy(nil), spyS, parent, nil)
	case c.Abbrev:
		err = cose.VerifyCountersign0(spyV, parent, nil, []byte{4, 5, 6})
	case c.Op == "sign":
		err = (&cose.Countersignature{Headers: csHdr}).Sign(refcose.NewEntropy(nil), spyS, parent, nil)
	default:
		err = (&cose.Countersignature{Headers: csHdr, Signature: []byte{4, 5, 6}}).Verify(spyV, parent, nil)
	}
	calls := spyS.NCalls() + spyV.NCalls()
	if !valid {
		if err == nil || calls != 0 {
			return finding("malformed-raw-protected-used", "%+v: the %s's RawProtected %x is not exactly one byte string, yet the operation proceeds (err=%v, key invoked %d times)", c, c.Where, []byte(c.Raw), err, calls)
		}
		stats.Class("raw/refused")
		return nil
	}
	if err != nil || calls != 1 {
		return finding("wellformed-raw-protected-refused", "%+v: err=%v, key invoked %d times", c, err, calls)
	}
	tbs := spyS.Last()
	if c.Op == "verify" {
		tbs = spyV.Last().Content
	}
	t, terr := rc.Parse(tbs)
	idx := 1
	if c.Where == "countersigner" {
		idx = 2
	}
	if terr != nil || len(t.Items) <= idx || !bytes.Equal(t.Items[idx].Content, n.Content) || !t.Items[idx].MinimalHead() {
		return finding("tbs-mismatch/raw-protected", "%+v: the structure handed to the key does not carry the %s's protected bytes %x in shortest form at position %d\ntbs=%x", c, c.Where, n.Content, idx, tbs)
	}
	stats.Class("raw/used")
	return nil
}

func init() { register("c10raw", checkC10Raw) }

func TestC10_RawProtected(t *testing.T) {
	begin(t, "C10", "rawprotected")
	raws := []string{"40", "43a10127", "5803a10127", "590003a10127", "4040", "404040", "4040405824", "43a1012700", "43a10127ff", "5803a1012700", "41", "43a101", "a0", "a10127", "f6", "5f43a10127ff", "63616263"}
	n := 0
	for _, r := range raws {
		raw, _ := hex.DecodeString(r)
		for _, where := range []string{"parent", "countersigner"} {
			for _, abbrev := range []bool{false, true} {
				for _, op := range []string{"sign", "verify"} {
					for _, val := range []bool{false, true} {
						if where == "countersigner" && abbrev {
							continue
						}
						c := c10RawCase{Where: where, Raw: raw, Abbrev: abbrev, Op: op, Value: val}
						n++
						stats.Eval()
						stats.NTBytes([]byte(fmt.Sprintf("%+v", c)))
						judge(t, "c10raw", c, checkC10Raw)
					}
				}
			}
		}
	}
	stats.ExhaustivePart("raw protected shapes x position x form x operation", n)
}
