package props

import (
	"bytes"
	"crypto"
	"crypto/ecdh"
	"crypto/ecdsa"
	"crypto/ed25519"
	"crypto/elliptic"
	"crypto/rsa"
	"errors"
	"fmt"
	"io"
	"math/big"
	"strings"
	"sync"
	"testing"

	cose "github.com/veraison/go-cose"
	"pgregory.net/rapid"

	"verifharness/bridge"
	"verifharness/fixtures"
	"verifharness/gen"
	rc "verifharness/refcbor"
	"verifharness/refcose"
	"verifharness/stats"
)

// c17Key describes one key of the matrix.
type c17Key struct {
	Name   string
	Pub    crypto.PublicKey
	Priv   crypto.Signer // nil: a stub crypto.Signer reporting Pub is used for NewSigner
	Family string        // rsa, ec, ed, none
	RSAOK  bool          // modulus >= 2048 bits
	ECDHOK bool          // valid point on P-256/384/521
}

func ecKeyOn(curve elliptic.Curve, seed string) *ecdsa.PrivateKey {
	return refcose.ECPrivate(curve, []byte(seed))
}

var c17MultiPrime = sync.OnceValue(func() *rsa.PrivateKey {
	k, err := rsa.GenerateMultiPrimeKey(refcose.NewEntropy([]byte("c17-multiprime")), 3, 2048) //nolint:staticcheck // deprecated, still a valid key shape
	if err != nil {
		panic(err)
	}
	return k
})

func c17Keys() []c17Key {
	var ks []c17Key
	for _, n := range []string{"rsa1024", "rsa2047", "rsa2048", "rsa2049", "rsa2055", "rsa3072", "rsa4096"} {
		k := fixtures.RSA(n)
		ks = append(ks, c17Key{Name: n, Pub: &k.PublicKey, Priv: k, Family: "rsa", RSAOK: k.N.BitLen() >= 2048})
	}
	fab := func(bits int) *rsa.PublicKey {
		n := new(big.Int).Lsh(big.NewInt(1), uint(bits-1))
		n.Add(n, big.NewInt(12345))
		return &rsa.PublicKey{N: n, E: 65537}
	}
	for _, bits := range []int{2040, 2041, 2046, 2047, 2048, 2049, 8192, 16384, 16385, 20480, 32768} {
		p := fab(bits)
		ks = append(ks, c17Key{Name: fmt.Sprintf("rsa-modulus-%d-bits", bits), Pub: p, Family: "rsa", RSAOK: bits >= 2048})
	}
	// a multi-prime key (three factors): an RSA key of 2048 bits like any other
	ks = append(ks, c17Key{Name: "rsa2048-three-primes", Pub: &c17MultiPrime().PublicKey, Priv: c17MultiPrime(), Family: "rsa", RSAOK: true})
	// public exponents other than 65537: the statement restricts the modulus only
	for _, e := range []int{3, 17, 65539, 1<<31 - 1} {
		p := fab(2048)
		ks = append(ks, c17Key{Name: fmt.Sprintf("rsa-2048-public-exponent-%d", e), Pub: &rsa.PublicKey{N: p.N, E: e}, Family: "rsa", RSAOK: true})
	}
	for _, c := range []struct {
		n string
		c elliptic.Curve
		e bool
	}{{"P-224", elliptic.P224(), false}, {"P-256", elliptic.P256(), true}, {"P-384", elliptic.P384(), true}, {"P-521", elliptic.P521(), true}} {
		k := ecKeyOn(c.c, "c17-"+c.n)
		ks = append(ks, c17Key{Name: "ecdsa-" + c.n, Pub: &k.PublicKey, Priv: k, Family: "ec", ECDHOK: c.e})
	}
	// the points with x = 0 (and the smallest x > 0 that is on the curve): ordinary members of the family
	for _, cv := range []elliptic.Curve{elliptic.P256(), elliptic.P384(), elliptic.P521()} {
		for _, odd := range []bool{false, true} {
			if y := c14YFor(cv, new(big.Int), odd); y != nil {
				ks = append(ks, c17Key{Name: fmt.Sprintf("ecdsa-%s-x-zero-y-odd-%v", cv.Params().Name, odd), Pub: &ecdsa.PublicKey{Curve: cv, X: new(big.Int), Y: y}, Family: "ec", ECDHOK: true})
			}
		}
	}
	good := ecKeyOn(elliptic.P256(), "c17-offcurve")
	off := &ecdsa.PublicKey{Curve: elliptic.P256(), X: new(big.Int).Set(good.X), Y: new(big.Int).Add(good.Y, big.NewInt(1))}
	ks = append(ks, c17Key{Name: "ecdsa-off-curve", Pub: off, Family: "ec"})
	ks = append(ks, c17Key{Name: "ecdsa-infinity", Pub: &ecdsa.PublicKey{Curve: elliptic.P256(), X: new(big.Int), Y: new(big.Int)}, Family: "ec"})
	g384 := ecKeyOn(elliptic.P384(), "c17-wrongcurve")
	ks = append(ks, c17Key{Name: "ecdsa-P-384-point-labelled-P-256", Pub: &ecdsa.PublicKey{Curve: elliptic.P256(), X: g384.X, Y: g384.Y}, Family: "ec"})
	ed := ed25519.NewKeyFromSeed([]byte("c17-ed25519-seed-of-32-bytes!!!!"))
	ks = append(ks, c17Key{Name: "ed25519", Pub: ed.Public(), Priv: ed, Family: "ed"})
	// the same keys reachable only through the crypto.Signer interface (HSM / KMS handle, wrapper
	// struct, pointer): the family is what Public() reports
	ks = append(ks, c17Key{Name: "ed25519-opaque", Pub: ed.Public(), Priv: opaqueSigner{ed}, Family: "ed"})
	ks = append(ks, c17Key{Name: "ed25519-pointer", Pub: ed.Public(), Priv: &ed, Family: "ed"})
	r2048 := fixtures.RSA("rsa2048")
	ks = append(ks, c17Key{Name: "rsa2048-opaque", Pub: &r2048.PublicKey, Priv: opaqueSigner{r2048}, Family: "rsa", RSAOK: true})
	r1024 := fixtures.RSA("rsa1024")
	ks = append(ks, c17Key{Name: "rsa1024-opaque", Pub: &r1024.PublicKey, Priv: opaqueSigner{r1024}, Family: "rsa"})
	p256 := ecKeyOn(elliptic.P256(), "c17-opaque")
	ks = append(ks, c17Key{Name: "ecdsa-P-256-opaque", Pub: &p256.PublicKey, Priv: opaqueSigner{p256}, Family: "ec", ECDHOK: true})
	// an ECDSA key whose curve is given as bare parameters (what x509 parsing of explicit parameters, a
	// test double or another library yields): an ECDSA key for signing; crypto/ecdh does not know it
	pp := ecKeyOn(elliptic.P256(), "c17-params-curve")
	ppk := &ecdsa.PrivateKey{PublicKey: ecdsa.PublicKey{Curve: elliptic.P256().Params(), X: pp.X, Y: pp.Y}, D: pp.D}
	ks = append(ks, c17Key{Name: "ecdsa-P-256-as-CurveParams", Pub: &ppk.PublicKey, Priv: ppk, Family: "ec"})
	ks = append(ks, c17Key{Name: "ecdsa-P-256-as-CurveParams-opaque", Pub: &ppk.PublicKey, Priv: opaqueSigner{ppk}, Family: "ec"})
	// COSE_Key objects handed to the constructors (documented key types are the Go keys; should an
	// implementation take these too, the object it returns still has to be one for the requested algorithm)
	for _, ck := range []struct {
		name string
		pub  crypto.PublicKey
		alg  cose.Algorithm
		fam  string
	}{{"P-256", &p256.PublicKey, 0, "ec"}, {"P-256-alg-ES256", &p256.PublicKey, cose.AlgorithmES256, "ec"}, {"Ed25519", ed.Public(), 0, "ed"}, {"Ed25519-alg-EdDSA", ed.Public(), cose.AlgorithmEdDSA, "ed"}} {
		kk, err := cose.NewKeyFromPublic(ck.pub)
		if err != nil {
			panic(err)
		}
		kk.Algorithm = ck.alg
		ks = append(ks, c17Key{Name: "cose-key-pointer-" + ck.name, Pub: kk, Family: "cose-key:" + ck.fam})
		ks = append(ks, c17Key{Name: "cose-key-value-" + ck.name, Pub: *kk, Family: "cose-key:" + ck.fam})
	}
	// values of the right Go type that are not keys: wrong-length Ed25519 keys, nil pointers, structures
	// without modulus / curve / coordinates. Not members of any family: refused (not accepted, no panic)
	ks = append(ks,
		// 32-octet Ed25519 public keys whose encoding is unusual: y not reduced (2^255-19 .. 2^255-1, with and without the
		// sign bit), the neutral element, a point of small order, all zero / all ones. Ed25519 keys all the same
		// (crypto/ed25519 takes them): accepted for EdDSA
		c17Key{Name: "ed25519-public-all-ff", Pub: ed25519.PublicKey(bytes.Repeat([]byte{0xff}, 32)), Family: "ed"},
		c17Key{Name: "ed25519-public-y-equals-p", Pub: ed25519.PublicKey(append(append([]byte{0xed}, bytes.Repeat([]byte{0xff}, 30)...), 0x7f)), Family: "ed"},
		c17Key{Name: "ed25519-public-y-equals-p-plus-1", Pub: ed25519.PublicKey(append(append([]byte{0xee}, bytes.Repeat([]byte{0xff}, 30)...), 0x7f)), Family: "ed"},
		c17Key{Name: "ed25519-public-y-equals-p-sign-bit", Pub: ed25519.PublicKey(append(append([]byte{0xed}, bytes.Repeat([]byte{0xff}, 30)...), 0xff)), Family: "ed"},
		c17Key{Name: "ed25519-public-y-2^255-1", Pub: ed25519.PublicKey(append(bytes.Repeat([]byte{0xff}, 31), 0x7f)), Family: "ed"},
		c17Key{Name: "ed25519-public-neutral", Pub: ed25519.PublicKey(append([]byte{1}, make([]byte, 31)...)), Family: "ed"},
		c17Key{Name: "ed25519-public-all-zero", Pub: ed25519.PublicKey(make([]byte, 32)), Family: "ed"},
		c17Key{Name: "ed25519-public-order-2", Pub: ed25519.PublicKey(append(append([]byte{0xec}, bytes.Repeat([]byte{0xff}, 30)...), 0x7f)), Family: "ed"},
		c17Key{Name: "malformed-ed25519-public-3-bytes", Pub: ed25519.PublicKey{1, 2, 3}, Family: "none"},
		c17Key{Name: "malformed-ed25519-public-empty", Pub: ed25519.PublicKey{}, Family: "none"},
		c17Key{Name: "malformed-ed25519-public-33-bytes", Pub: ed25519.PublicKey(make([]byte, 33)), Family: "none"},
		c17Key{Name: "malformed-ed25519-private-3-bytes", Pub: ed25519.PublicKey{1, 2, 3}, Priv: ed25519.PrivateKey{1, 2, 3}, Family: "none"},
		c17Key{Name: "malformed-ed25519-private-65-bytes", Pub: ed25519.PublicKey{1, 2, 3}, Priv: ed25519.PrivateKey(make([]byte, 65)), Family: "none"},
		c17Key{Name: "malformed-ed25519-private-128-bytes", Pub: ed25519.PublicKey{1, 2, 3}, Priv: ed25519.PrivateKey(make([]byte, 128)), Family: "none"},
		// the same through a pointer (a *ed25519.PrivateKey is a crypto.Signer and, at the right length, an accepted EdDSA key)
		c17Key{Name: "malformed-ed25519-private-pointer-10-bytes", Pub: ed25519.PublicKey{1, 2, 3}, Priv: func() crypto.Signer { k := ed25519.PrivateKey(make([]byte, 10)); return &k }(), Family: "none"},
		c17Key{Name: "malformed-ed25519-private-pointer-empty", Pub: ed25519.PublicKey{1, 2, 3}, Priv: func() crypto.Signer { k := ed25519.PrivateKey{}; return &k }(), Family: "none"},
		c17Key{Name: "malformed-ed25519-private-pointer-96-bytes", Pub: ed25519.PublicKey{1, 2, 3}, Priv: func() crypto.Signer { k := ed25519.PrivateKey(make([]byte, 96)); return &k }(), Family: "none"},
		c17Key{Name: "malformed-ed25519-private-nil-pointer", Pub: ed25519.PublicKey{1, 2, 3}, Priv: (*ed25519.PrivateKey)(nil), Family: "none"},
		// typed-nil private keys: touching them panics (inside the standard library), so only the algorithms that
		// have no built-in signer are asked for - they are refused without looking at the key
		c17Key{Name: "typed-nil-rsa-private-key", Priv: (*rsa.PrivateKey)(nil), Family: "typed-nil"},
		c17Key{Name: "typed-nil-ecdsa-private-key", Priv: (*ecdsa.PrivateKey)(nil), Family: "typed-nil"},
		c17Key{Name: "malformed-ecdsa-nil-pointer", Pub: (*ecdsa.PublicKey)(nil), Family: "none"},
		c17Key{Name: "malformed-ecdsa-no-coordinates", Pub: &ecdsa.PublicKey{Curve: elliptic.P256()}, Family: "none-verifier"},
		c17Key{Name: "malformed-ecdsa-no-curve", Pub: &ecdsa.PublicKey{X: big.NewInt(1), Y: big.NewInt(1)}, Family: "none"},
		c17Key{Name: "malformed-rsa-nil-pointer", Pub: (*rsa.PublicKey)(nil), Family: "none"},
		c17Key{Name: "malformed-rsa-no-modulus", Pub: &rsa.PublicKey{E: 65537}, Family: "none"},
	)
	// foreign key types
	edPub := ed.Public().(ed25519.PublicKey)
	xk, _ := ecdh.X25519().NewPrivateKey(make([]byte, 32))
	ks = append(ks,
		c17Key{Name: "foreign-nil", Pub: nil, Family: "none"},
		c17Key{Name: "foreign-string", Pub: "key", Family: "none"},
		c17Key{Name: "foreign-struct", Pub: struct{}{}, Family: "none"},
		c17Key{Name: "foreign-rsa-by-value", Pub: fixtures.RSA("rsa2048").PublicKey, Family: "none"},
		c17Key{Name: "foreign-ecdsa-by-value", Pub: good.PublicKey, Family: "none"},
		c17Key{Name: "foreign-ed25519-pointer", Pub: &edPub, Family: "none"},
		c17Key{Name: "foreign-ecdh-x25519", Pub: xk.PublicKey(), Family: "none"},
		c17Key{Name: "foreign-bytes", Pub: []byte(edPub), Family: "none"},
		// key-agreement keys on the NIST curves: same points, not signature keys
		c17Key{Name: "foreign-ecdh-p256", Pub: func() crypto.PublicKey { k, _ := good.PublicKey.ECDH(); return k }(), Family: "none"},
		c17Key{Name: "foreign-ecdh-p384", Pub: func() crypto.PublicKey { k, _ := ecKeyOn(elliptic.P384(), "c17-ecdh-384").PublicKey.ECDH(); return k }(), Family: "none"},
		c17Key{Name: "foreign-ecdh-p521", Pub: func() crypto.PublicKey { k, _ := ecKeyOn(elliptic.P521(), "c17-ecdh-521").PublicKey.ECDH(); return k }(), Family: "none"},
		c17Key{Name: "foreign-ecdh-p256-private", Pub: func() crypto.PublicKey { k, _ := good.ECDH(); return k }(), Family: "none"},
		c17Key{Name: "foreign-ecdh-x25519-private", Pub: xk, Family: "none"},
	)
	return ks
}

func algFamily(a int64) string {
	switch a {
	case refcose.AlgPS256, refcose.AlgPS384, refcose.AlgPS512:
		return "rsa"
	case refcose.AlgES256, refcose.AlgES384, refcose.AlgES512:
		return "ec"
	case refcose.AlgEdDSA:
		return "ed"
	}
	return ""
}

var c17Algs = []int64{-7, -35, -36, -8, -37, -38, -39, -257, -258, -259, 0,
	-1, -2, -3, -4, -5, -6, -9, -10, -16, -34, -40, -41, -43, -44, -47, -65535, -65537, 1, 2, 3, 5, 7, 24, 256, -260, -261, 1 << 32, -(1 << 40), 9223372036854775807, -9223372036854775808}

type c17Cell struct {
	Alg  int64  `json:"alg"`
	Key  string `json:"key"`
	Side string `json:"side"` // signer, verifier
}

var c17KeyCache []c17Key

func c17KeyByName(n string) *c17Key {
	if c17KeyCache == nil {
		c17KeyCache = c17Keys()
	}
	for i := range c17KeyCache {
		if c17KeyCache[i].Name == n {
			return &c17KeyCache[i]
		}
	}
	return nil
}

func checkC17Cell(c c17Cell) error {
	k := c17KeyByName(c.Key)
	if k == nil {
		return fmt.Errorf("harness: unknown key %q", c.Key)
	}
	fam := algFamily(c.Alg)
	alg := cose.Algorithm(c.Alg)
	if k.Family == "typed-nil" {
		if c.Side != "signer" || fam != "" {
			stats.Class("skipped/typed-nil-key-with-a-supported-algorithm")
			return nil
		}
		k = &c17Key{Name: k.Name, Priv: k.Priv, Family: "none"}
	}
	var err error
	var gotAlg cose.Algorithm
	var isNil bool
	if c.Side == "signer" {
		var cs crypto.Signer = k.Priv
		if cs == nil {
			pub := k.Pub
			cs = &bridge.StubCryptoSigner{Pub: pub, SignFn: func(io.Reader, []byte, crypto.SignerOpts) ([]byte, error) { return nil, errors.New("stub") }}
		}
		var s cose.Signer
		s, err = cose.NewSigner(alg, cs)
		isNil = s == nil
		if err == nil && s != nil {
			gotAlg = s.Algorithm()
		}
	} else {
		var v cose.Verifier
		v, err = cose.NewVerifier(alg, k.Pub)
		isNil = v == nil
		if err == nil && v != nil {
			gotAlg = v.Algorithm()
		}
	}
	if strings.HasPrefix(k.Family, "cose-key:") {
		if err != nil {
			stats.Class("refused/cose-key-object")
			return nil
		}
		if isNil || gotAlg != alg || fam != strings.TrimPrefix(k.Family, "cose-key:") {
			return finding("wrong-algorithm-reported", "New%s(%v, %s) succeeds and returns an object reporting %v (nil=%v) for a key of the %s family", c.Side, alg, c.Key, gotAlg, isNil, strings.TrimPrefix(k.Family, "cose-key:"))
		}
		stats.Class("created/from-cose-key-object")
		return nil
	}
	if k.Family == "none-verifier" {
		// a public key structure that names its curve but carries no point: what an opaque signer reports is
		// enough to size signatures, a verifier cannot be built from it
		if c.Side == "signer" {
			stats.Class("skipped/coordinate-less-key-on-the-signer-side")
			return nil
		}
		k = &c17Key{Name: k.Name, Pub: k.Pub, Family: "none"}
	}
	want := fam != "" && fam == k.Family
	why := "family"
	if want && fam == "rsa" && !k.RSAOK {
		want, why = false, "rsa-size"
	}
	if want && fam == "ec" && c.Side == "verifier" && !k.ECDHOK {
		want, why = false, "ec-point"
	}
	if (err == nil) != want {
		if err == nil {
			return finding("created-for-inadequate-key/"+why, "New%s(%v, %s) succeeds (model: refused, %s)", c.Side, alg, c.Key, why)
		}
		return finding("refused-adequate-key", "New%s(%v, %s) fails: %v", c.Side, alg, c.Key, err)
	}
	if err == nil {
		if isNil {
			return finding("nil-without-error", "New%s(%v, %s) returned nil, nil", c.Side, alg, c.Key)
		}
		if gotAlg != alg {
			return finding("wrong-algorithm-reported", "New%s(%v, %s).Algorithm() = %v", c.Side, alg, c.Key, gotAlg)
		}
		stats.Class("created/" + fam)
		return nil
	}
	if !isNil {
		return finding("object-with-error", "New%s(%v, %s) returned an object together with %v", c.Side, alg, c.Key, err)
	}
	// documented error classes
	switch {
	case fam == "":
		if !errors.Is(err, cose.ErrAlgorithmNotSupported) {
			return finding("wrong-error-class", "New%s(%v, %s): %v is not ErrAlgorithmNotSupported", c.Side, alg, c.Key, err)
		}
		stats.Class("refused/algorithm-not-supported")
	case fam != k.Family || why == "ec-point":
		if !errors.Is(err, cose.ErrInvalidPubKey) {
			return finding("wrong-error-class", "New%s(%v, %s): %v is not ErrInvalidPubKey", c.Side, alg, c.Key, err)
		}
		stats.Class("refused/invalid-public-key")
	default:
		stats.Class("refused/rsa-key-too-small")
	}
	return nil
}

func init() { register("c17cell", checkC17Cell) }

func TestC17_Matrix(t *testing.T) {
	begin(t, "C17", "matrix")
	n := 0
	for _, a := range c17Algs {
		for _, k := range c17Keys() {
			for _, side := range []string{"signer", "verifier"} {
				c := c17Cell{Alg: a, Key: k.Name, Side: side}
				n++
				stats.Eval()
				judge(t, "c17cell", c, checkC17Cell)
				stats.NTBytes([]byte(fmt.Sprint(c)))
				if n%53 == 0 {
					stats.Sample("cell", c)
				}
			}
		}
	}
	stats.ExhaustivePart("algorithm x key x side matrix", n)
}

// ---------------------------------------------------------------------------
// Sign / SignDigest / Verify / VerifyDigest equivalence

type c17DigestCase struct {
	Key     refcose.KeyMat `json:"key"` // Alg may differ from the curve's natural algorithm (cross use is allowed)
	Msg     rc.Hex         `json:"msg"`
	NilRand bool           `json:"nil_rand,omitempty"` // (with Opaque) the key has entropy of its own; Sign / SignDigest are handed no reader
	Opaque  bool           `json:"opaque,omitempty"`   // the signer gets the key only as an opaque crypto.Signer (HSM / KMS style)
	// Reentrant: while the signer waits for entropy (after it has hashed the message, before the key
	// operation) the same signer object signs another message: the stand-in for a second goroutine
	Reentrant bool `json:"reentrant,omitempty"`
	// MsgSigner (with Opaque): the opaque key also offers the message-level entry point of Go 1.25's
	// crypto.MessageSigner (SignMessage hashes the message itself: with the hash named by the options, or with the
	// key's own default hash when none is named) next to Sign - a service-backed key. Whichever entry point the
	// library uses, the signature is one under the COSE algorithm's hash
	MsgSigner bool `json:"message_signer,omitempty"`
}

// messageSigningKey is an opaque key with both entry points.
type messageSigningKey struct{ inner crypto.Signer }

func (o messageSigningKey) Public() crypto.PublicKey { return o.inner.Public() }
func (o messageSigningKey) Sign(r io.Reader, d []byte, opts crypto.SignerOpts) ([]byte, error) {
	return o.inner.Sign(r, d, opts)
}
func (o messageSigningKey) SignMessage(r io.Reader, msg []byte, opts crypto.SignerOpts) ([]byte, error) {
	h := crypto.SHA256 // the key's own default
	if pk, ok := o.inner.Public().(*ecdsa.PublicKey); ok && pk.Curve.Params().BitSize > 256 {
		h = crypto.SHA512
	}
	if opts != nil && opts.HashFunc() != 0 {
		h = opts.HashFunc()
	}
	if _, ok := o.inner.Public().(ed25519.PublicKey); ok {
		return o.inner.Sign(r, msg, crypto.Hash(0))
	}
	if opts == nil {
		opts = h
	}
	return o.inner.Sign(r, refcose.Digest(h, msg), opts)
}

// hookReader runs hook once, on its first Read.
type hookReader struct {
	inner io.Reader
	hook  func()
	done  bool
}

func (r *hookReader) Read(p []byte) (int, error) {
	if !r.done {
		r.done = true
		r.hook()
	}
	return r.inner.Read(p)
}

// opaqueSigner hides the concrete key type behind crypto.Signer.
type opaqueSigner struct{ inner crypto.Signer }

func (o opaqueSigner) Public() crypto.PublicKey { return o.inner.Public() }
func (o opaqueSigner) Sign(r io.Reader, d []byte, opts crypto.SignerOpts) ([]byte, error) {
	return o.inner.Sign(r, d, opts)
}

// selfSeededKey is an opaque key that has its own entropy (a token, a KMS): it ignores the reader it is handed,
// so its callers may pass none at all.
type selfSeededKey struct {
	inner crypto.Signer
	seed  []byte
}

func (k selfSeededKey) Public() crypto.PublicKey { return k.inner.Public() }
func (k selfSeededKey) Sign(_ io.Reader, d []byte, opts crypto.SignerOpts) ([]byte, error) {
	return k.inner.Sign(refcose.NewEntropy(append(append([]byte{}, k.seed...), d...)), d, opts)
}

func checkC17Digest(c c17DigestCase) error {
	sg, err := libSigner(c.Key, false)
	if c.Opaque && c.NilRand {
		sg, err = cose.NewSigner(cose.Algorithm(c.Key.Alg), selfSeededKey{c.Key.Private(), []byte("self-seeded")})
		stats.Class("digest-equivalence/opaque-key-with-its-own-entropy-and-no-reader")
	} else if c.Opaque {
		sg, err = cose.NewSigner(cose.Algorithm(c.Key.Alg), opaqueSigner{c.Key.Private()})
		stats.Class("digest-equivalence/opaque-crypto-signer")
		if c.MsgSigner {
			sg, err = cose.NewSigner(cose.Algorithm(c.Key.Alg), messageSigningKey{c.Key.Private()})
			stats.Class("digest-equivalence/opaque-message-signer")
		}
	}
	if err != nil {
		return finding("newsigner", "%v", err)
	}
	vf, err := libVerifier(c.Key, false)
	if err != nil {
		return finding("newverifier", "%v", err)
	}
	ds, ok1 := sg.(cose.DigestSigner)
	dv, ok2 := vf.(cose.DigestVerifier)
	if !ok1 || !ok2 {
		return finding("no-digest-interface", "RSA / ECDSA signer or verifier lacks the digest interface (%v, %v)", ok1, ok2)
	}
	h := refcose.HashFor(c.Key.Alg)
	digest := refcose.Digest(h, c.Msg)
	rnd := refcose.NewEntropy(c.Msg)
	var rnd1, rnd2 io.Reader = rnd, rnd
	if c.Opaque && c.NilRand {
		rnd1, rnd2 = nil, nil
	} else if c.Reentrant {
		other := append([]byte("another message signed by the same signer object: "), c.Msg...)
		rnd1 = &hookReader{inner: rnd, hook: func() { sg.Sign(refcose.NewEntropy(other), other) }}
		rnd2 = &hookReader{inner: rnd, hook: func() { ds.SignDigest(refcose.NewEntropy(other), refcose.Digest(h, other)) }}
		stats.Class("digest-equivalence/signer-re-entered-while-waiting-for-entropy")
	}
	s1, err := sg.Sign(rnd1, c.Msg)
	if err != nil {
		return finding("sign-fails", "%v", err)
	}
	s2, err := ds.SignDigest(rnd2, digest)
	if err != nil {
		return finding("signdigest-fails", "%v", err)
	}
	for i, s := range [][]byte{s1, s2} {
		from := []string{"Sign(m)", "SignDigest(H(m))"}[i]
		if err := vf.Verify(c.Msg, s); err != nil {
			return finding("digest-equivalence", "signature from %s does not verify through Verify(m): %v", from, err)
		}
		if err := dv.VerifyDigest(digest, s); err != nil {
			return finding("digest-equivalence", "signature from %s does not verify through VerifyDigest(H(m)): %v", from, err)
		}
		if !refcose.Verify(c.Key.Alg, c.Key.Public(), c.Msg, s) {
			return finding("digest-equivalence", "signature from %s is not valid under the algorithm's hash according to the reference verifier", from)
		}
		for _, other := range []crypto.Hash{crypto.SHA256, crypto.SHA384, crypto.SHA512} {
			if other == h {
				continue
			}
			if err := dv.VerifyDigest(refcose.Digest(other, c.Msg), s); err == nil {
				return finding("verifies-with-other-hash", "signature from %s verifies against the %v digest although the algorithm's hash is %v", from, other, h)
			}
		}
		if err := vf.Verify(append([]byte{0}, c.Msg...), s); err == nil {
			return finding("verifies-other-message", "signature verifies for another message")
		}
	}
	// a signature over the digest of another hash must not verify as a signature over m
	for _, other := range []crypto.Hash{crypto.SHA256, crypto.SHA384, crypto.SHA512} {
		if other == h {
			continue
		}
		s3, err := ds.SignDigest(rnd, refcose.Digest(other, c.Msg))
		if err != nil {
			continue // RSA-PSS refuses digests of the wrong length
		}
		if err := vf.Verify(c.Msg, s3); err == nil {
			return finding("verifies-with-other-hash", "a signature over the %v digest verifies through Verify(m) under %s", other, refcose.AlgName(c.Key.Alg))
		}
	}
	stats.Class("digest-equivalence/" + refcose.AlgName(c.Key.Alg))
	stats.NTBytes([]byte(fmt.Sprint(c.Key)), c.Msg)
	return nil
}

func init() { register("c17digest", checkC17Digest) }

func TestC17_Digest(t *testing.T) {
	begin(t, "C17", "digest")
	prop(t, func(rt *rapid.T) {
		alg := rapid.SampledFrom([]int64{refcose.AlgES256, refcose.AlgES384, refcose.AlgES512, refcose.AlgPS256, refcose.AlgPS384, refcose.AlgPS512}).Draw(rt, "alg")
		km := gen.KeyMat(rt, alg)
		if km.Family() == "ec" && rapid.IntRange(0, 3).Draw(rt, "cross-curve") == 0 {
			km.Curve = rapid.SampledFrom([]int{256, 384, 521}).Draw(rt, "curve")
		}
		c := c17DigestCase{Key: km, Msg: gen.Blob(rt, "msg", gen.BoundaryLen(rt, "msglen", false)), Opaque: rapid.IntRange(0, 2).Draw(rt, "opaque") == 0, Reentrant: rapid.IntRange(0, 2).Draw(rt, "reentrant") == 0, NilRand: rapid.IntRange(0, 2).Draw(rt, "nil-rand") == 0}
		if c.Msg == nil {
			c.Msg = rc.Hex{}
		}
		c.MsgSigner = c.Opaque && rapid.Bool().Draw(rt, "message-signer")
		stats.Eval()
		if len(c.Msg) < 16 {
			stats.Sample("digest/"+refcose.AlgName(alg), c)
		}
		judge(rt, "c17digest", c, checkC17Digest)
	})
}

// ---------------------------------------------------------------------------
// sequences of calls on one key struct that the caller updates in place

type c17SeqCase struct {
	Alg   int64    `json:"alg"`
	Side  string   `json:"side"`
	Steps []string `json:"steps"` // key names, copied one after the other into the SAME key struct
}

func checkC17Seq(c c17SeqCase) error {
	alg := cose.Algorithm(c.Alg)
	ecSlot := &ecdsa.PublicKey{}
	rsaSlot := &rsa.PublicKey{}
	for i, name := range c.Steps {
		k := c17KeyByName(name)
		if k == nil {
			return fmt.Errorf("harness: unknown key %q", name)
		}
		var pub crypto.PublicKey
		switch p := k.Pub.(type) {
		case *ecdsa.PublicKey:
			*ecSlot = *p
			pub = ecSlot
		case *rsa.PublicKey:
			*rsaSlot = *p
			pub = rsaSlot
		default:
			return fmt.Errorf("harness: key %q cannot be updated in place", name)
		}
		var err error
		if c.Side == "verifier" {
			_, err = cose.NewVerifier(alg, pub)
		} else {
			_, err = cose.NewSigner(alg, &bridge.StubCryptoSigner{Pub: pub, SignFn: func(io.Reader, []byte, crypto.SignerOpts) ([]byte, error) { return nil, errors.New("stub") }})
		}
		fam := algFamily(c.Alg)
		want := fam == k.Family && (fam != "rsa" || k.RSAOK) && (fam != "ec" || c.Side != "verifier" || k.ECDHOK)
		if (err == nil) != want {
			return finding("stale-key-validation", "step %d of %v: New%s(%v, <same key struct, now holding %s>) err=%v, model says success=%v (the key must be validated on every call)", i, c.Steps, c.Side, alg, name, err, want)
		}
	}
	stats.Class("sequence/" + c.Side)
	return nil
}

func init() { register("c17seq", checkC17Seq) }

func TestC17_Sequences(t *testing.T) {
	begin(t, "C17", "sequences")
	var ec, rs []string
	for _, k := range c17Keys() {
		if k.Family == "none-verifier" || k.Family == "typed-nil" {
			continue
		}
		switch p := k.Pub.(type) {
		case *ecdsa.PublicKey:
			if p != nil {
				ec = append(ec, k.Name)
			}
		case *rsa.PublicKey:
			if p != nil {
				rs = append(rs, k.Name)
			}
		}
	}
	n := 0
	run := func(c c17SeqCase) {
		n++
		stats.Eval()
		judge(t, "c17seq", c, checkC17Seq)
		stats.NTBytes([]byte(fmt.Sprint(c)))
		if n%97 == 0 {
			stats.Sample("sequence", c)
		}
	}
	for _, side := range []string{"verifier", "signer"} {
		for _, alg := range []int64{refcose.AlgES256, refcose.AlgES384, refcose.AlgES512} {
			for _, a := range ec {
				for _, b := range ec {
					for _, c3 := range ec {
						run(c17SeqCase{Alg: alg, Side: side, Steps: []string{a, b, c3}})
					}
				}
			}
		}
		for _, alg := range []int64{refcose.AlgPS256, refcose.AlgPS512} {
			for _, a := range rs {
				for _, b := range rs {
					run(c17SeqCase{Alg: alg, Side: side, Steps: []string{a, b, a}})
				}
			}
		}
	}
	stats.ExhaustivePart("in-place key update sequences", n)
}
