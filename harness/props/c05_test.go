package props

import (
	"errors"
	"fmt"
	"testing"

	cose "github.com/veraison/go-cose"
	"pgregory.net/rapid"

	"verifharness/gen"
	rc "verifharness/refcbor"
	"verifharness/refcose"
	"verifharness/stats"
)

// allKinds lists the seven message / signature / header decoders.
var allKinds = []refcose.Kind{refcose.KSign1, refcose.KSign1Untagged, refcose.KSign, refcose.KSignature,
	refcose.KCountersignature, refcose.KProtected, refcose.KUnprotected}

// decodeAny runs the library decoder of the given kind on a private copy of
// wire and returns the decoded value.
func decodeAny(kind refcose.Kind, wire []byte) (any, error) {
	return decodeAnyFrom(kind, append([]byte{}, wire...))
}

// decodeAnyFrom decodes from the caller's buffer itself (no private copy).
func decodeAnyFrom(kind refcose.Kind, in []byte) (any, error) {
	switch kind {
	case refcose.KSign1:
		v := &cose.Sign1Message{}
		return v, v.UnmarshalCBOR(in)
	case refcose.KSign1Untagged:
		v := &cose.UntaggedSign1Message{}
		return v, v.UnmarshalCBOR(in)
	case refcose.KSign:
		v := &cose.SignMessage{}
		return v, v.UnmarshalCBOR(in)
	case refcose.KSignature:
		v := &cose.Signature{}
		return v, v.UnmarshalCBOR(in)
	case refcose.KCountersignature:
		v := &cose.Countersignature{}
		return v, v.UnmarshalCBOR(in)
	case refcose.KProtected:
		v := &cose.ProtectedHeader{}
		return v, v.UnmarshalCBOR(in)
	case refcose.KUnprotected:
		v := &cose.UnprotectedHeader{}
		return v, v.UnmarshalCBOR(in)
	}
	return nil, fmt.Errorf("decodeAny: unknown kind %d", kind)
}

// mutCase is a (possibly) ill-formed input derived from a valid seed.
type mutCase struct {
	SeedKind refcose.Kind   `json:"seed_kind"`
	Seed     rc.Hex         `json:"seed,omitempty"`
	Wire     rc.Hex         `json:"wire"`
	Muts     []gen.Mutation `json:"mutations,omitempty"`
	// HKey: key with which the seed (a hash envelope) was signed, so that VerifyHashEnvelope gets past the signature check
	HKey *refcose.KeyMat `json:"hkey,omitempty"`
}

// seedFor draws a valid encoding of the given kind (peer encoder choices,
// nested countersignatures).
func seedFor(t *rapid.T, kind refcose.Kind) []byte {
	o := c07Opts()
	o.Hdr.MaxEntries = 6
	a := refcose.AlgEdDSA
	o.FixedAlg = &a
	o.HugeLens = false
	switch kind {
	case refcose.KSign1, refcose.KSign1Untagged, refcose.KSign:
		o.Kinds = []refcose.Kind{kind}
		c, _ := genWireCase(t, o, true)
		return c.Wire
	}
	o.Kinds = []refcose.Kind{refcose.KSign}
	o.MaxSigners = 2
	c, _ := genWireCase(t, o, true)
	env, err := refcose.ParseEnv(refcose.KSign, c.Wire)
	if err != nil {
		panic("seedFor: " + err.Error())
	}
	switch kind {
	case refcose.KSignature, refcose.KCountersignature:
		return append([]byte{}, env.Sigs[0].Root.Raw()...)
	case refcose.KProtected:
		if rapid.Bool().Draw(t, "seed-sigprot") {
			return append([]byte{}, env.Sigs[0].Prot.Raw()...)
		}
		return append([]byte{}, env.Prot.Raw()...)
	}
	if rapid.Bool().Draw(t, "seed-sigunprot") {
		return append([]byte{}, env.Sigs[0].Unprot.Raw()...)
	}
	return append([]byte{}, env.Unprot.Raw()...)
}

func genMutCase(t *rapid.T, keyOpts bool) mutCase {
	kind := rapid.SampledFrom([]refcose.Kind{refcose.KSign1, refcose.KSign1, refcose.KSign1Untagged, refcose.KSign, refcose.KSign,
		refcose.KSignature, refcose.KCountersignature, refcose.KProtected, refcose.KUnprotected}).Draw(t, "seed-kind")
	seed := seedFor(t, kind)
	n := rapid.SampledFrom([]int{1, 1, 1, 2, 2, 3}).Draw(t, "nfaults")
	wire, muts := gen.MutateWire(t, seed, n, gen.MutOpts{})
	return mutCase{SeedKind: kind, Seed: seed, Wire: wire, Muts: muts}
}

// checkC05: whatever a decoder accepts is well-formed COSE of its own kind
// (the implication of the property), for all seven decoders on the same
// bytes (so the encoding of another kind is offered to each of them).
func checkC05(c mutCase) error {
	if err := checkC05One(c); err != nil {
		return err
	}
	// the verdict on an input is a function of that input: right after the decoders have seen it, they
	// are offered its twins, in which one layer's protected header map sits in the unprotected bucket or
	// the other way round (byte-identical maps, so anything remembered about "these bytes" is wrong here)
	for i, tw := range c05Twins(c.Wire) {
		tc := mutCase{SeedKind: c.SeedKind, Seed: c.Seed, Wire: tw, Muts: append(append([]gen.Mutation{}, c.Muts...), gen.Mutation{Op: "twin/bucket-moved", Path: fmt.Sprint(i)})}
		stats.Eval()
		stats.Class("twin-with-a-header-map-in-the-other-bucket")
		if err := checkC05One(tc); err != nil {
			return err
		}
	}
	return nil
}

// c05Layers collects, in document order, every array that looks like a COSE layer: [bstr, map, ...].
func c05Layers(m *rc.M, out *[]*rc.M) {
	if m == nil {
		return
	}
	if m.Major == 4 && len(m.Items) >= 3 && m.Items[0].Major == 2 && m.Items[0].Verb == nil && m.Items[1].Major == 5 {
		*out = append(*out, m)
	}
	for _, x := range m.Items {
		c05Layers(x, out)
	}
	for _, x := range m.Vals {
		c05Layers(x, out)
	}
	c05Layers(m.Child, out)
}

func c05Twins(wire []byte) [][]byte {
	root, err := rc.MParse(wire, false)
	if err != nil {
		return nil
	}
	var layers []*rc.M
	c05Layers(root, &layers)
	var out [][]byte
	for i := range layers {
		if i >= 3 {
			break
		}
		for dir := 0; dir < 2; dir++ {
			r2 := root.Clone()
			var l2 []*rc.M
			c05Layers(r2, &l2)
			l := l2[i]
			if dir == 0 {
				// the protected map, byte for byte, as the unprotected bucket
				b := l.Items[0].Bytes
				if len(b) == 0 || b[0]>>5 != 5 {
					continue
				}
				l.Items[1] = &rc.M{Verb: append([]byte{}, b...)}
			} else {
				// the unprotected map, byte for byte, as the content of the protected bucket
				enc := l.Items[1].Enc()
				if len(enc) < 2 {
					continue
				}
				l.Items[0] = &rc.M{Major: 2, W: widthOf(uint64(len(enc))), Arg: uint64(len(enc)), Bytes: enc}
			}
			out = append(out, r2.Enc())
		}
	}
	return out
}

func widthOf(n uint64) int {
	switch {
	case n < 24:
		return 0
	case n < 1<<8:
		return 1
	case n < 1<<16:
		return 2
	case n < 1<<32:
		return 4
	}
	return 8
}

func checkC05One(c mutCase) error {
	changed := string(c.Wire) != string(c.Seed)
	nt := false
	for _, k := range allKinds {
		_, err := decodeAny(k, c.Wire)
		wf := refcose.WellFormed(k, c.Wire)
		if err == nil {
			stats.Class("accepted/" + k.String())
			if wf != nil {
				var ie *refcose.IllFormed
				errors.As(wf, &ie)
				key := "accepted-illformed/" + ie.Base()
				if c05OnlyTag55799(k, c.Wire) {
					key = "accepted-illformed/tag55799-stripped"
				}
				return finding(key, "%v decoder accepts an ill-formed input (%v)\nwire=%x\nmutations=%+v", k, wf, []byte(c.Wire), c.Muts)
			}
			if changed {
				nt = true
			}
		} else {
			if wf == nil {
				stats.Class("wellformed-but-refused/" + k.String())
				stats.Class("wellformed-but-refused-reason/" + shortErr(err))
			} else if k == c.SeedKind {
				var ie *refcose.IllFormed
				errors.As(wf, &ie)
				stats.Class("rejected-illformed-clause/" + ie.Base())
				if changed {
					nt = true
				}
			}
		}
	}
	for _, m := range c.Muts {
		stats.Class("op/" + m.Op)
		if m.Path != "" {
			d := 0
			for _, ch := range m.Path {
				if ch == '/' {
					d++
				}
			}
			stats.Class(fmt.Sprintf("fault-depth/%d", d))
		}
	}
	if nt {
		stats.NTBytes(c.Wire)
		stats.Class("nontrivial")
		stats.Sample("mutant/"+c.SeedKind.String(), map[string]any{"seed_kind": c.SeedKind.String(), "wire": c.Wire, "mutations": c.Muts})
	}
	return nil
}

// c05OnlyTag55799 reports whether the input becomes well-formed (or ill-formed
// only by the other listed known finding) once every tag 55799
// ("self-described CBOR") wrapper is removed, i.e. whether those wrappers are
// the root cause of the acceptance of an ill-formed input.
func c05OnlyTag55799(k refcose.Kind, wire []byte) bool {
	root, err := rc.MParse(wire, true)
	if err != nil {
		return false
	}
	if k != refcose.KProtected && k != refcose.KUnprotected && root.Major == 6 && root.Arg == 55799 {
		// F9 is about labels and values inside a protected header (and the bare header decoders); a
		// self-described-CBOR wrapper around a whole message is another matter (refused today)
		return false
	}
	if rc.StripTag(&root, 55799) == 0 {
		return false
	}
	wf := refcose.WellFormed(k, root.Enc())
	if wf == nil {
		return true
	}
	var ie *refcose.IllFormed
	return errors.As(wf, &ie) && ie.Base() == "dup-key-nan"
}

func init() { register("c05", checkC05) }

func TestC05_Mutants(t *testing.T) {
	begin(t, "C05", "mutants")
	prop(t, func(rt *rapid.T) {
		c := genMutCase(rt, false)
		stats.Eval()
		stats.Class("seed/" + c.SeedKind.String())
		judge(rt, "c05", c, checkC05)
	})
}

// TestC05_Valid: sanity of the oracle's trusted base on the unchanged tree -
// unmutated seeds are well-formed for the reference and accepted by the
// library (this is C07's business; here it only guards the harness).
func TestC05_Valid(t *testing.T) {
	begin(t, "C05", "valid")
	prop(t, func(rt *rapid.T) {
		kind := rapid.SampledFrom(allKinds).Draw(rt, "kind")
		seed := seedFor(rt, kind)
		stats.Eval()
		c := mutCase{SeedKind: kind, Seed: seed, Wire: seed}
		judge(rt, "c05", c, checkC05)
		if err := refcose.WellFormed(kind, seed); err != nil {
			rt.Fatalf("harness: reference rejects its own %v seed: %v\n%x", kind, err, seed)
		}
		stats.Class("valid-seed/" + kind.String())
		stats.NTBytes(seed)
		stats.Sample("valid/"+kind.String(), map[string]any{"seed_kind": kind.String(), "wire": rc.Hex(seed)})
	})
}

// FuzzC05 is the native coverage-guided target: the oracle runs inside.
func FuzzC05(f *testing.F) {
	cur = propCtx{Property: "C05", Part: "fuzz"}
	for _, s := range fuzzSeeds() {
		f.Add(s)
	}
	f.Fuzz(func(t *testing.T, b []byte) {
		if len(b) > 1<<16 {
			return
		}
		judge(t, "c05", mutCase{Wire: b}, checkC05)
	})
}

// TestC05_CritShapes: a protected header {1: alg, 4: kid, "t": 1, 2: V} in every layer of every kind, with V
// running over values that are not a non-empty array of present labels but resemble one (a byte string whose
// bytes are present labels, a text of them, a single label, nested arrays, maps keyed by labels ...).
func TestC05_CritShapes(t *testing.T) {
	begin(t, "C05", "critshapes")
	vals := []rc.Val{
		rc.Bytes([]byte{1}), rc.Bytes([]byte{4}), rc.Bytes([]byte{1, 4}), rc.Bytes([]byte{2}), rc.Bytes(nil), rc.Bytes([]byte{0}), rc.Bytes([]byte{'t'}),
		rc.Text("\x01"), rc.Text("t"), rc.Text("\x01\x04"), rc.Text(""),
		rc.Int(1), rc.Int(4), rc.Int(0), rc.Text("t"),
		rc.Array(), rc.Array(rc.Array(rc.Int(1))), rc.Array(rc.Bytes([]byte{1})), rc.Array(rc.Int(1), rc.Array()), rc.Array(rc.Map()),
		rc.Array(rc.Int(1)), rc.Array(rc.Int(4), rc.Text("t")), rc.Array(rc.Int(1), rc.Int(1)), rc.Array(rc.Text("u")), rc.Array(rc.Int(5)), rc.Array(rc.Int(2)),
		rc.Map(), rc.Map(rc.E(rc.Int(1), rc.Int(1))), rc.Map(rc.E(rc.Int(0), rc.Int(1)), rc.E(rc.Int(1), rc.Int(4))),
		rc.Bool(true), rc.Bool(false), rc.Null, rc.Float(1), rc.Tag(99, rc.Array(rc.Int(1))),
	}
	n := 0
	for _, v := range vals {
		prot := rc.Encode(rc.Bytes(rc.Encode(rc.Map(rc.E(rc.Int(1), rc.Int(-7)), rc.E(rc.Int(4), rc.Bytes([]byte("k"))), rc.E(rc.Text("t"), rc.Int(1)), rc.E(rc.Int(2), v)), nil)), nil)
		layer := func(p []byte) []byte { return append(append(append([]byte{0x83}, p...), 0xa0), 0x41, 0x01) }
		inputs := map[refcose.Kind][][]byte{
			refcose.KProtected:        {prot},
			refcose.KSign1:            {append(append(append([]byte{0xd2, 0x84}, prot...), 0xa0, 0x41, 0x70), 0x41, 0x01), append(append([]byte{0xd2, 0x84, 0x40, 0xa1, 0x0b}, layer(prot)...), 0x41, 0x70, 0x41, 0x01)},
			refcose.KSign1Untagged:    {append(append(append([]byte{0x84}, prot...), 0xa0, 0x41, 0x70), 0x41, 0x01)},
			refcose.KSign:             {append(append(append([]byte{0xd8, 0x62, 0x84}, prot...), 0xa0, 0x41, 0x70, 0x81), layer([]byte{0x40})...), append([]byte{0xd8, 0x62, 0x84, 0x40, 0xa0, 0x41, 0x70, 0x81}, layer(prot)...)},
			refcose.KSignature:        {layer(prot)},
			refcose.KCountersignature: {layer(prot)},
		}
		for _, k := range allKinds {
			for _, w := range inputs[k] {
				n++
				stats.Eval()
				stats.NTBytes(w)
				judge(t, "c05", mutCase{SeedKind: k, Wire: w, Muts: []gen.Mutation{{Op: "crit-shape/" + v.String()}}}, checkC05)
			}
		}
	}
	// crit entry vs label kind: one label L present, crit names a label E that is a different label but looks the same
	// once text is read as a number, the empty text as zero, or a number is reduced (all pairs of the list, E != L)
	looks := []rc.Val{rc.Int(0), rc.Text(""), rc.Text("0"), rc.Int(4), rc.Text("4"), rc.Text("04"), rc.Text(" 4"), rc.Text("+4"), rc.Int(-1), rc.Text("-1"), rc.Int(1), rc.Text("1"),
		rc.Int(260), rc.Text("260"), rc.Int(65540), rc.Int(-252), rc.Int(1<<32 + 4), rc.Text("\x04"), rc.Text("kid")}
	for _, present := range looks {
		for _, entry := range looks {
			if rc.Equal(present, entry) {
				continue
			}
			pm := rc.Map(rc.E(rc.Int(1), rc.Int(-7)))
			if i, ok := present.Int64(); !(ok && present.K == rc.KInt && i == 1) {
				pm.M = append(pm.M, rc.E(present, rc.Bytes([]byte("k"))))
			}
			if i, ok := entry.Int64(); ok && entry.K == rc.KInt && i == 1 {
				continue // alg is there
			}
			pm.M = append(pm.M, rc.E(rc.Int(2), rc.Array(entry)))
			prot := rc.Encode(rc.Bytes(rc.Encode(pm, nil)), nil)
			layer := func(p []byte) []byte { return append(append(append([]byte{0x83}, p...), 0xa0), 0x41, 0x01) }
			inputs := map[refcose.Kind][][]byte{
				refcose.KProtected:        {prot},
				refcose.KSign1:            {append(append(append([]byte{0xd2, 0x84}, prot...), 0xa0, 0x41, 0x70), 0x41, 0x01), append(append([]byte{0xd2, 0x84, 0x40, 0xa1, 0x0b}, layer(prot)...), 0x41, 0x70, 0x41, 0x01)},
				refcose.KSign1Untagged:    {append(append(append([]byte{0x84}, prot...), 0xa0, 0x41, 0x70), 0x41, 0x01)},
				refcose.KSign:             {append(append(append([]byte{0xd8, 0x62, 0x84}, prot...), 0xa0, 0x41, 0x70, 0x81), layer([]byte{0x40})...), append([]byte{0xd8, 0x62, 0x84, 0x40, 0xa0, 0x41, 0x70, 0x81}, layer(prot)...)},
				refcose.KSignature:        {layer(prot)},
				refcose.KCountersignature: {layer(prot)},
			}
			for _, k := range allKinds {
				for _, w := range inputs[k] {
					n++
					stats.Eval()
					stats.NTBytes(w)
					stats.Class("crit-entry-vs-label-kind")
					judge(t, "c05", mutCase{SeedKind: k, Wire: w, Muts: []gen.Mutation{{Op: "crit-entry/" + entry.String() + "/present/" + present.String()}}}, checkC05)
				}
			}
		}
	}
	stats.ExhaustivePart("crit value shapes x layers; crit entry vs look-alike present label x layers", n)
}

// TestC05_NestedKeys: header values (label 99, either bucket, every layer kind) that hold maps keyed by arrays or
// maps - which no Go map can hold - with and without a duplicate key somewhere behind them: whatever a decoder
// makes of the unusual key, a duplicate key in the same value is not accepted.
func TestC05_NestedKeys(t *testing.T) {
	begin(t, "C05", "nestedkeys")
	arr1 := rc.Array(rc.Int(1))
	dupInner := rc.Map(rc.E(rc.Text("a"), rc.Int(1)), rc.E(rc.Text("a"), rc.Int(2)))
	vals := []rc.Val{
		rc.Map(rc.E(arr1, rc.Int(1)), rc.E(arr1, rc.Int(2))),
		rc.Map(rc.E(rc.Map(), rc.Int(1)), rc.E(rc.Map(), rc.Int(2))),
		rc.Array(rc.Map(rc.E(arr1, rc.Int(1))), rc.Map(rc.E(rc.Int(1), rc.Int(1)), rc.E(rc.Int(1), rc.Int(2)))),
		rc.Map(rc.E(arr1, rc.Int(1)), rc.E(rc.Int(7), dupInner)),
		rc.Map(rc.E(rc.Int(7), dupInner), rc.E(arr1, rc.Int(1))),
		rc.Array(dupInner, rc.Map(rc.E(arr1, rc.Int(1)))),
		rc.Map(rc.E(arr1, rc.Int(1))),
		rc.Map(rc.E(rc.Map(rc.E(rc.Int(1), rc.Int(2))), rc.Int(1))),
		rc.Map(rc.E(rc.Bytes([]byte{1}), rc.Int(1)), rc.E(rc.Bytes([]byte{1}), rc.Int(2))),
		rc.Map(rc.E(rc.Bool(true), rc.Int(1)), rc.E(rc.Bool(true), rc.Int(2))),
		rc.Map(rc.E(rc.Null, rc.Int(1)), rc.E(rc.Null, rc.Int(2))),
		rc.Map(rc.E(rc.Float(1.5), rc.Int(1)), rc.E(rc.Float(1.5), rc.Int(2))),
		rc.Map(rc.E(rc.Tag(99, rc.Int(1)), rc.Int(1)), rc.E(rc.Tag(99, rc.Int(1)), rc.Int(2))),
	}
	n := 0
	for _, v := range vals {
		for _, inProt := range []bool{false, true} {
			pm, um := rc.Map(rc.E(rc.Int(1), rc.Int(-7))), rc.Map()
			if inProt {
				pm.M = append(pm.M, rc.E(rc.Int(99), v))
			} else {
				um.M = append(um.M, rc.E(rc.Int(99), v))
			}
			// (keys are emitted in the order given: duplicates must stay next to what hides them)
			prot := rc.Encode(rc.Bytes(rc.Encode(pm, keepOrder{})), nil)
			unprot := rc.Encode(um, keepOrder{})
			layer := func(p, u []byte) []byte { return append(append(append([]byte{0x83}, p...), u...), 0x41, 0x01) }
			inputs := map[refcose.Kind][][]byte{
				refcose.KProtected:        {prot},
				refcose.KUnprotected:      {unprot},
				refcose.KSign1:            {append(append(append(append([]byte{0xd2, 0x84}, prot...), unprot...), 0x41, 0x70), 0x41, 0x01), append(append([]byte{0xd2, 0x84, 0x40, 0xa1, 0x0b}, layer(prot, unprot)...), 0x41, 0x70, 0x41, 0x01)},
				refcose.KSign1Untagged:    {append(append(append(append([]byte{0x84}, prot...), unprot...), 0x41, 0x70), 0x41, 0x01)},
				refcose.KSign:             {append(append(append(append([]byte{0xd8, 0x62, 0x84}, prot...), unprot...), 0x41, 0x70, 0x81), layer([]byte{0x40}, []byte{0xa0})...), append([]byte{0xd8, 0x62, 0x84, 0x40, 0xa0, 0x41, 0x70, 0x81}, layer(prot, unprot)...)},
				refcose.KSignature:        {layer(prot, unprot)},
				refcose.KCountersignature: {layer(prot, unprot)},
			}
			for _, k := range allKinds {
				if (k == refcose.KProtected && !inProt) || (k == refcose.KUnprotected && inProt) {
					continue
				}
				for _, w := range inputs[k] {
					n++
					stats.Eval()
					stats.NTBytes(w)
					judge(t, "c05", mutCase{SeedKind: k, Wire: w, Muts: []gen.Mutation{{Op: "nested-keys/" + v.String()}}}, checkC05)
				}
			}
		}
	}
	stats.ExhaustivePart("nested key shapes x bucket x layers", n)
}

// keepOrder is a chooser that leaves map entries in the order given and uses minimal heads.
type keepOrder struct{}

func (keepOrder) Width(min int) int { return min }
func (keepOrder) Perm(n int) []int {
	p := make([]int, n)
	for i := range p {
		p[i] = i
	}
	return p
}
