package props

import (
	"encoding/json"
	"fmt"
	"math/big"
	"testing"
	"time"

	"github.com/fxamacker/cbor/v2"
	cose "github.com/veraison/go-cose"

	rc "verifharness/refcbor"
	"verifharness/refcose"
	"verifharness/stats"
)

// Go values that have no counterpart in the abstract header model: types that
// control their own CBOR encoding or that the CBOR library encodes in a way
// their Go type does not suggest. A caller can put any of them into a header
// map. The library may refuse them; if it encodes the header, the bytes it
// emits must obey the same rules as any other header it emits.

type selfEncodingBytes []byte // a byte-slice type whose encoding is a text string

func (selfEncodingBytes) MarshalCBOR() ([]byte, error) { return []byte{0x63, 'a', 'b', 'c'}, nil }

type selfEncodingInt int64 // an integer type whose encoding is a byte string

func (selfEncodingInt) MarshalCBOR() ([]byte, error) { return []byte{0x41, 0x01}, nil }

type selfEncodingText string // a string type whose encoding is an integer

func (selfEncodingText) MarshalCBOR() ([]byte, error) { return []byte{0x18, 0x2a}, nil }

type plainBytes []byte
type plainText string
type plainInt int64
type plainUint uint16

type goTyped struct {
	name string
	v    any
}

func c13GoValues() []goTyped {
	b := []byte{1, 2}
	i := int64(42)
	return []goTyped{
		{"RawMessage-tstr", cbor.RawMessage{0x63, 'a', 'b', 'c'}}, {"RawMessage-bstr", cbor.RawMessage{0x42, 1, 2}}, {"RawMessage-uint", cbor.RawMessage{0x18, 0x2a}},
		{"RawMessage-nint", cbor.RawMessage{0x26}}, {"RawMessage-array", cbor.RawMessage{0x81, 0x04}}, {"RawMessage-null", cbor.RawMessage{0xf6}},
		{"RawMessage-empty", cbor.RawMessage{}}, {"RawMessage-map", cbor.RawMessage{0xa0}},
		{"bytes-encoding-as-tstr", selfEncodingBytes{1, 2}}, {"int-encoding-as-bstr", selfEncodingInt(42)}, {"text-encoding-as-uint", selfEncodingText("a/b")},
		{"named-bytes", plainBytes{1, 2}}, {"named-text", plainText("a/b")}, {"named-int", plainInt(42)}, {"named-uint", plainUint(42)},
		{"cbor.ByteString", cbor.ByteString("ab")}, {"cbor.SimpleValue", cbor.SimpleValue(42)}, {"cbor.Tag-uint", cbor.Tag{Number: 1, Content: int64(42)}},
		{"cbor.Tag-bstr", cbor.Tag{Number: 24, Content: []byte{1, 2}}}, {"cbor.Tag-tstr", cbor.Tag{Number: 32, Content: "a/b"}},
		{"big.Int", *big.NewInt(42)}, {"*big.Int", big.NewInt(42)}, {"*big.Int-wide", new(big.Int).Lsh(big.NewInt(1), 70)}, {"time.Time", time.Unix(1700000000, 0).UTC()},
		{"byte-array", [2]byte{1, 2}}, {"*[]byte", &b}, {"*int64", &i}, {"uint8", uint8(42)}, {"int", int(-7)}, {"uint64-wide", uint64(1) << 63},
		{"[]any-labels", []any{int64(4)}}, {"[]int64", []int64{4}}, {"[]string", []string{"x"}}, {"map[string]int", map[string]int{"a": 1}},
		{"struct", struct{ A int }{1}}, {"float32", float32(1.5)}, {"Algorithm", cose.AlgorithmES256}, {"Algorithm-unknown", cose.Algorithm(-70000)},
		{"Countersignature-value", cose.Countersignature{Signature: []byte{1}}}, {"[]Countersignature-values", []cose.Countersignature{{Signature: []byte{1}}}},
		{"*Countersignature-unsigned", &cose.Countersignature{}}, {"[]*Countersignature-with-nil", []*cose.Countersignature{nil}},
		{"[]*Countersignature-empty", []*cose.Countersignature{}}, {"*Countersignature-nil", (*cose.Countersignature)(nil)},
		{"[]any-of-*Countersignature", []any{&cose.Countersignature{Signature: []byte{1}}}}, {"[]any-of-list-of-*Countersignature", []any{[]*cose.Countersignature{{Signature: []byte{1}}}}},
		{"[]any-of-[]any-of-*Countersignature", []any{[]any{&cose.Countersignature{Signature: []byte{1}}}}}, {"[][]*Countersignature", [][]*cose.Countersignature{{{Signature: []byte{1}}}}},
		{"*Countersignature-signed", &cose.Countersignature{Signature: []byte{1}}}, {"[]*Countersignature-signed-2", []*cose.Countersignature{{Signature: []byte{1}}, {Signature: []byte{2}}}},
		{"[]uint8-labels", []uint8{4}}, {"[]int-labels", []int{4}}, {"[]uint64-labels", []uint64{4}}, {"[1]byte-label", [1]byte{4}}, {"[]any-mixed-labels", []any{int8(4), "x"}},
	}
}

type c13GoCase struct {
	Ctx    string `json:"ctx"`    // protected, unprotected, sign1
	Bucket string `json:"bucket"` // P, U
	Label  rc.Val `json:"label"`
	Value  string `json:"value"` // name in c13GoValues
}

// checkC13GoTyped: encode refused, or the emitted bytes pass the reference
// RFC 9052 3.1 judge and the library's own decoder.
func checkC13GoTyped(c c13GoCase) error {
	var label any
	if i, ok := c.Label.Int64(); ok && c.Label.K == rc.KInt {
		label = i
	} else if c.Label.K == rc.KText {
		label = c.Label.T
	} else {
		return nil
	}
	var v any
	found := false
	for _, gv := range c13GoValues() {
		if gv.name == c.Value {
			v, found = gv.v, true
		}
	}
	if !found {
		return fmt.Errorf("harness: no Go value named %q", c.Value)
	}
	var out []byte
	var err error
	kind := refcose.KProtected
	switch c.Ctx {
	case "protected":
		out, err = cose.ProtectedHeader{label: v}.MarshalCBOR()
	case "unprotected":
		kind = refcose.KUnprotected
		out, err = cose.UnprotectedHeader{label: v}.MarshalCBOR()
	default:
		kind = refcose.KSign1
		h := cose.Headers{Protected: cose.ProtectedHeader{}, Unprotected: cose.UnprotectedHeader{}}
		if c.Bucket == "P" {
			h.Protected[label] = v
		} else {
			h.Unprotected[label] = v
		}
		out, err = (&cose.Sign1Message{Headers: h, Payload: []byte("p"), Signature: []byte{1, 2, 3}}).MarshalCBOR()
	}
	if err != nil {
		stats.Class("go-typed/refused")
		return nil
	}
	stats.Class("go-typed/encoded")
	stats.Class("go-typed/encoded/" + c.Value)
	// (a) the section 3.1 parameter rules, judged bucket by bucket (the envelope around them is the
	// library's own and not in question here; tags inside values are no concern of section 3.1)
	buckets := map[refcose.Kind][]byte{kind: out}
	if kind == refcose.KSign1 {
		env, err := refcose.ParseEnv(kind, out)
		if err != nil {
			return finding("emits-nonconforming/go-typed-value", "%s %s %s = %s: emitted message cannot be located by the reference: %v\nemitted=%x", c.Ctx, c.Bucket, c.Label, c.Value, err, out)
		}
		buckets = map[refcose.Kind][]byte{refcose.KProtected: env.Prot.Raw(), refcose.KUnprotected: env.Unprot.Raw()}
	}
	for _, k := range []refcose.Kind{refcose.KProtected, refcose.KUnprotected} {
		if raw, ok := buckets[k]; ok && !goTypedSkipRules {
			if werr := refcose.WellFormed(k, raw); werr != nil {
				return finding("emits-nonconforming/go-typed-value", "%s %s %s = %s: the encoder accepts this Go value and emits a header violating RFC 9052 3.1 (%v)\nemitted=%x", c.Ctx, c.Bucket, c.Label, c.Value, werr, out)
			}
		}
	}
	// (b) accepted in the encoding direction => accepted in the decoding direction
	if _, derr := decodeAny(kind, out); derr != nil {
		if inU := c.Ctx == "unprotected" || (c.Ctx != "protected" && c.Bucket == "U"); hasWideInt(out) || (inU && hasTagOrWideInt(out)) {
			// outside the supported data model (DESIGN.md 2.4: integer values beyond int64, tags in
			// values of an envelope): the decoders' refusal is the documented limit; excluded, counted
			stats.Excluded("go-typed value outside the data model (tag / integer beyond int64 in the emitted value)")
			return nil
		}
		return finding("own-output-refused/go-typed-value", "%s %s %s = %s: the decoder refuses what the encoder produced: %v\nemitted=%x", c.Ctx, c.Bucket, c.Label, c.Value, derr, out)
	}
	return nil
}

// hasTagOrWideInt reports whether the item (looking into byte strings that wrap
// CBOR) holds a tag below the root or an integer outside int64.
func hasTagOrWideInt(b []byte) bool {
	root, err := rc.MParse(b, true)
	if err != nil {
		return false
	}
	for i, s := range rc.MSlots(&root) {
		x := s.Get()
		if x == nil || x.Verb != nil {
			continue
		}
		if x.Major == 6 && i > 0 {
			return true
		}
		if x.Major <= 1 && x.Arg > 1<<63-1 {
			return true
		}
	}
	return false
}

// hasWideInt: an integer outside int64 somewhere in the item.
func hasWideInt(b []byte) bool {
	root, err := rc.MParse(b, true)
	if err != nil {
		return false
	}
	for _, s := range rc.MSlots(&root) {
		if x := s.Get(); x != nil && x.Verb == nil && x.Major <= 1 && x.Arg > 1<<63-1 {
			return true
		}
	}
	return false
}

func init() { register("c13go", checkC13GoTyped) }

func mustJSON(v any) []byte {
	b, err := json.Marshal(v)
	if err != nil {
		panic(err)
	}
	return b
}

// TestC13_GoTypes: every label of the grid x every such Go value x bucket x
// three contexts.
func TestC13_GoTypes(t *testing.T) { runGoTypes(t, "C13", "c13go") }

// TestC08_GoTypes: the same cells for C08's clause "every byte string returned by an encoder is accepted by the
// corresponding decoder": whether the emitted header obeys section 3.1 is C13's business and not reported here.
func TestC08_GoTypes(t *testing.T) { runGoTypes(t, "C08", "c08go") }

func init() {
	register("c08go", func(c c13GoCase) error {
		goTypedSkipRules = true
		defer func() { goTypedSkipRules = false }()
		return checkC13GoTyped(c)
	})
}

// goTypedSkipRules: judge only "own output accepted" (C08's clause), not the section 3.1 rules (C13's)
var goTypedSkipRules bool

func runGoTypes(t *testing.T, property, kind string) {
	begin(t, property, "gotypes")
	sh, nsh := gridShard()
	n := 0
	for _, ctx := range []string{"protected", "unprotected", "sign1"} {
		for _, bucket := range []string{"P", "U"} {
			if (ctx == "protected" && bucket == "U") || (ctx == "unprotected" && bucket == "P") {
				continue
			}
			for _, l := range c13Labels {
				if _, ok := l.Int64(); !(ok && l.K == rc.KInt) && l.K != rc.KText {
					continue
				}
				for _, gv := range c13GoValues() {
					n++
					if n%nsh != sh {
						continue
					}
					stats.Eval()
					c := c13GoCase{Ctx: ctx, Bucket: bucket, Label: l, Value: gv.name}
					stats.NTBytes([]byte(fmt.Sprintf("go-typed/%s/%s/%s/%s", ctx, bucket, l, gv.name)))
					judge(t, kind, c, func(c c13GoCase) error { return replayers[kind](mustJSON(c)) })
				}
			}
		}
	}
	stats.ExhaustivePart("go-typed-values", n/nsh)
}
