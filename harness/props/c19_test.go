package props

import (
	"bytes"
	"fmt"
	"strings"
	"sync"
	"testing"

	cose "github.com/veraison/go-cose"
	"pgregory.net/rapid"

	"verifharness/bridge"
	"verifharness/gen"
	rc "verifharness/refcbor"
	"verifharness/refcose"
	"verifharness/stats"
)

// c19Step is one step of a decode history on a single destination variable.
type c19Step struct {
	Op   string `json:"op"`             // decode, encode, scribble-input, scribble-output, edit
	Wire rc.Hex `json:"wire,omitempty"` // decode
	Idx  int    `json:"idx,omitempty"`  // which earlier buffer to overwrite
}

type c19Case struct {
	Kind  refcose.Kind `json:"kind"`
	Steps []c19Step    `json:"steps"`
}

func newDest(kind refcose.Kind) any {
	switch kind {
	case refcose.KSign1:
		return &cose.Sign1Message{}
	case refcose.KSign1Untagged:
		return &cose.UntaggedSign1Message{}
	case refcose.KSign:
		return &cose.SignMessage{}
	case refcose.KSignature:
		return &cose.Signature{}
	case refcose.KCountersignature:
		return &cose.Countersignature{}
	case refcose.KProtected:
		return &cose.ProtectedHeader{}
	}
	return &cose.UnprotectedHeader{}
}

type unmarshaler interface{ UnmarshalCBOR([]byte) error }

// deepCsigWire is a COSE_Sign1 whose unprotected header carries a chain of n nested countersignatures.
func deepCsigWire(n int) []byte {
	cs := []byte{0x83, 0x40, 0xa0, 0x41, 0x01}
	for i := 1; i < n; i++ {
		next := []byte{0x83, 0x40, 0xa1, 0x0b}
		next = append(next, cs...)
		cs = append(next, 0x41, byte(i+1))
	}
	w := []byte{0xd2, 0x84, 0x43, 0xa1, 0x01, 0x27, 0xa1, 0x0b}
	w = append(w, cs...)
	return append(w, 0x41, 0x70, 0x41, 0x01)
}

// canaries: fixed inputs whose decoding must give the same value at any time in the life of the
// process, whatever was decoded (or refused) before.
var c19Canaries = sync.OnceValue(func() map[string]string {
	out := map[string]string{}
	for _, w := range [][]byte{deepCsigWire(1), deepCsigWire(3), {0xd2, 0x84, 0x43, 0xa1, 0x01, 0x26, 0xa1, 0x04, 0x42, 0x31, 0x31, 0x41, 0x70, 0x41, 0x01},
		{0xd8, 0x62, 0x84, 0x40, 0xa0, 0x41, 0x70, 0x81, 0x83, 0x43, 0xa1, 0x01, 0x27, 0xa1, 0x0b, 0x83, 0x40, 0xa0, 0x41, 0x02, 0x41, 0x01}} {
		kind := refcose.KSign1
		if w[0] == 0xd8 {
			kind = refcose.KSign
		}
		v, err := decodeAny(kind, w)
		out[string(w)] = fmt.Sprint(err) + bridge.DumpValue(v)
	}
	return out
})

func checkCanaries() error {
	for w, want := range c19Canaries() {
		kind := refcose.KSign1
		if w[0] == 0xd8 {
			kind = refcose.KSign
		}
		v, err := decodeAny(kind, []byte(w))
		if got := fmt.Sprint(err) + bridge.DumpValue(v); got != want {
			return finding("history-dependent/process-state", "decoding a fixed input gives another result than the first time this process decoded it\nwire=%x\nfirst=%s\n  now=%s", []byte(w), want, got)
		}
	}
	return nil
}

// checkC19 replays the history and checks the three clauses after each step.
func checkC19(c c19Case) error {
	c19Canaries()
	defer stats.Class("canaries-rechecked")
	if err := checkC19Steps(c); err != nil {
		return err
	}
	return checkCanaries()
}

func checkC19Steps(c c19Case) error {
	dest := newDest(c.Kind)
	var inputs, outputs [][]byte
	var lastEnc []byte
	haveEnc := false
	successes, failedAfterSuccess, scribbles, redecodedAfterEdit := 0, 0, 0, 0
	pristine := map[string]string{} // wire -> value a fresh variable received the first time this history decoded it
	edited := false
	enc := func() ([]byte, bool) {
		out, err := dest.(anyMsg).MarshalCBOR()
		if err != nil {
			return nil, false
		}
		return out, true
	}
	for i, st := range c.Steps {
		switch st.Op {
		case "probe":
			// every other decoding entry point of the package is handed a few stray bytes (what a server sees
			// all day); nothing of it may show in what the decoders do afterwards (destination unchanged here,
			// canaries after the case)
			before := bridge.Dump(dest)
			junk := append([]byte{}, st.Wire...)
			cose.VerifyHashEnvelope(&bridge.SpyVerifier{Alg: cose.AlgorithmEdDSA}, junk)
			for _, k := range allKinds {
				decodeAny(k, junk)
			}
			var key cose.Key
			key.UnmarshalCBOR(junk)
			if after := bridge.Dump(dest); after != before {
				return finding("unrelated-decode-wrote", "step %d: decoding stray bytes %x elsewhere changed the destination", i, junk)
			}
			stats.Class("stray-bytes-offered-to-every-entry-point")
		case "decode":
			before := bridge.Dump(dest)
			buf := append([]byte{}, st.Wire...)
			inputs = append(inputs, buf)
			err := dest.(unmarshaler).UnmarshalCBOR(buf)
			if !bytes.Equal(buf, st.Wire) {
				return finding("input-modified", "step %d: the decoder modified its input buffer", i)
			}
			if err != nil {
				if after := bridge.Dump(dest); after != before {
					return finding("failed-decode-wrote", "step %d: a failed decode (%v) changed the destination\nbefore=%s\n after=%s\nwire=%x", i, err, before, after, []byte(st.Wire))
				}
				if successes > 0 {
					failedAfterSuccess++
				}
				stats.Class("decode-failed")
				break
			}
			successes++
			fresh := newDest(c.Kind)
			if err := fresh.(unmarshaler).UnmarshalCBOR(append([]byte{}, st.Wire...)); err != nil {
				return finding("history-dependent", "step %d: decode into a used variable succeeds but into a fresh one fails: %v", i, err)
			}
			a, b := bridge.DumpValue(dest), bridge.DumpValue(fresh)
			if a != b {
				return finding("history-dependent", "step %d: decoding into a previously used variable differs from decoding into a fresh one\nused =%s\nfresh=%s\nwire=%x", i, a, b, []byte(st.Wire))
			}
			// the value a decode hands out depends on the input alone: not on what the
			// caller did to values handed out by earlier decodes of the same bytes
			if strings.Contains(b, "verif-scribble") {
				return finding("history-dependent/shared-with-earlier-result", "step %d: a fresh decode returned a value carrying an edit the caller made to an earlier decode's result\nfresh=%s\nwire=%x", i, b, []byte(st.Wire))
			}
			if p, ok := pristine[string(st.Wire)]; ok {
				if p != b {
					return finding("history-dependent/shared-with-earlier-result", "step %d: decoding the same bytes again gives a different value than the first time (after the caller edited the earlier result: %v)\nfirst=%s\n  now=%s\nwire=%x", i, edited, p, b, []byte(st.Wire))
				}
				if edited {
					redecodedAfterEdit++
				}
			} else {
				pristine[string(st.Wire)] = b
			}
			lastEnc, haveEnc = enc()
			if taggedMapKey(st.Wire) {
				// tag 0/1 map keys become time.Time keys, which the encoder writes untagged: they can collide
				// with an integer key and the order of equal keys is not defined (known finding of C09):
				// the encoding is no stand-in for the value here; the deep dump still is
				haveEnc = false
				stats.Class("encoding-proxy-skipped/tagged-map-key")
			}
			stats.Class("decode-ok")
		case "encode":
			out, ok := enc()
			if ok {
				if haveEnc && !bytes.Equal(out, lastEnc) {
					return finding("encoding-changed", "step %d: encoding of the untouched destination changed\nwas=%x\nnow=%x", i, lastEnc, out)
				}
				outputs = append(outputs, out)
			}
		case "edit":
			// the caller edits the value it was handed (maps gain an entry, byte strings are
			// inverted); what later decodes hand out must not be affected
			if bridge.Scribble(dest) > 0 {
				edited = true
				haveEnc = false
				stats.Class("edit")
			}
		case "scribble-input", "scribble-output":
			pool := inputs
			if st.Op == "scribble-output" {
				pool = outputs
			}
			if len(pool) == 0 {
				continue
			}
			before := bridge.Dump(dest)
			b := pool[st.Idx%len(pool)]
			for j := range b {
				b[j] ^= 0xa5
			}
			scribbles++
			if after := bridge.Dump(dest); after != before {
				return finding("aliases-"+st.Op[9:], "step %d: overwriting an earlier %s buffer changed the decoded value\nbefore=%s\n after=%s", i, st.Op[9:], before, after)
			}
			if haveEnc {
				if out, ok := enc(); !ok || !bytes.Equal(out, lastEnc) {
					return finding("aliases-"+st.Op[9:], "step %d: overwriting an earlier %s buffer changed the encoding of the decoded value", i, st.Op[9:])
				}
			}
			stats.Class(st.Op)
		}
	}
	stats.Class("kind/" + c.Kind.String())
	if failedAfterSuccess > 0 {
		stats.Class("failed-decode-after-success")
	}
	if redecodedAfterEdit > 0 {
		stats.Class("same-bytes-decoded-again-after-edit")
	}
	if failedAfterSuccess > 0 || scribbles > 0 || redecodedAfterEdit > 0 {
		h := []byte(fmt.Sprint(c.Kind))
		for _, st := range c.Steps {
			h = append(h, st.Op...)
			h = append(h, st.Wire...)
		}
		stats.NTBytes(h)
		if len(c.Steps) <= 6 {
			stats.Sample("c19/"+c.Kind.String(), c)
		}
	}
	return nil
}

func init() { register("c19", checkC19) }

func genC19Case(t *rapid.T) c19Case {
	c := c19Case{Kind: rapid.SampledFrom(allKinds).Draw(t, "kind")}
	n := rapid.IntRange(2, 8).Draw(t, "nsteps")
	// every history starts with a successful decode so that there is state to damage
	c.Steps = append(c.Steps, c19Step{Op: "decode", Wire: seedFor(t, c.Kind)})
	for i := 0; i < n; i++ {
		switch rapid.IntRange(0, 10).Draw(t, "step") {
		case 10:
			junk := rapid.SliceOfN(rapid.Byte(), 0, 3).Draw(t, "stray")
			if rapid.Bool().Draw(t, "stray-prefix") {
				seed := seedFor(t, c.Kind)
				junk = seed[:rapid.IntRange(0, min(4, len(seed))).Draw(t, "stray-len")]
			}
			c.Steps = append(c.Steps, c19Step{Op: "probe", Wire: junk})
		case 9:
			// a chain of nested countersignatures, up to depths some limit may refuse
			if c.Kind == refcose.KSign1 {
				c.Steps = append(c.Steps, c19Step{Op: "decode", Wire: deepCsigWire(rapid.IntRange(2, 16).Draw(t, "csig-depth"))})
			} else {
				c.Steps = append(c.Steps, c19Step{Op: "encode"})
			}
		case 7:
			c.Steps = append(c.Steps, c19Step{Op: "edit"})
		case 8:
			// edit the result, then decode bytes seen earlier in this history once more
			var seen []rc.Hex
			for _, st := range c.Steps {
				if st.Op == "decode" {
					seen = append(seen, st.Wire)
				}
			}
			c.Steps = append(c.Steps, c19Step{Op: "edit"}, c19Step{Op: "decode", Wire: rapid.SampledFrom(seen).Draw(t, "again")})
		case 0, 1:
			c.Steps = append(c.Steps, c19Step{Op: "decode", Wire: seedFor(t, c.Kind)})
		case 2, 3:
			seed := seedFor(t, c.Kind)
			w, _ := gen.MutateWire(t, seed, rapid.IntRange(1, 2).Draw(t, "nfaults"), gen.MutOpts{})
			c.Steps = append(c.Steps, c19Step{Op: "decode", Wire: w})
		case 4:
			c.Steps = append(c.Steps, c19Step{Op: "encode"})
		case 5:
			c.Steps = append(c.Steps, c19Step{Op: "scribble-input", Idx: rapid.IntRange(0, 7).Draw(t, "idx")})
		default:
			c.Steps = append(c.Steps, c19Step{Op: "encode"}, c19Step{Op: "scribble-output", Idx: rapid.IntRange(0, 7).Draw(t, "idx")})
		}
	}
	return c
}

func TestC19_Histories(t *testing.T) {
	begin(t, "C19", "histories")
	prop(t, func(rt *rapid.T) {
		c := genC19Case(rt)
		stats.Eval()
		judge(rt, "c19", c, checkC19)
	})
}

// TestC19_Concurrent: the value a decoder produces is a function of the input bytes alone - also when other
// goroutines are decoding other inputs into their own variables at the same moment. Every goroutine decodes
// valid and invalid inputs of its own; verdict and decoded value equal what the same input gives sequentially.
type c19ConcCase struct {
	G      int `json:"g"`
	Rounds int `json:"rounds"`
}

func checkC19Concurrent(c c19ConcCase) error {
	type expect struct {
		ok   bool
		dump string
	}
	exp := map[string]expect{}
	key := func(k refcose.Kind, w []byte) string { return fmt.Sprintf("%d/%x", k, w) }
	inputs := func(i int) ([]refcose.Kind, [][]byte) {
		kinds, wires := c06DistinctInputs(i)
		var ks []refcose.Kind
		var ws [][]byte
		for j := range wires {
			if kinds[j] == -1 {
				continue
			}
			ks, ws = append(ks, kinds[j]), append(ws, wires[j])
			// and a damaged sibling
			bad := append([]byte{}, wires[j]...)
			bad[len(bad)/2] ^= 0x5a
			ks, ws = append(ks, kinds[j]), append(ws, bad)
		}
		return ks, ws
	}
	for i := 0; i < 97; i++ {
		ks, ws := inputs(i)
		for j := range ws {
			v, err := decodeAny(ks[j], ws[j])
			e := expect{ok: err == nil}
			if err == nil {
				e.dump = bridge.Dump(v)
			}
			exp[key(ks[j], ws[j])] = e
		}
	}
	var wg sync.WaitGroup
	var mu sync.Mutex
	var first error
	start := make(chan struct{})
	for g := 0; g < c.G; g++ {
		wg.Add(1)
		go func(g int) {
			defer wg.Done()
			defer func() {
				if r := recover(); r != nil {
					mu.Lock()
					if first == nil {
						first = finding("concurrent/panic", "a decoder panicked while other goroutines were decoding their own inputs: %v", r)
					}
					mu.Unlock()
				}
			}()
			<-start
			for r := 0; r < c.Rounds; r++ {
				ks, ws := inputs((g*31 + r) % 97)
				for j := range ws {
					v, err := decodeAny(ks[j], ws[j])
					e := exp[key(ks[j], ws[j])]
					if (err == nil) != e.ok || (err == nil && bridge.Dump(v) != e.dump) {
						mu.Lock()
						if first == nil {
							first = finding("concurrent/result-differs", "goroutine %d: decoding %x (%v) while other goroutines decode their own inputs gives err=%v; sequentially accepted=%v", g, ws[j], ks[j], err, e.ok)
						}
						mu.Unlock()
						return
					}
				}
			}
		}(g)
	}
	close(start)
	wg.Wait()
	if first != nil {
		return first
	}
	stats.Class("concurrent-decodes-of-own-inputs")
	return nil
}

func init() { register("c19conc", checkC19Concurrent) }

func TestC19_Concurrent(t *testing.T) {
	begin(t, "C19", "concurrent")
	rounds := 400
	if tierThorough() {
		rounds = 8000
	}
	for _, g := range []int{2, 4, 8, 16} {
		c := c19ConcCase{G: g, Rounds: rounds}
		stats.EvalN(g * rounds * 10)
		stats.NTBytes([]byte(fmt.Sprint(c)))
		judge(t, "c19conc", c, checkC19Concurrent)
	}
}
