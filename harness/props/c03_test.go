package props

import (
	"crypto/ecdsa"
	"crypto/rsa"
	"encoding/asn1"
	"fmt"
	"math/big"
	"math/bits"
	"testing"

	cose "github.com/veraison/go-cose"
	"pgregory.net/rapid"

	"verifharness/gen"
	rc "verifharness/refcbor"
	"verifharness/refcose"
	"verifharness/stats"
)

// c03Case: a (usually mutated) wire message together with what the verifying
// party supplies: keys, external data, detached payload.
type c03Case struct {
	Spec   gen.MsgSpec      `json:"spec"`           // the message the wire was derived from (keys of countersigners, payload)
	Kind   refcose.Kind     `json:"kind"`           // decoder used on Wire
	Wire   rc.Hex           `json:"wire"`           // bytes offered to the decoder
	Orig   rc.Hex           `json:"orig,omitempty"` // the validly signed original
	VKeys  []refcose.KeyMat `json:"vkeys"`          // verification key per signer position
	Ext    rc.Hex           `json:"ext,omitempty"`
	ExtNil bool             `json:"ext_nil,omitempty"`
	Class  string           `json:"class"`
	Muts   []gen.Mutation   `json:"mutations,omitempty"`
	// KeyWas (class "key", EC2 / OKP keys): the verifier at that position is obtained from a COSE_Key
	// object that held KeyWas[i] and had yielded a verifier for it before its parameters were
	// overwritten in place with those of VKeys[i]
	KeyWas []refcose.KeyMat `json:"key_was,omitempty"`
	// Reentrant: every message-level verifier runs other library operations between being handed its
	// bytes and reading them (see reenterLibrary)
	Reentrant bool `json:"reentrant,omitempty"`
}

// verifierFromEditedKey: Key.Verifier() on a key object that was a different key a moment ago.
func verifierFromEditedKey(was, now refcose.KeyMat) (cose.Verifier, error) {
	k, err := cose.NewKeyFromPublic(was.Public())
	if err != nil {
		return nil, err
	}
	if _, err := k.Verifier(); err != nil {
		return nil, err
	}
	k.PublicKey()
	k2, err := cose.NewKeyFromPublic(now.Public())
	if err != nil {
		return nil, err
	}
	for l := range k.Params {
		delete(k.Params, l)
	}
	for l, v := range k2.Params {
		k.Params[l] = v
	}
	k.Type, k.Algorithm = k2.Type, k2.Algorithm
	return k.Verifier()
}

func (c *c03Case) ext() []byte {
	if c.ExtNil {
		return nil
	}
	if c.Ext == nil {
		return []byte{}
	}
	return c.Ext
}

// algOfTolerant finds alg in a protected map, looking through tag 55799
// wrappers (which the CBOR library strips silently: known finding F9 of C05;
// C03 is about the verdict over the received bytes, not about that).
func algOfTolerant(pm *rc.Node) (alg int64, present, isInt bool) {
	if pm == nil || pm.Major != 5 {
		return 0, false, false
	}
	unwrap := func(n *rc.Node) *rc.Node {
		for n.Major == 6 && n.Arg == 55799 && n.Child != nil {
			n = n.Child
		}
		return n
	}
	for i, k := range pm.Keys {
		k = unwrap(k)
		if kv, ok := k.Int64(); ok && k.IsInt() && kv == 1 {
			v := unwrap(pm.Vals[i])
			if !v.IsInt() {
				return 0, true, false
			}
			a, ok := v.Int64()
			return a, true, ok
		}
	}
	return 0, false, false
}

// refValid is the reference verdict for one signature layer: non-empty
// signature, algorithm rule on the received protected bytes, and a
// cryptographically valid signature over tbs.
func refValid(layer *refcose.Env, km refcose.KeyMat, ext, tbs []byte) (bool, string) {
	if layer.Sig == nil || len(layer.Sig.Content) == 0 {
		return false, "empty-signature"
	}
	alg, present, isInt := algOfTolerant(layer.ProtMap)
	switch {
	case present && !isInt:
		return false, "alg-not-int"
	case present && alg != km.Alg:
		return false, "alg-mismatch"
	case !present && len(ext) == 0:
		return false, "alg-absent"
	}
	if !refcose.Verify(km.Alg, km.Public(), tbs, layer.Sig.Content) {
		return false, "bad-signature"
	}
	return true, "valid"
}

func verdictMismatch(where string, libErr error, refOK bool, why string, c *c03Case) error {
	if (libErr == nil) == refOK {
		return nil
	}
	if libErr == nil {
		return finding("accepted-invalid/"+why, "%s: library verifies a signature the reference finds invalid (%s)\nwire=%x\nclass=%s mutations=%+v", where, why, []byte(c.Wire), c.Class, c.Muts)
	}
	return finding("rejected-valid", "%s: library rejects (%v) a signature that is valid over the received bytes\nwire=%x\nclass=%s mutations=%+v", where, libErr, []byte(c.Wire), c.Class, c.Muts)
}

// checkC03: on every decodable message the library's verdict equals the
// reference verdict computed from the received bytes.
func checkC03(c c03Case) error {
	m, err := decodeLib(c.Kind, c.Wire)
	if err != nil {
		stats.Class("undecodable")
		return nil
	}
	env, err := refcose.ParseEnv(c.Kind, c.Wire)
	if err != nil {
		stats.Class("lib-decodes-ref-cannot-locate")
		return nil
	}
	payload, ok := env.PayloadBytes()
	if !ok {
		payload = c.Spec.Payload
		*m.payload() = append([]byte{}, payload...)
	}
	ext := c.ext()
	var vs []cose.Verifier
	for i, km := range c.VKeys {
		v, err := libVerifier(km, false)
		if i < len(c.KeyWas) && c.KeyWas[i].Alg != 0 && km.Family() != "rsa" && c.KeyWas[i].Family() != "rsa" && km.Curve == 0 && c.KeyWas[i].Curve == 0 {
			v, err = verifierFromEditedKey(c.KeyWas[i], km)
			stats.Class("verifier-from-key-object-edited-in-place")
		}
		if err != nil {
			return fmt.Errorf("harness: verifier: %v", err)
		}
		if c.Reentrant {
			v = reentrantVerifier{v}
			stats.Class("verifiers-run-other-library-operations")
		}
		vs = append(vs, v)
	}
	allValid := true
	switch c.Kind {
	case refcose.KSign1, refcose.KSign1Untagged:
		tbs := refcose.SigStructure1(env.ProtContent(), ext, payload)
		okRef, why := refValid(env, c.VKeys[0], ext, tbs)
		if err := verdictMismatch("Sign1.Verify", m.verify(ext, vs[0]), okRef, why, &c); err != nil {
			return err
		}
		stats.Class("verdict/" + why)
		stats.Class("alg/" + refcose.AlgName(c.VKeys[0].Alg) + "/" + why)
		allValid = okRef
		if okRef {
			// the same in-memory message, same verifier object, signature bytes edited in place
			sigp := &m.s1
			_ = sigp
			var sl []byte
			if m.s1 != nil {
				sl = m.s1.Signature
			} else {
				sl = m.u1.Signature
			}
			sl[len(sl)/2] ^= 0x10
			err2 := m.verify(ext, vs[0])
			sl[len(sl)/2] ^= 0x10
			if err2 == nil {
				return finding("accepted-invalid/edited-in-place", "Sign1.Verify still returns nil after the signature bytes of the verified message were edited in place\nwire=%x", []byte(c.Wire))
			}
			if err3 := m.verify(ext, vs[0]); err3 != nil {
				return finding("rejected-valid", "Sign1.Verify fails (%v) after the signature was restored", err3)
			}
			stats.Class("reverified-after-in-place-edit")
		}
		p := gen.Parent{Kind: refcose.KSign1, BodyProt: env.ProtContent(), Payload: payload, Sig: env.Sig.Content}
		if err := compareGroups(m.headers().Unprotected, env.Unprot, c.Spec.Groups, m.parent, p, &c, "msg"); err != nil {
			return err
		}
	case refcose.KSign:
		bodyRaw, _ := m.sm.Headers.MarshalProtected()
		n := len(env.Sigs)
		if n != len(m.sm.Signatures) {
			return finding("nsig", "library decoded %d signatures, reference %d", len(m.sm.Signatures), n)
		}
		for i := 0; i < n && i < len(c.VKeys); i++ {
			tbs := refcose.SigStructure(env.ProtContent(), env.Sigs[i].ProtContent(), ext, payload)
			okRef, why := refValid(env.Sigs[i], c.VKeys[i], ext, tbs)
			libErr := m.sm.Signatures[i].Verify(vs[i], bodyRaw, payload, ext)
			if err := verdictMismatch(fmt.Sprintf("Signature[%d].Verify", i), libErr, okRef, why, &c); err != nil {
				return err
			}
			stats.Class("verdict/" + why)
			stats.Class("alg/" + refcose.AlgName(c.VKeys[i].Alg) + "/" + why)
			if !okRef {
				allValid = false
			} else {
				sl := m.sm.Signatures[i].Signature
				sl[0] ^= 0x01
				err2 := m.sm.Signatures[i].Verify(vs[i], bodyRaw, payload, ext)
				sl[0] ^= 0x01
				if err2 == nil {
					return finding("accepted-invalid/edited-in-place", "Signature[%d].Verify still returns nil after its signature bytes were edited in place\nwire=%x", i, []byte(c.Wire))
				}
				stats.Class("reverified-after-in-place-edit")
			}
			if i < len(c.Spec.Sigs) {
				sig := m.sm.Signatures[i]
				p := gen.Parent{Kind: refcose.KSignature, BodyProt: env.Sigs[i].ProtContent(), Payload: env.Sigs[i].Sig.Content}
				if err := compareGroups(sig.Headers.Unprotected, env.Sigs[i].Unprot, c.Spec.Sigs[i].Groups, func(ptr bool) any {
					if ptr {
						return sig
					}
					return *sig
				}, p, &c, fmt.Sprintf("sig[%d]", i)); err != nil {
					return err
				}
			}
		}
		if n != len(c.VKeys) {
			allValid = false
		}
		if err := verdictMismatch("SignMessage.Verify", m.verify(ext, vs...), allValid, "some-signature-invalid-or-count", &c); err != nil {
			return err
		}
		p := gen.Parent{Kind: refcose.KSign, BodyProt: env.ProtContent(), Payload: payload}
		if err := compareGroups(m.headers().Unprotected, env.Unprot, c.Spec.Groups, m.parent, p, &c, "msg"); err != nil {
			return err
		}
	}
	// edits confined to the unprotected headers of the in-memory message - including ones that make
	// the bucket inconsistent with the protected one or impossible to serialise - leave the verdict unchanged
	{
		layers := []*cose.Headers{m.headers()}
		if m.sm != nil {
			for _, sg := range m.sm.Signatures {
				layers = append(layers, &sg.Headers)
			}
		}
		before := m.verify(ext, vs...)
		type saved struct {
			u   cose.UnprotectedHeader
			raw []byte
		}
		// three rounds: without an alg among the added parameters, with the algorithm of the verifier at
		// position 0, with another algorithm (label 1 in the unprotected bucket is not where alg is looked up)
		for round := 0; round < 3; round++ {
			var keep []saved
			for _, h := range layers {
				keep = append(keep, saved{h.Unprotected, h.RawUnprotected})
				nu := cose.UnprotectedHeader{}
				for k, v := range h.Unprotected {
					nu[k] = v
				}
				nu[int64(4)] = int64(5)                // kid of the wrong type
				nu[int64(2)] = []any{int64(4)}         // crit does not belong here
				nu[int64(6)] = []byte{1}               // Partial IV (next to an IV the protected bucket may hold)
				nu[int64(5)] = []byte{2}               // and an IV
				nu["verif-unserialisable"] = func() {} // nothing the encoder can write
				switch round {
				case 1:
					nu[int64(1)] = cose.Algorithm(c.VKeys[0].Alg)
				case 2:
					nu[int64(1)] = cose.Algorithm(-65000 - c.VKeys[0].Alg)
				}
				h.Unprotected, h.RawUnprotected = nu, nil
			}
			after := m.verify(ext, vs...)
			for i, h := range layers {
				h.Unprotected, h.RawUnprotected = keep[i].u, keep[i].raw
			}
			if (before == nil) != (after == nil) {
				return finding("unprotected-edit-changes-verdict", "an in-memory edit confined to the unprotected headers (round %d) changed the verdict of Verify: before %v, after %v\nwire=%x", round, before, after, []byte(c.Wire))
			}
		}
		stats.Class("reverified-after-unprotected-edit")
	}
	stats.Class("class/" + c.Class)
	if allValid {
		stats.Class("class-valid/" + c.Class)
	}
	if c.Class != "none" && (string(c.Wire) != string(c.Orig) || c.Class == "external" || c.Class == "key") {
		stats.NTBytes(c.Wire, ext, []byte(c.Class), []byte(fmt.Sprint(c.VKeys)))
		stats.Class("nontrivial")
		if allValid {
			stats.Class("nontrivial/verdict-preserved")
		} else {
			stats.Class("nontrivial/verdict-flipped")
		}
		stats.Sample("c03/"+c.Class, map[string]any{"class": c.Class, "kind": c.Kind.String(), "wire": c.Wire, "mutations": c.Muts, "all_valid": allValid})
	}
	return nil
}

// compareGroups compares library and reference verdicts for every
// countersignature that spec says hangs off this layer and that is still
// present with its shape in the (mutated) bytes.
func compareGroups(un cose.UnprotectedHeader, unNode *rc.Node, groups []gen.CsigGroup, parent func(ptr bool) any, p gen.Parent, c *c03Case, where string) error {
	for gi, g := range groups {
		v, ok := un[int64(g.Label)]
		node := unNode.Lookup(g.Label)
		if !ok || node == nil {
			stats.Class("csig-gone")
			continue
		}
		if g.Abbrev() {
			sig, ok := v.([]byte)
			if !ok || node.Major != 2 {
				continue
			}
			cs := g.Items[0]
			ver, err := libVerifier(cs.Key, false)
			if err != nil {
				return err
			}
			tbs := gen.CountersignTBS(p, true, []byte{}, cs.External)
			okRef := len(node.Content) > 0 && refcose.Verify(cs.Key.Alg, cs.Key.Public(), tbs, node.Content)
			libErr := cose.VerifyCountersign0(ver, parent(gi%2 == 0), cs.External, sig)
			why := "csig0-bad-signature"
			if okRef {
				why = "csig0-valid"
			}
			if p.Kind == refcose.KSign1 && p.Payload == nil {
				continue
			}
			if err := verdictMismatch(where+"/csig0", libErr, okRef, why, c); err != nil {
				return err
			}
			stats.Class("verdict/" + why)
			continue
		}
		var list []*cose.Countersignature
		var items []*rc.Node
		switch x := v.(type) {
		case *cose.Countersignature:
			list = []*cose.Countersignature{x}
			items = []*rc.Node{node}
		case []*cose.Countersignature:
			list = x
			if node.Major != 4 {
				continue
			}
			items = node.Items
		default:
			continue
		}
		if len(list) != len(items) {
			continue
		}
		for i := 0; i < len(list) && i < len(g.Items); i++ {
			cs := g.Items[i]
			ce, err := refcose.ParseEnv(refcose.KSignature, items[i].Raw())
			if err != nil || list[i] == nil {
				continue
			}
			ver, err := libVerifier(cs.Key, false)
			if err != nil {
				return err
			}
			tbs := gen.CountersignTBS(p, false, ce.ProtContent(), cs.External)
			okRef, why := refValid(ce, cs.Key, cs.External, tbs)
			libErr := list[i].Verify(ver, parent(i%2 == 0), cs.External)
			if err := verdictMismatch(fmt.Sprintf("%s/csig %d[%d]", where, g.Label, i), libErr, okRef, "csig-"+why, c); err != nil {
				return err
			}
			stats.Class("verdict/csig-" + why)
			self := list[i]
			np := gen.Parent{Kind: refcose.KCountersignature, BodyProt: ce.ProtContent(), Payload: ce.Sig.Content}
			if err := compareGroups(self.Headers.Unprotected, ce.Unprot, cs.Groups, func(ptr bool) any {
				if ptr {
					return self
				}
				return *self
			}, np, c, fmt.Sprintf("%s/%d[%d]", where, g.Label, i)); err != nil {
				return err
			}
		}
	}
	return nil
}

func init() { register("c03", checkC03) }

// sigSlots returns the slots of the message-level signature byte strings.
func sigSlots(kind refcose.Kind, root **rc.M) []rc.MSlot {
	var out []rc.MSlot
	for _, s := range rc.MSlots(root) {
		switch kind {
		case refcose.KSign1:
			if s.Path == "/t/3" {
				out = append(out, s)
			}
		case refcose.KSign1Untagged:
			if s.Path == "/3" {
				out = append(out, s)
			}
		case refcose.KSign:
			var i int
			if n, _ := fmt.Sscanf(s.Path, "/t/3/%d/2", &i); n == 1 && s.Path == fmt.Sprintf("/t/3/%d/2", i) {
				out = append(out, s)
			}
		}
	}
	return out
}

// rewriteSig draws another spelling of / edit to a signature.
func rewriteSig(t *rapid.T, km refcose.KeyMat, sig []byte) ([]byte, string) {
	ec := km.Family() == "ec"
	op := rapid.IntRange(0, 8).Draw(t, "sigop")
	if ec && len(sig)%2 == 0 && len(sig) > 0 {
		n := len(sig) / 2
		r, s := new(big.Int).SetBytes(sig[:n]), new(big.Int).SetBytes(sig[n:])
		switch op {
		case 0:
			der, _ := asn1.Marshal(struct{ R, S *big.Int }{r, s})
			return der, "sig/der"
		case 1:
			// (r, n-s) is the other valid ECDSA signature for the same message
			order := km.Public().(*ecdsa.PublicKey).Curve.Params().N
			s2 := new(big.Int).Sub(order, s)
			out := make([]byte, 2*n)
			r.FillBytes(out[:n])
			s2.FillBytes(out[n:])
			return out, "sig/s-negated"
		case 2:
			return append(append([]byte{0}, sig[:n]...), append([]byte{0}, sig[n:]...)...), "sig/zero-extended-halves"
		case 3:
			return append(r.Bytes(), s.Bytes()...), "sig/minimal-halves"
		case 4:
			return append(append([]byte{}, sig[n:]...), sig[:n]...), "sig/halves-swapped"
		case 5, 6:
			// r + order (or s + order) when it still fits the width (always on P-521): same residue,
			// but an integer outside [1, n-1] is not part of a valid signature
			order := km.Public().(*ecdsa.PublicKey).Curve.Params().N
			out := make([]byte, 2*n)
			rr, ss := r, s
			if op == 5 {
				rr = new(big.Int).Add(r, order)
			} else {
				ss = new(big.Int).Add(s, order)
			}
			if rr.BitLen() <= 8*n && ss.BitLen() <= 8*n {
				rr.FillBytes(out[:n])
				ss.FillBytes(out[n:])
				return out, "sig/plus-order"
			}
		}
	}
	switch op % 4 {
	case 0:
		return append(append([]byte{}, sig...), 0), "sig/append-zero"
	case 1:
		return append([]byte{0}, sig...), "sig/prepend-zero"
	case 2:
		if len(sig) > 1 {
			return append([]byte{}, sig[:len(sig)-1]...), "sig/truncate"
		}
	}
	out := append([]byte{}, sig...)
	if len(out) > 0 {
		i := rapid.IntRange(0, len(out)-1).Draw(t, "sigflip-at")
		out[i] ^= 1 << rapid.IntRange(0, 7).Draw(t, "sigflip-bit")
	}
	return out, "sig/bitflip"
}

func c03Opts() gen.MsgOpts {
	o := c07Opts()
	o.Hdr.MaxEntries = 8
	o.HugeLens = false
	o.MaxSigners = 4
	return o
}

// genC03Case draws a validly signed message and one of the attack classes.
func genC03Case(t *rapid.T) c03Case { return genC03CaseWith(t, c03Opts()) }

func genC03CaseWith(t *rapid.T, opts gen.MsgOpts) c03Case {
	wc, _ := genWireCase(t, opts, true)
	c := c03Case{Spec: wc.Spec, Kind: wc.Spec.Kind, Wire: wc.Wire, Orig: wc.Wire, Ext: wc.Spec.External, ExtNil: wc.Spec.ExtNil}
	c.Reentrant = rapid.IntRange(0, 3).Draw(t, "reentrant") == 0
	for _, s := range wc.Spec.Sigs {
		c.VKeys = append(c.VKeys, s.Key)
	}
	class := rapid.SampledFrom([]string{"tree", "tree", "tree", "tree", "signature", "signature", "external", "key", "retag", "transplant", "transplant", "none"}).Draw(t, "class")
	c.Class = class
	switch class {
	case "tree":
		n := rapid.SampledFrom([]int{1, 1, 2}).Draw(t, "nfaults")
		c.Wire, c.Muts = gen.MutateWire(t, wc.Wire, n, gen.MutOpts{Gentle: true})
	case "signature":
		root, err := rc.MParse(wc.Wire, true)
		if err != nil {
			panic(err)
		}
		slots := sigSlots(c.Kind, &root)
		i := rapid.IntRange(0, len(slots)-1).Draw(t, "sigslot")
		x := slots[i].Get()
		nb, name := rewriteSig(t, c.VKeys[i], x.Bytes)
		if km := c.VKeys[i]; km.Family() == "rsa" && rapid.Bool().Draw(t, "pss-salt") {
			// a PSS signature over the right bytes with the right key and hash but another salt
			// length than PSnnn prescribes: not a valid PSnnn signature (RFC 8230 2)
			env, err := refcose.ParseEnv(c.Kind, wc.Wire)
			if err != nil {
				panic(err)
			}
			payload, ok := env.PayloadBytes()
			if !ok {
				payload = wc.Spec.Payload
			}
			var tbs []byte
			if c.Kind == refcose.KSign {
				tbs = refcose.SigStructure(env.ProtContent(), env.Sigs[i].ProtContent(), c.ext(), payload)
			} else {
				tbs = refcose.SigStructure1(env.ProtContent(), c.ext(), payload)
			}
			hl := refcose.HashFor(km.Alg).Size()
			salt := rapid.SampledFrom([]int{0, 1, 20, hl - 1, hl + 1, 2 * hl, -1}).Draw(t, "saltlen")
			if salt == -1 {
				salt = rsa.PSSSaltLengthAuto // the largest the key admits: crypto/rsa's own default
			}
			nb, name = refcose.SignPSSSalt(km.Alg, km, tbs, salt), "sig/pss-foreign-salt-length"
		}
		x.Bytes = nb
		c.Wire = root.Enc()
		c.Muts = []gen.Mutation{{Op: name, Path: slots[i].Path}}
	case "external":
		switch rapid.IntRange(0, 3).Draw(t, "extop") {
		case 0:
			// nil <-> empty is not a change
			if len(c.ext()) == 0 {
				c.ExtNil = !c.ExtNil
				c.Ext = nil
				c.Muts = []gen.Mutation{{Op: "external/nil-vs-empty"}}
			} else {
				c.Ext = append(append(rc.Hex{}, c.Ext...), 0)
				c.Muts = []gen.Mutation{{Op: "external/extended"}}
			}
		case 1:
			c.Ext, c.ExtNil = rc.Hex("other external data"), false
			c.Muts = []gen.Mutation{{Op: "external/replaced"}}
		case 2:
			c.Ext, c.ExtNil = nil, true
			c.Muts = []gen.Mutation{{Op: "external/dropped"}}
		default:
			if len(c.Ext) > 0 {
				c.Ext = append(rc.Hex{}, c.Ext...)
				c.Ext[rapid.IntRange(0, len(c.Ext)-1).Draw(t, "extflip")] ^= 0x40
				c.Muts = []gen.Mutation{{Op: "external/bitflip"}}
			} else {
				c.Ext, c.ExtNil = rc.Hex{0}, false
				c.Muts = []gen.Mutation{{Op: "external/added"}}
			}
		}
	case "key":
		i := rapid.IntRange(0, len(c.VKeys)-1).Draw(t, "keyslot")
		old := c.VKeys[i]
		switch rapid.IntRange(0, 2).Draw(t, "keyop") {
		case 0: // another key of the same algorithm
			nk := gen.KeyMat(t, old.Alg)
			if nk.Family() == "rsa" && nk.RSA == old.RSA {
				nk.RSA = map[string]string{"rsa2048": "rsa2048b", "rsa2048b": "rsa3072", "rsa3072": "rsa4096", "rsa4096": "rsa2049", "rsa2049": "rsa2055", "rsa2055": "rsa2048"}[old.RSA]
			}
			c.VKeys[i] = nk
			c.Muts = []gen.Mutation{{Op: "key/other-key-same-alg"}}
		case 1: // a key of another algorithm
			alg := gen.Alg(t)
			c.VKeys[i] = gen.KeyMat(t, alg)
			c.Muts = []gen.Mutation{{Op: "key/other-alg"}}
		default: // the same key under another algorithm of its family
			nk := old
			switch old.Family() {
			case "ec":
				nk.Curve = map[int64]int{refcose.AlgES256: 256, refcose.AlgES384: 384, refcose.AlgES512: 521}[old.Alg]
				nk.Alg = rapid.SampledFrom([]int64{refcose.AlgES256, refcose.AlgES384, refcose.AlgES512}).Draw(t, "ecalg2")
			case "rsa":
				nk.Alg = rapid.SampledFrom([]int64{refcose.AlgPS256, refcose.AlgPS384, refcose.AlgPS512}).Draw(t, "psalg2")
			}
			c.VKeys[i] = nk
			c.Muts = []gen.Mutation{{Op: "key/same-key-other-alg"}}
		}
		if rapid.Bool().Draw(t, "key-object-edited") {
			c.KeyWas = make([]refcose.KeyMat, len(c.VKeys))
			c.KeyWas[i] = old
			c.Muts = append(c.Muts, gen.Mutation{Op: "key/key-object-edited-in-place"})
		} else if len(c.VKeys) > 1 && rapid.IntRange(0, 3).Draw(t, "permute-keys") == 0 {
			j := rapid.IntRange(0, len(c.VKeys)-1).Draw(t, "keyswap")
			c.VKeys[i], c.VKeys[j] = c.VKeys[j], c.VKeys[i]
			c.Muts = append(c.Muts, gen.Mutation{Op: "key/permuted"})
		}
	case "retag":
		switch c.Kind {
		case refcose.KSign1:
			c.Kind, c.Wire = refcose.KSign1Untagged, wc.Wire[1:]
			c.Muts = []gen.Mutation{{Op: "retag/18-to-none"}}
		case refcose.KSign1Untagged:
			c.Kind, c.Wire = refcose.KSign1, append(rc.Hex{0xd2}, wc.Wire...)
			c.Muts = []gen.Mutation{{Op: "retag/none-to-18"}}
		default:
			// a COSE_Sign whose only signer is presented as a Sign1 with the signer's protected header and signature
			env, err := refcose.ParseEnv(refcose.KSign, wc.Wire)
			if err != nil {
				panic(err)
			}
			w := []byte{0xd2, 0x84}
			w = append(w, env.Sigs[0].Prot.Raw()...)
			w = append(w, env.Unprot.Raw()...)
			w = append(w, env.Payload.Raw()...)
			w = append(w, env.Sigs[0].Sig.Raw()...)
			c.Kind, c.Wire, c.VKeys = refcose.KSign1, w, c.VKeys[:1]
			c.Spec.Groups = nil
			c.Muts = []gen.Mutation{{Op: "retag/signature-as-sign1"}}
		}
	case "transplant":
		// a second message signed with the same keys; one field of the first is replaced by the second's
		spec2 := wc.Spec
		spec2.Payload = append(append(rc.Hex{}, wc.Spec.Payload...), gen.Blob(t, "payload2", 1+rapid.IntRange(0, 8).Draw(t, "p2len"))...)
		spec2.Prot = wc.Spec.Prot.With(rc.Text("second"), rc.Int(2))
		spec2.Detached = false
		b2 := &gen.Builder{T: t, Entropy: []byte("second")}
		w2 := b2.Build(&spec2).Wire
		r1, err1 := rc.MParse(wc.Wire, true)
		r2, err2 := rc.MParse(w2, true)
		if err1 != nil || err2 != nil {
			panic("transplant parse")
		}
		arr := func(k refcose.Kind, r *rc.M) *rc.M {
			if k == refcose.KSign1Untagged {
				return r
			}
			return r.Child
		}
		a1, a2 := arr(c.Kind, r1), arr(c.Kind, r2)
		f := rapid.IntRange(0, 3).Draw(t, "field")
		a1.Items[f] = a2.Items[f]
		c.Wire = r1.Enc()
		c.Muts = []gen.Mutation{{Op: fmt.Sprintf("transplant/field-%d", f)}}
		if f == 1 {
			c.Spec.Groups = nil
		}
	}
	return c
}

func TestC03_Mutants(t *testing.T) {
	begin(t, "C03", "mutants")
	prop(t, func(rt *rapid.T) {
		c := genC03Case(rt)
		stats.Eval()
		for _, m := range c.Muts {
			stats.Class("op/" + m.Op)
		}
		judge(rt, "c03", c, checkC03)
	})
}

// FuzzC03 drives the same property from coverage-guided byte input.
// TestC03_LargePayload: the same attack classes over messages whose content is one to a few MiB long
// (payload lengths around 2^20 and 2^21): the verdict must not depend on how long the content is.
func TestC03_LargePayload(t *testing.T) {
	begin(t, "C03", "large")
	o := c03Opts()
	o.Hdr.MaxEntries = 3
	o.MaxSigners = 2
	o.PayloadLens = []int{1<<20 - 1, 1 << 20, 1<<20 + 1, 1<<21 + 5}
	prop(t, func(rt *rapid.T) {
		c := genC03CaseWith(rt, o)
		stats.Eval()
		stats.Class(fmt.Sprintf("payload-length/2^%d", bits.Len(uint(len(c.Spec.Payload)))-1))
		if c.ExtNil {
			stats.Class("large/external-nil")
		} else if len(c.Ext) == 0 {
			stats.Class("large/external-empty")
		} else {
			stats.Class("large/external-set")
		}
		judge(rt, "c03", c, checkC03)
	})
}

func FuzzC03(f *testing.F) {
	cur = propCtx{Property: "C03", Part: "fuzz"}
	f.Fuzz(rapid.MakeFuzz(func(rt *rapid.T) {
		judge(rt, "c03", genC03Case(rt), checkC03)
	}))
}
