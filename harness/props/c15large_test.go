package props

import (
	"fmt"
	"testing"

	rc "verifharness/refcbor"
	"verifharness/stats"
)

// Large COSE_Keys whose re-encoding is LONGER than the accepted input (C15: "the re-encoding of an accepted key is
// accepted again"): a key padded by a filler parameter to an exact total size on either side of 2^16, 2^20 and
// 2^24 bytes, holding a coordinate one or two bytes short (re-padded by the serialiser), a half-precision float
// (written back as a double) or a non-minimal integer head (written back minimal: shorter). Whatever size limit an
// implementation applies, it must not let a key in that it cannot let in again after re-encoding.
func TestC15_LargeKeys(t *testing.T) {
	begin(t, "C15", "largekeys")
	x, y, d := c15Coords(1)
	n := 0
	for _, total := range []int{255, 256, 65535, 65536, 65537, 1<<20 - 2, 1<<20 - 1, 1 << 20, 1<<20 + 1, 1<<24 - 1, 1 << 24} {
		for shape := 0; shape < 5; shape++ {
			m := rc.Map(rc.E(rc.Int(1), rc.Int(2)), rc.E(rc.Int(-1), rc.Int(1)))
			xs, ys := x, y
			switch shape {
			case 1:
				xs = append([]byte{}, x[1:]...) // 31 octets: re-padded to 32
			case 2:
				xs, ys = append([]byte{}, x[2:]...), append([]byte{}, y[1:]...)
			}
			m.M = append(m.M, rc.E(rc.Int(-2), rc.Bytes(xs)), rc.E(rc.Int(-3), rc.Bytes(ys)))
			if shape == 3 {
				m.M = append(m.M, rc.E(rc.Int(-4), rc.Bytes(d[1:])))
			}
			if shape == 4 {
				m.M = append(m.M, rc.E(rc.Int(70000), rc.Val{K: rc.KFloat16, F: 0x3e00})) // 1.5 as a half: comes back as a double
			}
			base := len(rc.Encode(m.With(rc.Int(1000), rc.Bytes(nil)), nil))
			var wire []byte
			for delta := 0; delta <= 8 && wire == nil; delta++ {
				if fill := total - base - delta; fill >= 0 {
					if w := rc.Encode(m.With(rc.Int(1000), rc.Bytes(make([]byte, fill))), nil); len(w) == total {
						wire = w
					}
				}
			}
			if wire == nil {
				continue
			}
			n++
			stats.Eval()
			stats.Class("large-key")
			c := c15Case{Wire: wire, Cell: fmt.Sprintf("large-key total=%d shape=%d", total, shape)}
			judge(t, "c15", c, checkC15)
			stats.NTBytes([]byte(c.Cell))
		}
	}
	stats.ExhaustivePart("key size x growing re-encoding shape", n)
}
