package props

import (
	"bytes"
	"fmt"
	"testing"

	cose "github.com/veraison/go-cose"

	"verifharness/refcose"
	"verifharness/stats"
)

// Header sets the encoders refuse, at every payload size (C08: "always decodable"): whatever path an encoder takes
// for a payload of a given length, it either refuses the message or returns bytes its own decoder accepts, and a
// conforming message of that size is emitted, accepted back and re-encoded to the same bytes.

type c08SizeCase struct {
	Struct string `json:"struct"` // Sign1, Untagged, SignBody, SignSigner
	Fault  string `json:"fault"`
	PayLen int    `json:"payload_len"`
}

func checkC08Size(c c08SizeCase) error {
	prot := cose.ProtectedHeader{cose.HeaderLabelAlgorithm: cose.AlgorithmES256}
	unprot := cose.UnprotectedHeader{}
	csig := &cose.Countersignature{Headers: cose.Headers{Protected: cose.ProtectedHeader{}, Unprotected: cose.UnprotectedHeader{}}, Signature: []byte{1}}
	switch c.Fault {
	case "none":
		unprot[cose.HeaderLabelKeyID] = []byte("kid")
	case "iv-protected+piv-unprotected":
		prot[cose.HeaderLabelIV] = []byte{1}
		unprot[cose.HeaderLabelPartialIV] = []byte{2}
	case "piv-protected+iv-unprotected":
		prot[cose.HeaderLabelPartialIV] = []byte{1}
		unprot[cose.HeaderLabelIV] = []byte{2}
	case "iv+piv-unprotected":
		unprot[cose.HeaderLabelIV] = []byte{1}
		unprot[cose.HeaderLabelPartialIV] = []byte{2}
	case "crit-unprotected":
		unprot[cose.HeaderLabelCritical] = []any{int64(4)}
		unprot[cose.HeaderLabelKeyID] = []byte("kid")
	case "crit-absent-label":
		prot[cose.HeaderLabelCritical] = []any{int64(99)}
	case "countersignature-protected":
		prot[cose.HeaderLabelCounterSignature] = csig
	case "kid-text":
		unprot[cose.HeaderLabelKeyID] = "kid"
	case "countersignature-unsigned":
		unprot[cose.HeaderLabelCounterSignature] = &cose.Countersignature{Headers: cose.Headers{Protected: cose.ProtectedHeader{}, Unprotected: cose.UnprotectedHeader{}}}
	}
	payload := make([]byte, c.PayLen)
	h := cose.Headers{Protected: prot, Unprotected: unprot}
	sig := bytes.Repeat([]byte{7}, 64)
	var out []byte
	var err error
	var kind refcose.Kind
	switch c.Struct {
	case "Sign1":
		kind = refcose.KSign1
		out, err = (&cose.Sign1Message{Headers: h, Payload: payload, Signature: sig}).MarshalCBOR()
	case "Untagged":
		kind = refcose.KSign1Untagged
		out, err = (&cose.UntaggedSign1Message{Headers: h, Payload: payload, Signature: sig}).MarshalCBOR()
	case "SignBody":
		kind = refcose.KSign
		delete(prot, cose.HeaderLabelAlgorithm)
		s := &cose.Signature{Headers: cose.Headers{Protected: cose.ProtectedHeader{cose.HeaderLabelAlgorithm: cose.AlgorithmES256}, Unprotected: cose.UnprotectedHeader{}}, Signature: sig}
		out, err = (&cose.SignMessage{Headers: h, Payload: payload, Signatures: []*cose.Signature{s}}).MarshalCBOR()
	case "SignSigner":
		kind = refcose.KSign
		s := &cose.Signature{Headers: h, Signature: sig}
		out, err = (&cose.SignMessage{Headers: cose.Headers{Protected: cose.ProtectedHeader{}, Unprotected: cose.UnprotectedHeader{}}, Payload: payload, Signatures: []*cose.Signature{s}}).MarshalCBOR()
	}
	stats.Class("size-table/" + c.Fault)
	if err != nil {
		if c.Fault == "none" {
			return finding("conforming-refused", "%s with a payload of %d bytes is not encodable: %v", c.Struct, c.PayLen, err)
		}
		if len(out) != 0 {
			return finding("bytes-with-error", "%s (%s, payload %d): MarshalCBOR returns %d bytes together with %v", c.Struct, c.Fault, c.PayLen, len(out), err)
		}
		return nil
	}
	v, derr := decodeAny(kind, out)
	if derr != nil {
		return finding("own-output-refused", "%s with %s and a payload of %d bytes is emitted (%d bytes, head %x) and then refused by the library's own decoder: %v", c.Struct, c.Fault, c.PayLen, len(out), out[:min(len(out), 24)], derr)
	}
	if c.Fault == "none" {
		var again []byte
		switch m := v.(type) {
		case *cose.Sign1Message:
			again, err = m.MarshalCBOR()
		case *cose.UntaggedSign1Message:
			again, err = m.MarshalCBOR()
		case *cose.SignMessage:
			again, err = m.MarshalCBOR()
		}
		if err != nil || !bytes.Equal(again, out) {
			return finding("not-a-fixpoint", "%s with a payload of %d bytes: decode + encode does not reproduce the encoding (err=%v, %d vs %d bytes)", c.Struct, c.PayLen, err, len(again), len(out))
		}
		want := c.PayLen
		env, perr := refcose.ParseEnv(kind, out)
		if perr != nil {
			return finding("not-reference-decodable", "%s with a payload of %d bytes: the reference parser refuses the output (%v)", c.Struct, c.PayLen, perr)
		}
		if pb, _ := env.PayloadBytes(); len(pb) != want {
			return finding("not-reference-decodable", "%s with a payload of %d bytes: the reference parser finds a payload of %d bytes", c.Struct, c.PayLen, len(pb))
		}
	}
	return nil
}

func init() { register("c08size", checkC08Size) }

func TestC08_SizeTable(t *testing.T) {
	begin(t, "C08", "size-table")
	n := 0
	faults := []string{"none", "iv-protected+piv-unprotected", "piv-protected+iv-unprotected", "iv+piv-unprotected", "crit-unprotected", "crit-absent-label",
		"countersignature-protected", "kid-text", "countersignature-unsigned"}
	for _, st := range []string{"Sign1", "Untagged", "SignBody", "SignSigner"} {
		for _, pl := range []int{0, 1, 23, 24, 255, 256, 65535, 65536, 65537, 1<<20 - 1, 1 << 20, 1<<24 + 1} {
			for _, f := range faults {
				if pl > 1<<20 && f != "none" && f != "iv-protected+piv-unprotected" {
					continue
				}
				c := c08SizeCase{Struct: st, Fault: f, PayLen: pl}
				n++
				stats.Eval()
				stats.NTBytes([]byte(fmt.Sprint(c)))
				judge(t, "c08size", c, checkC08Size)
				if n%23 == 0 {
					stats.Sample("size-table", c)
				}
			}
		}
	}
	stats.ExhaustivePart("payload size x refused header set x structure", n)
}
