package props

import (
	"crypto"
	"crypto/ecdsa"
	"crypto/rand"
	"fmt"
	"io"
	"math/big"
	"testing"

	cose "github.com/veraison/go-cose"

	"verifharness/refcose"
	"verifharness/stats"
)

// A signer / verifier object outlives the key it was built over: the caller's
// key structure (a token slot, a key that is rotated in place) is overwritten
// with a key on the same or another curve while the object is alive. Whether
// the object then works with the old or with the new key is not the
// property's business; that it is an ECDSA signer / verifier for exactly ONE
// of them - fixed-width r || s of that key's curve order, nothing else
// accepted - is.
type c16ReplacedCase struct {
	Alg       int64  `json:"alg"`
	From      int    `json:"from"` // curve of the key the object was built over
	To        int    `json:"to"`   // curve of the key written over it
	Side      string `json:"side"` // signer-native, signer-opaque, verifier
	UsedFirst bool   `json:"used_first,omitempty"`
}

// slotSigner is a crypto.Signer whose Public() hands out a pointer to its own, stable key structure.
type slotSigner struct{ key *ecdsa.PrivateKey }

func (s *slotSigner) Public() crypto.PublicKey { return &s.key.PublicKey }
func (s *slotSigner) Sign(r io.Reader, digest []byte, o crypto.SignerOpts) ([]byte, error) {
	return s.key.Sign(r, digest, o)
}

func c16FixedKey(curve int, tag string) *ecdsa.PrivateKey {
	c := curveOf(curve)
	d := new(big.Int).SetBytes([]byte("c16-replaced-" + tag + fmt.Sprint(curve)))
	buf := make([]byte, (c.Params().BitSize+7)/8)
	d.FillBytes(buf)
	x, y := c.ScalarBaseMult(buf)
	return &ecdsa.PrivateKey{PublicKey: ecdsa.PublicKey{Curve: c, X: x, Y: y}, D: d}
}

// c16Forms returns the exact r || s form of sig (made for a key whose order has n bytes) and its near misses.
func c16Forms(sig []byte, n, otherN int) map[string][]byte {
	r, s := sig[:n], sig[n:]
	pad := func(b []byte, k int) []byte { return append(make([]byte, k), b...) }
	out := map[string][]byte{
		"halves-with-one-extra-leading-zero": append(pad(r, 1), pad(s, 1)...),
		"trailing-zero-byte":                 append(append([]byte{}, sig...), 0),
		"leading-zero-byte":                  append([]byte{0}, sig...),
	}
	if otherN > n {
		out["halves-zero-extended-to-the-other-curve's-width"] = append(pad(r, otherN-n), pad(s, otherN-n)...)
	}
	if r[0] == 0 && s[0] == 0 {
		out["halves-with-leading-zero-stripped"] = append(append([]byte{}, r[1:]...), s[1:]...)
	}
	return out
}

func checkC16Replaced(c c16ReplacedCase) error {
	alg := cose.Algorithm(c.Alg)
	oldK, newK := c16FixedKey(c.From, "old"), c16FixedKey(c.To, "new")
	nOld, nNew := refcose.OrderSize(oldK.Curve), refcose.OrderSize(newK.Curve)
	msg := []byte("message signed after the key was replaced")
	h := refcose.HashFor(c.Alg)
	refSig := func(k *ecdsa.PrivateKey, tag string) []byte {
		r, s, err := ecdsa.Sign(refcose.NewEntropy([]byte(tag)), k, refcose.Digest(h, msg))
		if err != nil {
			panic(err)
		}
		return refcose.FixedRS(k.Curve, r, s)
	}
	exact := func(k *ecdsa.PrivateKey, sig []byte) bool {
		return len(sig) == 2*refcose.OrderSize(k.Curve) && refcose.Verify(c.Alg, &k.PublicKey, msg, sig)
	}
	switch c.Side {
	case "signer-native", "signer-opaque":
		live := *oldK // the caller's structure
		var sg cose.Signer
		var err error
		if c.Side == "signer-native" {
			sg, err = cose.NewSigner(alg, &live)
		} else {
			sg, err = cose.NewSigner(alg, &slotSigner{key: &live})
		}
		if err != nil {
			return finding("newsigner", "NewSigner(%v, P-%d key): %v", alg, c.From, err)
		}
		if c.UsedFirst {
			sig, err := sg.Sign(rand.Reader, msg)
			if err != nil || !exact(oldK, sig) {
				return finding("not-fixed-width", "before any replacement: signature of %d bytes (err=%v) is not a valid fixed-width signature of the P-%d key", len(sig), err, c.From)
			}
		}
		live = *newK
		sig, err := sg.Sign(rand.Reader, msg)
		if err != nil {
			stats.Class("replaced/signer-reports-an-error")
			return nil
		}
		if !exact(oldK, sig) && !exact(newK, sig) {
			return finding("not-fixed-width/key-replaced", "%s built over a P-%d key whose structure then received a P-%d key: Sign returns %d bytes that are a fixed-width r || s signature neither of the new key (%d bytes) nor of the old one (%d bytes)\nsig=%x", c.Side, c.From, c.To, len(sig), 2*nNew, 2*nOld, sig)
		}
		if ds, ok := sg.(cose.DigestSigner); ok {
			sig, err := ds.SignDigest(rand.Reader, refcose.Digest(h, msg))
			if err == nil && !exact(oldK, sig) && !exact(newK, sig) {
				return finding("not-fixed-width/key-replaced", "%s (SignDigest) built over a P-%d key whose structure then received a P-%d key: %d bytes, neither key's fixed-width signature\nsig=%x", c.Side, c.From, c.To, len(sig), sig)
			}
		}
		stats.Class("replaced/" + c.Side)
	case "verifier":
		live := oldK.PublicKey
		ver, err := cose.NewVerifier(alg, &live)
		if err != nil {
			return finding("newverifier", "NewVerifier(%v, P-%d key): %v", alg, c.From, err)
		}
		sigOld, sigNew := refSig(oldK, "old"), refSig(newK, "new")
		if c.UsedFirst {
			if err := ver.Verify(msg, sigOld); err != nil {
				return finding("exact-form-rejected", "before any replacement: the verifier rejects the fixed-width signature of its key: %v", err)
			}
		}
		live = newK.PublicKey
		accOld, accNew := ver.Verify(msg, sigOld) == nil, ver.Verify(msg, sigNew) == nil
		if accOld == accNew {
			return finding("exact-form-rejected/key-replaced", "verifier built over a P-%d key whose structure then received a P-%d key: fixed-width signature of the old key accepted=%v, of the new key accepted=%v - it is a verifier for neither (or for both)", c.From, c.To, accOld, accNew)
		}
		for _, side := range []struct {
			sig      []byte
			n, other int
			name     string
		}{{sigOld, nOld, nNew, "old"}, {sigNew, nNew, nOld, "new"}} {
			for form, b := range c16Forms(side.sig, side.n, side.other) {
				if ver.Verify(msg, b) == nil {
					return finding("malformed-accepted/key-replaced", "verifier built over a P-%d key whose structure then received a P-%d key accepts the %s key's signature in the form %q (%d bytes)", c.From, c.To, side.name, form, len(b))
				}
			}
		}
		if dv, ok := ver.(cose.DigestVerifier); ok {
			dg := refcose.Digest(h, msg)
			if a, b := dv.VerifyDigest(dg, sigOld) == nil, dv.VerifyDigest(dg, sigNew) == nil; a != accOld || b != accNew {
				return finding("exact-form-rejected/key-replaced", "VerifyDigest and Verify disagree after the key was replaced (old: %v / %v, new: %v / %v)", accOld, a, accNew, b)
			}
		}
		stats.Class("replaced/verifier")
	}
	stats.Class(fmt.Sprintf("replaced/P-%d-to-P-%d", c.From, c.To))
	stats.NTBytes([]byte(fmt.Sprintf("%+v", c)))
	return nil
}

func init() { register("c16replaced", checkC16Replaced) }

func TestC16_KeyReplaced(t *testing.T) {
	begin(t, "C16", "replaced")
	n := 0
	for _, alg := range []int64{refcose.AlgES256, refcose.AlgES384, refcose.AlgES512} {
		for _, from := range []int{256, 384, 521} {
			for _, to := range []int{256, 384, 521} {
				for _, side := range []string{"signer-native", "signer-opaque", "verifier"} {
					for _, used := range []bool{false, true} {
						n++
						stats.Eval()
						judge(t, "c16replaced", c16ReplacedCase{Alg: alg, From: from, To: to, Side: side, UsedFirst: used}, checkC16Replaced)
					}
				}
			}
		}
	}
	stats.ExhaustivePart("algorithm x curve before x curve after x object x used before", n)
}
