package props

import (
	"bytes"
	"fmt"
	"os"
	"testing"

	cose "github.com/veraison/go-cose"
	"pgregory.net/rapid"

	"verifharness/bridge"
	"verifharness/gen"
	rc "verifharness/refcbor"
	"verifharness/refcose"
	"verifharness/stats"
)

// refHashEnvelopeRules: the envelope rules of the property statement applied
// to the wire bytes (nil = conforming).
func refHashEnvelopeRules(env *refcose.Env) error {
	pm, um := env.ProtMap, env.Unprot
	if pm == nil || pm.Major != 5 {
		return fmt.Errorf("258 missing: protected header is empty")
	}
	ha := pm.Lookup(258)
	if ha == nil {
		return fmt.Errorf("258 missing from protected")
	}
	if !ha.IsInt() {
		return fmt.Errorf("258 is not an integer")
	}
	if _, ok := ha.Int64(); !ok {
		return fmt.Errorf("258 outside int64")
	}
	for _, l := range []int64{258, 259, 260} {
		if um.Lookup(l) != nil {
			return fmt.Errorf("%d present in unprotected", l)
		}
	}
	if pm.Lookup(3) != nil || um.Lookup(3) != nil {
		return fmt.Errorf("content type (3) present")
	}
	if v := pm.Lookup(259); v != nil && v.Major != 0 && v.Major != 3 {
		return fmt.Errorf("259 is not uint / tstr")
	}
	if v := pm.Lookup(260); v != nil && v.Major != 3 {
		return fmt.Errorf("260 is not tstr")
	}
	a, _ := ha.Int64()
	if want := hashLen(a); want >= 0 {
		pl, ok := env.PayloadBytes()
		if !ok || len(pl) != want {
			return fmt.Errorf("digest length %d, hash algorithm %d requires %d", len(pl), a, want)
		}
	}
	return nil
}

// hdrEdit places a governed label somewhere.
type hdrEdit struct {
	Label   int64  `json:"label"`
	Sp      uint8  `json:"sp"`
	InProt  bool   `json:"in_prot"`
	Val     rc.Val `json:"val"`
	ValName string `json:"val_name"`
}

func governedValues() []namedVal {
	return []namedVal{{"int-16", rc.Int(-16)}, {"int-43", rc.Int(-43)}, {"uint50", rc.Int(50)}, {"neg", rc.Int(-1)}, {"tstr-a/b", rc.Text("a/b")},
		{"tstr-loc", rc.Text("https://x.example/y")}, {"tstr-plain", rc.Text("plain")}, {"bstr", rc.Bytes([]byte{1})}, {"null", rc.Null}, {"float", rc.Float(1.5)}, {"bool", rc.Bool(true)},
		{"simple", rc.Simple(50)}, {"undefined", rc.Undef}, {"array", rc.Array(rc.Int(50))}, {"map", rc.Map(rc.E(rc.Int(1), rc.Int(50)))}, {"tagged-uint", rc.Tag(1, rc.Int(50))}}
}

func genEdits(t *rapid.T, spell bool) []hdrEdit {
	n := rapid.SampledFrom([]int{0, 0, 1, 1, 1, 2, 3}).Draw(t, "nedits")
	var out []hdrEdit
	for i := 0; i < n; i++ {
		e := hdrEdit{Label: rapid.SampledFrom([]int64{3, 258, 259, 260, 258, 259, 260, 5, 6}).Draw(t, "gov-label"), InProt: rapid.Bool().Draw(t, "gov-prot")}
		nv := rapid.SampledFrom(governedValues()).Draw(t, "gov-val")
		e.Val, e.ValName = nv.v, nv.name
		if (e.Label == 5 || e.Label == 6) && rapid.IntRange(0, 3).Draw(t, "iv-bstr") != 0 {
			// IV / Partial IV (generic rule: never both in one layer, whichever bucket) as proper byte strings
			e.Val, e.ValName = rc.Bytes([]byte{byte(e.Label)}), "bstr"
		}
		if spell {
			sp := uint8(rapid.IntRange(0, rc.NumSpellings-1).Draw(t, "gov-sp"))
			if sp == rc.SpInt64 || bridge.SpellingFits(e.Label, sp) {
				e.Sp = sp
			}
		}
		out = append(out, e)
	}
	return out
}

func applyEdits(p, u rc.Val, edits []hdrEdit) (rc.Val, rc.Val) {
	for _, e := range edits {
		if e.InProt {
			p = p.With(rc.IntSp(e.Label, e.Sp), e.Val)
		} else {
			u = u.With(rc.IntSp(e.Label, e.Sp), e.Val)
		}
	}
	return p, u
}

// ---------------------------------------------------------------------------
// producer side

type c12SignCase struct {
	Base      c01HashCase `json:"base"` // key, base headers, hash alg / value, optional fields
	Edits     []hdrEdit   `json:"edits,omitempty"`
	RawProt   bool        `json:"raw_prot,omitempty"`   // caller also sets RawProtected (must be discarded)
	RawUnprot int         `json:"raw_unprot,omitempty"` // 1: RawUnprotected mirrors the map; 2: RawUnprotected only (map left empty)
	CtyOdd    int         `json:"cty_odd,omitempty"`    // 1 []byte, 2 negative int, 3 float64, 4 bool
	EmptyLoc  bool        `json:"empty_loc,omitempty"`
	// OddCsig: the caller's unprotected map holds a countersignature parameter in a Go shape other than the
	// documented pointer forms: 1 Countersignature value under 11, 2 under 7, 3 []Countersignature under 11,
	// 4 under 7, 5 a nil *Countersignature under 11
	OddCsig int `json:"odd_csig,omitempty"`
	// ManyExtra: that many further private-use parameters in the base headers (even: unprotected, odd: protected)
	ManyExtra int `json:"many_extra,omitempty"`
}

func (c *c12SignCase) payload() cose.HashEnvelopePayload {
	p := c.Base.payload()
	switch c.CtyOdd {
	case 1:
		p.PreimageContentType = []byte("text/plain")
	case 2:
		p.PreimageContentType = -5
	case 3:
		p.PreimageContentType = 2.5
	case 4:
		p.PreimageContentType = true
	}
	return p
}

func checkC12Sign(c c12SignCase) error {
	b := &c.Base
	sg, err := libSigner(b.Key, false)
	if err != nil {
		return err
	}
	ver, err := libVerifier(b.Key, false)
	if err != nil {
		return err
	}
	p, u := applyEdits(b.Prot, b.Unprot, c.Edits)
	for i := 0; i < c.ManyExtra; i++ {
		e := rc.E(rc.Text(fmt.Sprintf("extra-%d", i)), rc.Int(int64(i)))
		if c.ManyExtra%2 == 0 {
			u = rc.Val{K: rc.KMap, M: append(append([]rc.KV{}, u.M...), e)}
		} else {
			p = rc.Val{K: rc.KMap, M: append(append([]rc.KV{}, p.M...), e)}
		}
	}
	if c.ManyExtra > 0 {
		stats.Class("envelope-with-very-many-header-parameters")
	}
	h := bridge.Headers(p, u)
	if c.RawProt {
		h.RawProtected = protBstr(p)
	}
	switch c.RawUnprot {
	case 1:
		h.RawUnprotected = rc.Encode(u, nil)
	case 2:
		h.RawUnprotected = rc.Encode(u, nil)
		h.Unprotected = cose.UnprotectedHeader{}
	case 3:
		// the raw bytes of a decoded message dropped by truncation: empty, not nil - the map counts
		h.RawUnprotected = []byte{}
	case 4:
		h.RawUnprotected = rc.Encode(u, nil)
		h.Unprotected = nil
	}
	if c.OddCsig != 0 && c.RawUnprot != 2 && c.RawUnprot != 4 {
		cs := cose.Countersignature{Headers: cose.Headers{Protected: cose.ProtectedHeader{cose.HeaderLabelAlgorithm: cose.AlgorithmEdDSA}, Unprotected: cose.UnprotectedHeader{}}, Signature: []byte{1, 2, 3}}
		if h.Unprotected == nil {
			h.Unprotected = cose.UnprotectedHeader{}
		}
		delete(h.Unprotected, int64(7))
		delete(h.Unprotected, int64(11))
		h.RawUnprotected = nil
		switch c.OddCsig {
		case 1:
			h.Unprotected[int64(11)] = cs
		case 2:
			h.Unprotected[int64(7)] = cs
		case 3:
			h.Unprotected[int64(11)] = []cose.Countersignature{cs}
		case 4:
			h.Unprotected[int64(7)] = []cose.Countersignature{cs, cs}
		default:
			h.Unprotected[int64(11)] = (*cose.Countersignature)(nil)
		}
		stats.Class("caller-holds-a-countersignature-in-an-undocumented-go-shape")
	}
	before := bridge.Dump(h)
	pl := c.payload()
	plBefore := bridge.Dump(pl)
	out, err := cose.SignHashEnvelope(refcose.NewEntropy([]byte("c12")), sg, h, pl)
	if after := bridge.Dump(h); after != before {
		return finding("caller-headers-modified", "SignHashEnvelope modified the caller's headers\nbefore=%s\n after=%s", before, after)
	}
	if bridge.Dump(pl) != plBefore {
		return finding("caller-payload-modified", "SignHashEnvelope modified the caller's payload struct")
	}
	// the verdict does not depend on which Go integer type spells the labels of the base headers (those of
	// the governed parameters 258 / 259 / 260 included)
	if c.OddCsig == 0 && c.RawUnprot != 2 && c.RawUnprot != 4 && !hasDupLabels(p) && !hasDupLabels(u) {
		h2 := bridge.Headers(respellLabels(p), respellLabels(u))
		h2.RawProtected, h2.RawUnprotected = h.RawProtected, h.RawUnprotected
		_, err2 := cose.SignHashEnvelope(refcose.NewEntropy([]byte("c12")), sg, h2, c.payload())
		if (err == nil) != (err2 == nil) {
			return finding("verdict-depends-on-label-spelling", "SignHashEnvelope: with the base header labels as given: %v; with every integer label as int64: %v\nprotected=%s unprotected=%s", err, err2, p, u)
		}
		stats.Class("verdict-compared-across-label-spellings")
	}
	if err != nil {
		if len(out) != 0 {
			return finding("bytes-with-error", "SignHashEnvelope returned bytes together with %v", err)
		}
		stats.Class("sign-refused/" + shortErr(err))
		return nil
	}
	env, perr := refcose.ParseEnv(refcose.KSign1, out)
	if perr != nil {
		return finding("not-a-sign1", "SignHashEnvelope output is not a tagged COSE_Sign1: %v\n%x", perr, out)
	}
	if werr := refcose.WellFormed(refcose.KSign1, out); werr != nil {
		return finding("not-wellformed", "SignHashEnvelope output is ill-formed: %v\n%x", werr, out)
	}
	if rerr := refHashEnvelopeRules(env); rerr != nil {
		return finding("produced-nonconforming", "SignHashEnvelope produced an envelope violating the rules: %v\n%x", rerr, out)
	}
	if a, _ := env.ProtMap.Lookup(258).Int64(); a != b.HashAlg {
		return finding("wrong-hash-alg", "258 = %d, caller gave %d", a, b.HashAlg)
	}
	if got, _ := env.PayloadBytes(); !bytes.Equal(got, b.Hash) {
		return finding("wrong-payload", "payload %x is not the hash value %x", got, []byte(b.Hash))
	}
	switch b.CtyKind {
	case 1:
		if v := env.ProtMap.Lookup(259); v == nil || v.Major != 0 || v.Arg != b.CtyUint {
			return finding("cty-lost", "259 missing or wrong (want uint %d)\n%x", b.CtyUint, out)
		}
	case 2:
		if v := env.ProtMap.Lookup(259); v == nil || v.Major != 3 || string(v.Content) != b.CtyText {
			return finding("cty-lost", "259 missing or wrong (want %q)\n%x", b.CtyText, out)
		}
	}
	if b.Location != "" {
		if v := env.ProtMap.Lookup(260); v == nil || v.Major != 3 || string(v.Content) != b.Location {
			return finding("location-lost", "260 missing or wrong (want %q)\n%x", b.Location, out)
		}
	}
	if c.CtyOdd != 0 {
		return finding("accepted-bad-cty-type", "SignHashEnvelope accepted a preimage content type of Go type %T", pl.PreimageContentType)
	}
	// reference signature check and the library's own verification
	payload, _ := env.PayloadBytes()
	if !refcose.Verify(b.Key.Alg, b.Key.Public(), refcose.SigStructure1(env.ProtContent(), nil, payload), env.Sig.Content) {
		return finding("ref-verify", "reference verifier rejects the envelope signature\n%x", out)
	}
	msg, verr := cose.VerifyHashEnvelope(ver, out)
	if verr != nil {
		return finding("own-envelope-refused", "VerifyHashEnvelope refuses SignHashEnvelope's output: %v\n%x", verr, out)
	}
	if got, ok := msg.Headers.Protected[int64(258)].(cose.Algorithm); !ok || int64(got) != b.HashAlg {
		return finding("returned-hash-alg", "VerifyHashEnvelope returns 258 as %T(%v), want Algorithm(%d)", msg.Headers.Protected[int64(258)], msg.Headers.Protected[int64(258)], b.HashAlg)
	}
	if !bytes.Equal(msg.Payload, b.Hash) {
		return finding("returned-payload", "returned payload %x", msg.Payload)
	}
	switch b.CtyKind {
	case 1:
		if v, ok := msg.Headers.Protected[int64(259)].(int64); !ok || uint64(v) != b.CtyUint {
			return finding("returned-cty", "returned 259 = %T(%v), want %d", msg.Headers.Protected[int64(259)], msg.Headers.Protected[int64(259)], b.CtyUint)
		}
	case 2:
		if v, ok := msg.Headers.Protected[int64(259)].(string); !ok || v != b.CtyText {
			return finding("returned-cty", "returned 259 = %v, want %q", msg.Headers.Protected[int64(259)], b.CtyText)
		}
	}
	if b.Location != "" {
		if v, ok := msg.Headers.Protected[int64(260)].(string); !ok || v != b.Location {
			return finding("returned-location", "returned 260 = %v, want %q", msg.Headers.Protected[int64(260)], b.Location)
		}
	}
	// the headers returned by VerifyHashEnvelope are re-used as the base of another envelope (a relay
	// that re-signs under its own key): they are the caller's maps now and must stay untouched
	base2 := cose.Headers{Protected: msg.Headers.Protected, Unprotected: msg.Headers.Unprotected}
	delete(base2.Protected, int64(1))
	snap := bridge.Dump(base2)
	other := refcose.KeyMat{Alg: refcose.AlgES256, D: rc.Hex("c12-second-signer")}
	if b.Key.Alg == refcose.AlgES256 {
		other = refcose.KeyMat{Alg: refcose.AlgEdDSA, D: rc.Hex("c12-second-signer-seed-32-bytes!!")}
	}
	sg2, err := libSigner(other, false)
	if err != nil {
		return err
	}
	for round := 0; round < 2; round++ {
		out2, err2 := cose.SignHashEnvelope(refcose.NewEntropy([]byte("c12b")), sg2, base2, c.payload())
		if after := bridge.Dump(base2); after != snap {
			return finding("caller-headers-modified", "SignHashEnvelope modified headers that came from VerifyHashEnvelope and were re-used as base (round %d)\nbefore=%s\n after=%s", round, snap, after)
		}
		if err2 != nil {
			return finding("resign-refused", "re-signing the returned headers under another key fails (round %d): %v", round, err2)
		}
		ver2, _ := libVerifier(other, false)
		if _, err := cose.VerifyHashEnvelope(ver2, out2); err != nil {
			return finding("own-envelope-refused", "re-signed envelope refused: %v", err)
		}
		sg2, other = sg, b.Key // second round: back under the first key, same base maps
	}
	stats.Class("produced/re-signed-from-returned-headers")
	stats.Class("produced")
	if len(c.Edits) > 0 {
		stats.Class("produced-with-governed-labels-in-base")
	}
	if c.RawUnprot != 0 {
		stats.Class(fmt.Sprintf("produced/raw-unprotected-%d", c.RawUnprot))
	}
	if c.RawProt {
		stats.Class("produced/raw-protected-discarded")
	}
	return nil
}

func init() { register("c12sign", checkC12Sign) }

func TestC12_Sign(t *testing.T) {
	begin(t, "C12", "sign")
	prop(t, func(rt *rapid.T) {
		ho := constructedHdrOpts()
		ho.MaxEntries = 8
		ho.Val.NaN = false
		c := c12SignCase{Base: genHashCase(rt, ho)}
		a := refcose.AlgEdDSA
		if rapid.IntRange(0, 2).Draw(rt, "cheap") != 0 {
			c.Base.Key = gen.KeyMat(rt, a)
			if c.Base.Prot.Has(1) {
				c.Base.Prot = c.Base.Prot.With(rc.Int(1), rc.Int(a))
			}
		}
		c.Base.ViaKey = false
		c.Edits = genEdits(rt, true)
		// hash algorithm / length classes
		switch rapid.IntRange(0, 6).Draw(rt, "hashclass") {
		case 6:
			// identifiers of signature algorithms given as payload hash algorithm, with a digest as long as the hash
			// inside that signature algorithm: whatever is made of them, 258 carries the identifier that was given
			i := rapid.IntRange(0, 5).Draw(rt, "sigalg-as-hash")
			c.Base.HashAlg = []int64{-7, -35, -36, -37, -38, -39}[i]
			c.Base.Hash = gen.Blob(rt, "sighash", []int{32, 48, 64, 32, 48, 64}[i])
		case 0:
			c.Base.HashAlg = rapid.SampledFrom([]int64{-14, -15, -17, 0, 1, -100000, -7, -9223372036854775808, -9223372036854775807, 9223372036854775807, -45, -42}).Draw(rt, "unknown-hash")
			c.Base.Hash = gen.Blob(rt, "uhash", rapid.IntRange(0, 70).Draw(rt, "uhashlen"))
		case 1:
			// (also lengths that differ from the right one by a multiple of 2^13 octets = 2^16 bits, of 256 and of 2^16 octets)
			n := hashLen(c.Base.HashAlg) + rapid.SampledFrom([]int{-1, 1, -32, 16, 8192, 16384, 65536, 256, 512, 32, 8192 - 32}).Draw(rt, "lendelta")
			if n < 0 {
				n = 0
			}
			c.Base.Hash = gen.Blob(rt, "badhash", n)
		}
		if c.Base.Hash == nil {
			c.Base.Hash = rc.Hex{}
		}
		c.RawProt = rapid.IntRange(0, 4).Draw(rt, "rawprot") == 0
		c.RawUnprot = rapid.SampledFrom([]int{0, 0, 0, 1, 2, 3, 4}).Draw(rt, "rawunprot")
		if c.RawUnprot != 0 {
			// raw bytes are compared with reference encodings: keep spellings neutral
			c.Base.Unprot = respellAll(c.Base.Unprot)
		}
		if rapid.IntRange(0, 7).Draw(rt, "ctyodd") == 0 {
			c.CtyOdd = rapid.IntRange(1, 4).Draw(rt, "ctyodd-kind")
		}
		if rapid.IntRange(0, 9).Draw(rt, "oddcsig") == 0 {
			c.OddCsig = rapid.IntRange(1, 5).Draw(rt, "oddcsig-kind")
		}
		if rapid.IntRange(0, 19).Draw(rt, "many-extra") == 0 {
			c.ManyExtra = rapid.SampledFrom([]int{64, 65, 256, 257, 1000, 1001}).Draw(rt, "many-extra-n")
		}
		stats.Eval()
		if len(c.Edits) > 0 || c.Base.CtyKind != 0 || c.Base.Location != "" || c.CtyOdd != 0 {
			stats.NTBytes([]byte(fmt.Sprintf("%+v", c)))
			if len(c.Edits) <= 1 {
				stats.Sample("sign", map[string]any{"hash_alg": c.Base.HashAlg, "hash_len": len(c.Base.Hash), "edits": c.Edits, "cty_kind": c.Base.CtyKind, "location": c.Base.Location, "raw_unprotected": c.RawUnprot})
			}
		}
		judge(rt, "c12sign", c, checkC12Sign)
	})
}

// respellLabels: every integer label of the map as int64 (values untouched).
func respellLabels(v rc.Val) rc.Val {
	o := v.Clone()
	for i := range o.M {
		if o.M[i].K.K == rc.KInt {
			o.M[i].K.Sp = 0
		}
	}
	return o
}

func respellAll(v rc.Val) rc.Val {
	o := v.Clone()
	o.Sp = 0
	for i := range o.M {
		o.M[i].K = respellAll(o.M[i].K)
		o.M[i].V = respellAll(o.M[i].V)
	}
	for i := range o.A {
		o.A[i] = respellAll(o.A[i])
	}
	return o
}

// ---------------------------------------------------------------------------
// consumer side

type c12VerifyCase struct {
	Key     refcose.KeyMat `json:"key"`
	Prot    rc.Val         `json:"prot"`
	Unprot  rc.Val         `json:"unprot"`
	Hash    rc.Hex         `json:"hash"`
	Edits   []hdrEdit      `json:"edits,omitempty"`
	BadSig  bool           `json:"bad_sig,omitempty"`
	Untag   bool           `json:"untag,omitempty"`
	Ext     bool           `json:"ext,omitempty"`      // signed over non-empty external data (VerifyHashEnvelope supplies none)
	RevProt bool           `json:"rev_prot,omitempty"` // the peer encoded the protected map in reverse (non-deterministic) key order
	Entropy rc.Hex         `json:"entropy"`
}

// c12Envelope builds the reference-signed envelope of a consumer-side case.
func c12Envelope(c *c12VerifyCase) []byte {
	p, u := applyEdits(c.Prot, c.Unprot, c.Edits)
	content := []byte{}
	if len(p.M) > 0 {
		content = rc.Encode(p, nil)
		if c.RevProt {
			content = rc.Encode(p, revChooser{})
		}
	}
	var ext []byte
	if c.Ext {
		ext = []byte("external")
	}
	sig := refcose.Sign(c.Key.Alg, c.Key, refcose.SigStructure1(content, ext, c.Hash), c.Entropy)
	if c.BadSig {
		sig[0] ^= 1
	}
	w := []byte{0xd2, 0x84}
	if c.Untag {
		w = []byte{0x84}
	}
	w = append(w, rc.Encode(rc.Bytes(content), nil)...)
	w = append(w, rc.Encode(u, nil)...)
	w = append(w, rc.Encode(rc.Bytes(c.Hash), nil)...)
	return append(w, rc.Encode(rc.Bytes(sig), nil)...)
}

func checkC12Verify(c c12VerifyCase) error {
	w := c12Envelope(&c)
	ver, err := libVerifier(c.Key, false)
	if err != nil {
		return err
	}
	msg, verr := cose.VerifyHashEnvelope(ver, append([]byte{}, w...))
	env, perr := refcose.ParseEnv(refcose.KSign1, w)
	var rules error
	if perr != nil {
		rules = perr
	} else {
		rules = refHashEnvelopeRules(env)
	}
	sigOK := perr == nil && !c.BadSig && !c.Ext
	if verr == nil {
		if msg == nil {
			return finding("nil-message", "VerifyHashEnvelope returned (nil, nil)")
		}
		if rules != nil {
			return finding("accepted-nonconforming", "VerifyHashEnvelope returns a message for an envelope violating the rules: %v\nenvelope=%x", rules, w)
		}
		if !sigOK {
			return finding("accepted-bad-signature", "VerifyHashEnvelope returns a message although the signature does not verify\nenvelope=%x", w)
		}
		if werr := refcose.WellFormed(refcose.KSign1, w); werr != nil {
			return finding("accepted-illformed", "%v\nenvelope=%x", werr, w)
		}
		a, _ := env.ProtMap.Lookup(258).Int64()
		if got, ok := msg.Headers.Protected[int64(258)].(cose.Algorithm); !ok || int64(got) != a {
			return finding("returned-hash-alg", "returned 258 = %T(%v), wire has %d", msg.Headers.Protected[int64(258)], msg.Headers.Protected[int64(258)], a)
		}
		if !bytes.Equal(msg.Payload, c.Hash) {
			return finding("returned-payload", "returned payload differs from the envelope's")
		}
		if c.RevProt {
			stats.Class("accepted/protected-not-deterministic")
		}
		stats.Class("accepted")
	} else {
		if msg != nil {
			return finding("message-with-error", "VerifyHashEnvelope returned a message together with %v", verr)
		}
		if rules == nil && sigOK {
			stats.Class("conforming-but-refused/" + shortErr(verr))
		} else {
			stats.Class("refused")
			if rules != nil {
				stats.Class("refused/rule-violation")
			}
		}
	}
	return nil
}

func init() { register("c12verify", checkC12Verify) }

func TestC12_Verify(t *testing.T) {
	begin(t, "C12", "verify")
	prop(t, func(rt *rapid.T) {
		c := genC12VerifyCase(rt)
		stats.Eval()
		if len(c.Edits) > 0 {
			stats.NTBytes([]byte(fmt.Sprintf("%+v", c)))
			if len(c.Edits) == 1 {
				stats.Sample("verify", map[string]any{"edits": c.Edits, "hash_len": len(c.Hash), "prot": c.Prot.String()})
			}
		}
		judge(rt, "c12verify", c, checkC12Verify)
	})
}

func genC12VerifyCase(rt *rapid.T) c12VerifyCase {
	{
		ho := peerHdrOpts()
		ho.MaxEntries = 6
		ho.NoCty = true
		ho.Val.NaN = false
		alg := rapid.SampledFrom([]int64{refcose.AlgEdDSA, refcose.AlgEdDSA, refcose.AlgES256, refcose.AlgPS256}).Draw(rt, "alg")
		ho.Alg = &alg
		c := c12VerifyCase{Key: gen.KeyMat(rt, alg), Entropy: rapid.SliceOfN(rapid.Byte(), 4, 4).Draw(rt, "entropy")}
		c.Prot, c.Unprot = gen.Headers(rt, ho)
		hashAlg := rapid.SampledFrom([]int64{-16, -43, -44, -16, -15, -9223372036854775808, 9223372036854775807, -45}).Draw(rt, "hashalg")
		n := hashLen(hashAlg)
		if n < 0 {
			n = rapid.IntRange(0, 70).Draw(rt, "free-len")
		}
		if rapid.IntRange(0, 4).Draw(rt, "badlen") == 0 {
			n = rapid.SampledFrom([]int{0, 31, 32, 33, 47, 48, 49, 63, 64, 65, 8192, 8224, 8240, 8256, 16416, 65568, 65584, 65600, 288, 304, 320}).Draw(rt, "len")
		}
		c.Hash = gen.Blob(rt, "hash", n)
		if c.Hash == nil {
			c.Hash = rc.Hex{}
		}
		// a conforming envelope first, then the governed labels are moved / added / removed / retyped
		if rapid.IntRange(0, 9).Draw(rt, "omit-258") != 0 {
			c.Prot = c.Prot.With(rc.Int(258), rc.Int(hashAlg))
		}
		if rapid.Bool().Draw(rt, "with-259") {
			c.Prot = c.Prot.With(rc.Int(259), rapid.SampledFrom([]rc.Val{rc.Int(50), rc.Text("text/plain")}).Draw(rt, "259"))
		}
		if rapid.Bool().Draw(rt, "with-260") {
			c.Prot = c.Prot.With(rc.Int(260), rc.Text("https://x.example/y"))
		}
		c.Edits = genEdits(rt, false)
		c.BadSig = rapid.IntRange(0, 9).Draw(rt, "badsig") == 0
		c.Untag = rapid.IntRange(0, 19).Draw(rt, "untag") == 0
		c.Ext = rapid.IntRange(0, 19).Draw(rt, "ext") == 0
		c.RevProt = rapid.IntRange(0, 3).Draw(rt, "rev-prot") == 0
		return c
	}
}

// ---------------------------------------------------------------------------
// byte-level consumer side: the two header buckets and the payload are raw
// bytes (fuzzer-controlled), the signature is always a valid reference
// signature over them, so that every input reaches the envelope rules.

type c12RawCase struct {
	ProtContent rc.Hex `json:"prot_content"` // content of the protected bstr (any bytes)
	Unprot      rc.Hex `json:"unprot"`       // the unprotected item (any bytes)
	Hash        rc.Hex `json:"hash"`
}

var c12RawKey = refcose.KeyMat{Alg: refcose.AlgEdDSA, D: rc.Hex("c12-raw-ed25519-seed-of-32-bytes")}

func checkC12Raw(c c12RawCase) error {
	sig := refcose.Sign(c12RawKey.Alg, c12RawKey, refcose.SigStructure1(c.ProtContent, nil, c.Hash), nil)
	w := []byte{0xd2, 0x84}
	w = append(w, rc.Encode(rc.Bytes(c.ProtContent), nil)...)
	w = append(w, c.Unprot...)
	w = append(w, rc.Encode(rc.Bytes(c.Hash), nil)...)
	w = append(w, rc.Encode(rc.Bytes(sig), nil)...)
	ver, err := libVerifier(c12RawKey, false)
	if err != nil {
		return err
	}
	msg, verr := cose.VerifyHashEnvelope(ver, append([]byte{}, w...))
	if verr != nil {
		if msg != nil {
			return finding("message-with-error", "VerifyHashEnvelope returned a message together with %v", verr)
		}
		stats.Class("raw/refused")
		return nil
	}
	if msg == nil {
		return finding("nil-message", "VerifyHashEnvelope returned (nil, nil)")
	}
	env, perr := refcose.ParseEnv(refcose.KSign1, w)
	if perr != nil {
		return finding("accepted-illformed", "VerifyHashEnvelope accepts bytes the reference cannot parse as a COSE_Sign1: %v\nenvelope=%x", perr, w)
	}
	if werr := refcose.WellFormed(refcose.KSign1, w); werr != nil {
		if ie, ok := werr.(*refcose.IllFormed); ok {
			return finding("accepted-illformed/"+ie.Base(), "%v\nenvelope=%x", werr, w)
		}
		return finding("accepted-illformed", "%v\nenvelope=%x", werr, w)
	}
	if rules := refHashEnvelopeRules(env); rules != nil {
		return finding("accepted-nonconforming", "VerifyHashEnvelope returns a message for an envelope violating the rules: %v\nenvelope=%x", rules, w)
	}
	a, _ := env.ProtMap.Lookup(258).Int64()
	if got, ok := msg.Headers.Protected[int64(258)].(cose.Algorithm); !ok || int64(got) != a {
		return finding("returned-hash-alg", "returned 258 = %T(%v), wire has %d", msg.Headers.Protected[int64(258)], msg.Headers.Protected[int64(258)], a)
	}
	if !bytes.Equal(msg.Payload, c.Hash) {
		return finding("returned-payload", "returned payload differs from the envelope's")
	}
	stats.Class("raw/accepted")
	return nil
}

func init() { register("c12raw", checkC12Raw) }

// FuzzC12 is the native coverage-guided target of the consumer side.
func FuzzC12(f *testing.F) {
	cur = propCtx{Property: "C12", Part: "fuzz"}
	if os.Getenv("VERIF_FUZZ_NOSEEDS") == "" {
		g := rapid.Custom(func(t *rapid.T) c12VerifyCase { return genC12VerifyCase(t) })
		for i := 1; i <= 24; i++ {
			e := g.Example(i)
			p, u := applyEdits(e.Prot, e.Unprot, e.Edits)
			content := []byte{}
			if len(p.M) > 0 {
				content = rc.Encode(p, nil)
			}
			f.Add(content, rc.Encode(u, nil), []byte(e.Hash))
		}
		f.Add([]byte{0xa2, 0x01, 0x27, 0x19, 0x01, 0x02, 0x2f}, []byte{0xa0}, make([]byte, 32))
	}
	f.Fuzz(func(t *testing.T, prot, unprot, hash []byte) {
		if len(prot) > 1<<12 || len(unprot) > 1<<12 || len(hash) > 1<<10 {
			return
		}
		stats.Eval()
		judge(t, "c12raw", c12RawCase{ProtContent: prot, Unprot: unprot, Hash: hash}, checkC12Raw)
	})
}
