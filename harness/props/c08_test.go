package props

import (
	"bytes"
	"crypto/sha512"
	"encoding/json"
	"fmt"
	"github.com/fxamacker/cbor/v2"
	"sort"
	"sync"
	"testing"

	cose "github.com/veraison/go-cose"
	"pgregory.net/rapid"

	"verifharness/bridge"
	"verifharness/gen"
	rc "verifharness/refcbor"
	"verifharness/refcose"
	"verifharness/stats"
)

// dummySig is the "signature" used where bytes must be predictable: a
// function of the bytes to be signed, with a length that varies over the CBOR
// head boundaries.
func dummySig(tbs []byte) []byte {
	h := sha512.Sum512(tbs)
	n := []int{1, 23, 24, 32, 64, 132, 255, 256, 300}[int(h[0])%9]
	out := make([]byte, n)
	for i := range out {
		out[i] = h[(i+1)%64] ^ byte(i)
	}
	return out
}

// conRun is one execution of "build in memory, sign with spies, encode".
type conRun struct {
	spec   *gen.MsgSpec
	m      *libMsg
	mu     sync.Mutex
	libTBS map[string][]byte // where -> bytes handed to the signer by the library
	refTBS map[string][]byte // where -> reference structure
	out    []byte            // library encoding
	want   []byte            // reference deterministic encoding
	skip   string            // non-empty: signing/encoding refused (not judged here)
	spies  []*bridge.SpySigner
	vspies []*bridge.SpyVerifier
}

// corrupted reports whether the bytes handed to some key changed while the
// key was still using them.
func (r *conRun) corrupted() bool {
	for _, s := range r.spies {
		if s.Corrupted {
			return true
		}
	}
	for _, v := range r.vspies {
		if v.Corrupted {
			return true
		}
	}
	return false
}

func (r *conRun) factory(km refcose.KeyMat, where string) (cose.Signer, cose.Verifier, error) {
	s := &bridge.SpySigner{Alg: cose.Algorithm(km.Alg), Reenter: reenterLibrary, Inner: func(tbs []byte) []byte {
		r.mu.Lock()
		r.libTBS[where] = append([]byte{}, tbs...)
		r.mu.Unlock()
		return dummySig(tbs)
	}}
	r.spies = append(r.spies, s)
	v := &bridge.SpyVerifier{Alg: cose.Algorithm(km.Alg), Reenter: reenterLibrary, Fn: func(c, sig []byte) error {
		if !bytes.Equal(sig, dummySig(c)) {
			return cose.ErrVerification
		}
		return nil
	}}
	r.vspies = append(r.vspies, v)
	return s, v, nil
}

// runConstructed builds spec in memory (reversed=true inserts map entries in
// reverse order), signs every layer with spy signers, attaches the
// countersignatures and encodes.
func runConstructed(spec *gen.MsgSpec, reversed bool) (*conRun, error) {
	r := &conRun{spec: spec, libTBS: map[string][]byte{}, refTBS: map[string][]byte{}}
	sp := spec
	if reversed {
		rs := reverseSpec(spec)
		sp = &rs
	}
	m := constructLib(sp)
	r.m = m
	var ss []cose.Signer
	var vs []cose.Verifier
	for i, s := range sp.Sigs {
		where := "msg"
		if sp.Kind == refcose.KSign {
			where = fmt.Sprintf("sig[%d]", i)
		}
		sg, v, _ := r.factory(s.Key, where)
		ss = append(ss, sg)
		vs = append(vs, v)
	}
	ext := sp.Ext()
	if err := m.sign(ext, ss...); err != nil {
		r.skip = "sign: " + err.Error()
		return r, nil
	}
	if err := m.verify(ext, vs...); err != nil {
		return nil, finding("spy-verify", "spy verifier rejects what the spy signer signed: %v", err)
	}
	if m.sm == nil {
		// a verification attempt with OTHER external data (none, if the message was signed with some): whether it is
		// refused or reaches the key, the key sees the structure over the protected bytes the message emits, and the
		// message is what it was afterwards
		probeExt := []byte("other external data")
		if len(ext) > 0 {
			probeExt = nil
		}
		protBefore, perr := m.headers().MarshalProtected()
		dumpBefore := bridge.Dump(*m.headers())
		probe := &bridge.SpyVerifier{Alg: cose.Algorithm(sp.Sigs[0].Key.Alg)}
		_ = m.verify(probeExt, probe)
		if perr == nil && probe.NCalls() > 0 {
			if pn, e := rc.Parse(protBefore); e == nil {
				want := refcose.SigStructure1(pn.Content, probeExt, *m.payload())
				if !bytes.Equal(probe.Last().Content, want) {
					return nil, finding("tbs-mismatch/other-external", "Verify with other external data handed the verifier a structure that is not the Sig_structure over the message's protected bytes\n got=%x\nwant=%x", probe.Last().Content, want)
				}
			}
		}
		if after := bridge.Dump(*m.headers()); after != dumpBefore {
			return nil, finding("verify-changed-the-message", "a Verify call with other external data changed the message's headers\nbefore=%s\n after=%s", dumpBefore, after)
		}
	}
	if m.headers().Unprotected == nil {
		m.headers().Unprotected = cose.UnprotectedHeader{}
	}
	if err := attachGroups(m.headers().Unprotected, sp.Groups, m.parent, "msg", r.factory); err != nil {
		if err == errSkip {
			r.skip = "countersign refused"
			return r, nil
		}
		return nil, err
	}
	if m.sm != nil {
		for i, s := range sp.Sigs {
			sig := m.sm.Signatures[i]
			if sig.Headers.Unprotected == nil {
				sig.Headers.Unprotected = cose.UnprotectedHeader{}
			}
			if err := attachGroups(sig.Headers.Unprotected, s.Groups, func(ptr bool) any {
				if ptr {
					return sig
				}
				return *sig
			}, fmt.Sprintf("sig[%d]", i), r.factory); err != nil {
				if err == errSkip {
					r.skip = "countersign refused"
					return r, nil
				}
				return nil, err
			}
		}
	}
	if len(sp.Payload)%3 == 1 {
		// raw header fields that are empty but not nil (what a deep copy made with append(RawMessage{}, src...)
		// or Raw = Raw[:0] leaves behind) are "not set", exactly like nil ones
		hs := []*cose.Headers{m.headers()}
		if m.sm != nil {
			for _, sg := range m.sm.Signatures {
				hs = append(hs, &sg.Headers)
			}
		}
		for _, h := range hs {
			if h.RawProtected == nil {
				h.RawProtected = cbor.RawMessage{}
			}
			if h.RawUnprotected == nil {
				h.RawUnprotected = cbor.RawMessage{}
			}
		}
		stats.Class("empty-non-nil-raw-fields")
	}
	if sp.Detached {
		*m.payload() = nil
	}
	out, err := m.marshal()
	if err != nil {
		r.skip = "marshal: " + err.Error()
		return r, nil
	}
	r.out = out
	// reference: deterministic encoding of the same abstract message with the
	// same (dummy) signatures
	b := &gen.Builder{
		SignFn: func(_ refcose.KeyMat, tbs []byte, _ string) []byte { return dummySig(tbs) },
		OnTBS:  func(where string, tbs []byte) { r.refTBS[where] = tbs },
	}
	r.want = b.Build(spec).Wire
	return r, nil
}

func reverseVal(v rc.Val) rc.Val {
	o := v.Clone()
	if o.K == rc.KMap {
		for i, j := 0, len(o.M)-1; i < j; i, j = i+1, j-1 {
			o.M[i], o.M[j] = o.M[j], o.M[i]
		}
	}
	for i := range o.M {
		o.M[i].V = reverseVal(o.M[i].V)
	}
	for i := range o.A {
		o.A[i] = reverseVal(o.A[i])
	}
	return o
}

func reverseGroups(gs []gen.CsigGroup) []gen.CsigGroup {
	var out []gen.CsigGroup
	for _, g := range gs {
		ng := g
		ng.Items = nil
		for _, c := range g.Items {
			nc := c
			nc.Prot, nc.Unprot = reverseVal(c.Prot), reverseVal(c.Unprot)
			nc.Groups = reverseGroups(c.Groups)
			ng.Items = append(ng.Items, nc)
		}
		out = append(out, ng)
	}
	return out
}

// reverseSpec returns the same logical message with every map's entries in
// reverse insertion order.
func reverseSpec(m *gen.MsgSpec) gen.MsgSpec {
	o := *m
	o.Prot, o.Unprot = reverseVal(m.Prot), reverseVal(m.Unprot)
	o.Groups = reverseGroups(m.Groups)
	o.Sigs = nil
	for _, s := range m.Sigs {
		ns := s
		ns.Prot, ns.Unprot = reverseVal(s.Prot), reverseVal(s.Unprot)
		ns.Groups = reverseGroups(s.Groups)
		o.Sigs = append(o.Sigs, ns)
	}
	return o
}

// protectedContents returns the content of every protected-header byte string
// of a message (all layers, including nested countersignatures).
func protectedContents(kind refcose.Kind, wire []byte) ([][]byte, error) {
	env, err := refcose.ParseEnv(kind, wire)
	if err != nil {
		return nil, err
	}
	var out [][]byte
	var walkLayer func(e *refcose.Env) error
	walkLayer = func(e *refcose.Env) error {
		out = append(out, e.ProtContent())
		for _, l := range []int64{7, 11} {
			v := e.Unprot.Lookup(l)
			if v == nil || v.Major != 4 {
				continue
			}
			items := v.Items
			if len(v.Items) == 3 && v.Items[0].Major == 2 {
				items = []*rc.Node{v}
			}
			for _, it := range items {
				ce, err := refcose.ParseEnv(refcose.KSignature, it.Raw())
				if err != nil {
					return err
				}
				if err := walkLayer(ce); err != nil {
					return err
				}
			}
		}
		for _, s := range e.Sigs {
			if err := walkLayer(s); err != nil {
				return err
			}
		}
		return nil
	}
	if err := walkLayer(env); err != nil {
		return nil, err
	}
	return out, nil
}

type c08Case struct {
	Spec gen.MsgSpec `json:"spec"`
}

// checkC08: encoding is a pure function of the logical value (equal to the
// reference deterministic encoding, stable across repetitions and insertion
// orders), canonical, consistent with what was signed, and closed under the
// decoder.
// outTracker remembers byte strings exactly as an encoder returned them (the
// slices themselves, not copies) next to a private copy: bytes handed to the
// caller belong to the caller, so they must still read the same after the
// library has encoded any number of other things.
type outTracker struct {
	names []string
	outs  [][]byte
	want  [][]byte
}

func (o *outTracker) keep(name string, out []byte) {
	o.names = append(o.names, name)
	o.outs = append(o.outs, out)
	o.want = append(o.want, append([]byte{}, out...))
}

var churnKey = func() *cose.Key {
	k := cose.NewKeySymmetric([]byte("0123456789abcdef0123456789abcdef"))
	k.ID = []byte("churn")
	return k
}()

// check encodes a few unrelated values of every kind and then compares.
func (o *outTracker) check() error {
	for i := 0; i < 3; i++ {
		cose.ProtectedHeader{int64(1): cose.AlgorithmES256, int64(4): []byte("churn-churn-churn-churn-churn-churn-churn-churn-churn-churn-churn")}.MarshalCBOR()
		cose.UnprotectedHeader{int64(4): []byte("CHURN-CHURN-CHURN-CHURN-CHURN-CHURN-CHURN-CHURN-CHURN-CHURN-CHURN"), "churn": int64(i)}.MarshalCBOR()
		m := cose.Sign1Message{Headers: cose.Headers{Protected: cose.ProtectedHeader{int64(1): cose.AlgorithmEdDSA}, Unprotected: cose.UnprotectedHeader{int64(4): []byte("churn")}}, Payload: bytes.Repeat([]byte{0xcc}, 90), Signature: bytes.Repeat([]byte{0xdd}, 64)}
		m.MarshalCBOR()
		(&cose.SignMessage{Headers: m.Headers, Payload: m.Payload, Signatures: []*cose.Signature{{Headers: m.Headers, Signature: m.Signature}}}).MarshalCBOR()
		churnKey.MarshalCBOR()
	}
	for i, out := range o.outs {
		if !bytes.Equal(out, o.want[i]) {
			return finding("output-overwritten-later", "bytes returned by %s changed after the library encoded other values\nreturned=%x\n     now=%x", o.names[i], o.want[i], out)
		}
	}
	if len(o.outs) > 0 {
		stats.Class("returned-bytes-rechecked-after-other-encodings")
	}
	return nil
}

func checkC08(c c08Case) error {
	r, err := runConstructed(&c.Spec, false)
	if err != nil {
		return err
	}
	if r.skip != "" {
		stats.Class("refused/" + shortErr(fmt.Errorf("%s", r.skip)))
		return nil
	}
	kind := c.Spec.Kind
	// (a) equals the reference deterministic encoding
	if !bytes.Equal(r.out, r.want) {
		return finding("not-reference-encoding", "encoder output differs from the deterministic reference encoding\n got=%x\nwant=%x", r.out, r.want)
	}
	// repeated encodings of the same value
	var kept outTracker
	kept.keep(kind.String()+".MarshalCBOR", r.out)
	for i := 0; i < 7; i++ {
		again, err := r.m.marshal()
		if err != nil || !bytes.Equal(again, r.out) {
			return finding("unstable", "repeated MarshalCBOR differs (err=%v)\n first=%x\n again=%x", err, r.out, again)
		}
		kept.keep(kind.String()+".MarshalCBOR", again)
	}
	if p, err := r.m.headers().MarshalProtected(); err == nil {
		kept.keep("Headers.MarshalProtected", p)
	}
	if u, err := r.m.headers().MarshalUnprotected(); err == nil {
		kept.keep("Headers.MarshalUnprotected", u)
	}
	if err := kept.check(); err != nil {
		return err
	}
	// encoding is read-only, and a later change to the in-memory message shows in the next encoding
	snap := bridge.Dump(r.m.s1) + bridge.Dump(r.m.u1) + bridge.Dump(r.m.sm)
	if _, err := r.m.marshal(); err != nil || bridge.Dump(r.m.s1)+bridge.Dump(r.m.u1)+bridge.Dump(r.m.sm) != snap {
		return finding("encoding-modifies-message", "MarshalCBOR changed the in-memory message (err=%v)", err)
	}
	if r.m.headers().Unprotected == nil {
		r.m.headers().Unprotected = cose.UnprotectedHeader{}
	}
	if _, clash := r.m.headers().Unprotected["added-after-first-encoding"]; !clash {
		r.m.headers().Unprotected["added-after-first-encoding"] = int64(1)
		later, err := r.m.marshal()
		delete(r.m.headers().Unprotected, "added-after-first-encoding")
		if err != nil {
			return finding("stale-encoding", "encoding fails after adding an unprotected parameter: %v", err)
		}
		env2, err := refcose.ParseEnv(kind, later)
		if err != nil {
			return finding("unparseable", "%v", err)
		}
		found := false
		for _, k := range env2.Unprot.Keys {
			if k.Major == 3 && string(k.Content) == "added-after-first-encoding" {
				found = true
			}
		}
		if !found {
			return finding("stale-encoding", "a parameter added to Headers.Unprotected after the first MarshalCBOR is missing from the second encoding\nfirst =%x\nsecond=%x", r.out, later)
		}
	}
	// another insertion order of the same logical maps
	r2, err := runConstructed(&c.Spec, true)
	if err != nil {
		return err
	}
	if r2.skip != "" || !bytes.Equal(r2.out, r.out) {
		return finding("insertion-order", "encoding depends on map insertion order (skip=%q)\n a=%x\n b=%x", r2.skip, r.out, r2.out)
	}
	// (b) canonical features over the envelope and inside every protected bstr
	n, err := rc.Parse(r.out)
	if err != nil {
		return finding("unparseable", "reference parser rejects encoder output: %v\n%x", err, r.out)
	}
	if is := rc.DeterminismIssues(n); len(is) > 0 {
		return finding("non-canonical", "encoder output is not deterministic CBOR: %+v\n%x", is, r.out)
	}
	pcs, err := protectedContents(kind, r.out)
	if err != nil {
		return finding("unparseable", "cannot locate protected headers in encoder output: %v\n%x", err, r.out)
	}
	for _, pc := range pcs {
		if len(pc) == 0 {
			continue
		}
		pn, err := rc.Parse(pc)
		if err != nil {
			return finding("unparseable", "protected content: %v (%x)", err, pc)
		}
		if is := rc.DeterminismIssues(pn); len(is) > 0 {
			return finding("non-canonical", "protected header content is not deterministic CBOR: %+v\n%x", is, pc)
		}
	}
	// (c) protected bytes that were signed == protected bytes emitted
	env, _ := refcose.ParseEnv(kind, r.out)
	for where, tbs := range r.libTBS {
		tn, err := rc.Parse(tbs)
		if err != nil || tn.Major != 4 || len(tn.Items) < 4 {
			return finding("tbs-shape", "%s: ToBeSigned is not a CBOR array: %x", where, tbs)
		}
		if where == "msg" && kind != refcose.KSign {
			if !bytes.Equal(tn.Items[1].Content, env.ProtContent()) {
				return finding("signed-vs-emitted", "protected bytes signed (%x) differ from those emitted (%x)", tn.Items[1].Content, env.ProtContent())
			}
		}
		var i int
		if n, _ := fmt.Sscanf(where, "sig[%d]", &i); n == 1 && where == fmt.Sprintf("sig[%d]", i) {
			if !bytes.Equal(tn.Items[1].Content, env.ProtContent()) || !bytes.Equal(tn.Items[2].Content, env.Sigs[i].ProtContent()) {
				return finding("signed-vs-emitted", "%s: protected bytes signed differ from those emitted", where)
			}
		}
	}
	// (d) closure
	d, err := decodeLib(kind, r.out)
	if err != nil {
		return finding("closure-decode", "decoder rejects encoder output: %v\n%x", err, r.out)
	}
	re, err := d.marshal()
	if err != nil || !bytes.Equal(re, r.out) {
		return finding("closure-reencode", "decode+encode changed the bytes (err=%v)\n in=%x\nout=%x", err, r.out, re)
	}
	d.discardRaw()
	re2, err := d.marshal()
	if err != nil || !bytes.Equal(re2, r.out) {
		return finding("closure-reencode-parsed", "decode, discard raw bytes, encode changed the bytes (err=%v)\n in=%x\nout=%x", err, r.out, re2)
	}
	if c.Spec.Detached {
		if *d.payload() != nil {
			return finding("closure-payload", "nil payload decoded as non-nil")
		}
	} else if !bytes.Equal(*d.payload(), c.Spec.Payload) {
		return finding("closure-payload", "payload changed")
	}
	// statistics
	sj, _ := json.Marshal(c.Spec)
	if unsortedInsertion(&c.Spec) {
		stats.NTBytes(sj)
		stats.Class("insertion-order!=sorted-order")
		stats.Sample("unsorted/"+kind.String(), map[string]any{"kind": kind.String(), "wire": rc.Hex(r.out)})
	}
	stats.Class("encoded/" + kind.String())
	total := len(c.Spec.Prot.M) + len(c.Spec.Unprot.M)
	switch {
	case total >= 20:
		stats.Class("entries/>=20")
	case total >= 6:
		stats.Class("entries/6-19")
	default:
		stats.Class("entries/<6")
	}
	if n, _ := specCsigStats(&c.Spec); n > 0 {
		stats.Class("with-countersignatures")
	}
	if c.Spec.Inject || anyInject(&c.Spec) {
		stats.Class("alg-injected")
	}
	return nil
}

func anyInject(m *gen.MsgSpec) bool {
	for _, s := range m.Sigs {
		if s.Inject {
			return true
		}
	}
	return false
}

// unsortedInsertion reports whether some map of the spec has >= 2 keys whose
// insertion order differs from the bytewise sorted order.
func unsortedInsertion(m *gen.MsgSpec) bool {
	chk := func(v rc.Val) bool {
		if v.K != rc.KMap || len(v.M) < 2 {
			return false
		}
		ks := make([]string, len(v.M))
		for i, e := range v.M {
			ks[i] = string(rc.Encode(e.K, nil))
		}
		return !sort.StringsAreSorted(ks)
	}
	if chk(m.Prot) || chk(m.Unprot) {
		return true
	}
	for _, s := range m.Sigs {
		if chk(s.Prot) || chk(s.Unprot) {
			return true
		}
	}
	return false
}

func init() { register("c08", checkC08) }

func c08Opts() gen.MsgOpts {
	o := gen.MsgOpts{MaxSigners: 4, Csigs: true, Hdr: constructedHdrOpts(), HugeLens: true, Inject: true}
	o.Hdr.Val.NaN = false // NaN/Inf are re-encoded as float16 by the CBOR library (documented exclusion)
	a := refcose.AlgEdDSA
	o.FixedAlg = &a // signatures are spy-made; keys are irrelevant here
	return o
}

func TestC08_Messages(t *testing.T) {
	begin(t, "C08", "messages")
	prop(t, func(rt *rapid.T) {
		c := c08Case{Spec: gen.Msg(rt, c08Opts())}
		stats.Eval()
		judge(rt, "c08", c, checkC08)
	})
}

// ---------------------------------------------------------------------------
// header buckets on their own

type c08HdrCase struct {
	Prot   rc.Val `json:"prot"`
	Unprot rc.Val `json:"unprot"`
}

func checkC08Headers(c c08HdrCase) error {
	if hasDupLabels(c.Prot) || hasDupLabels(c.Unprot) {
		// one label spelt with two Go integer types: must never be encodable (the output would hold a duplicate key)
		if hasDupLabels(c.Prot) {
			if out, err := bridge.ToProtected(c.Prot).MarshalCBOR(); err == nil {
				return finding("duplicate-label-encoded", "ProtectedHeader with one label under two Go integer types is encoded: %x", out)
			}
		}
		if hasDupLabels(c.Unprot) {
			if out, err := bridge.ToUnprotected(c.Unprot, bridge.CsigParsed).MarshalCBOR(); err == nil {
				return finding("duplicate-label-encoded", "UnprotectedHeader with one label under two Go integer types is encoded: %x", out)
			}
		}
		stats.Class("duplicate-spelling-refused")
		return nil
	}
	for pass := 0; pass < 2; pass++ {
		p, u := c.Prot, c.Unprot
		if pass == 1 {
			p, u = reverseVal(p), reverseVal(u)
		}
		wantP := rc.Encode(rc.Bytes(nil), nil)
		if len(p.M) > 0 {
			wantP = rc.Encode(rc.Bytes(rc.Encode(p, nil)), nil)
		}
		wantU := rc.Encode(u, nil)
		var kept outTracker
		for i := 0; i < 4; i++ {
			gotP, err := bridge.ToProtected(p).MarshalCBOR()
			if err != nil {
				stats.Class("refused/" + shortErr(err))
				return nil
			}
			if !bytes.Equal(gotP, wantP) {
				return finding("not-reference-encoding", "ProtectedHeader.MarshalCBOR\n got=%x\nwant=%x", gotP, wantP)
			}
			gotU, err := bridge.ToUnprotected(u, bridge.CsigParsed).MarshalCBOR()
			if err != nil {
				stats.Class("refused/" + shortErr(err))
				return nil
			}
			if !bytes.Equal(gotU, wantU) {
				return finding("not-reference-encoding", "UnprotectedHeader.MarshalCBOR\n got=%x\nwant=%x", gotU, wantU)
			}
			kept.keep("ProtectedHeader.MarshalCBOR", gotP)
			kept.keep("UnprotectedHeader.MarshalCBOR", gotU)
		}
		if err := kept.check(); err != nil {
			return err
		}
		// closure; on the second pass the destinations have been used before (a caller that keeps one
		// header value and refills it message after message)
		var dp cose.ProtectedHeader
		var du cose.UnprotectedHeader
		if pass == 1 {
			dp = cose.ProtectedHeader{int64(1): cose.AlgorithmES256, "left-over": int64(1), int64(5): []byte{1, 2, 3}}
			du = cose.UnprotectedHeader{int64(4): []byte("left-over kid"), "left-over": int64(1)}
			stats.Class("closure-into-used-header-values")
			hh := cose.Headers{RawProtected: []byte{0x47, 0xa2, 0x01, 0x26, 0x05, 0x42, 0x01, 0x02}, RawUnprotected: []byte{0xa1, 0x04, 0x41, 0x09}}
			if err := hh.UnmarshalFromRaw(); err != nil {
				return fmt.Errorf("harness: %v", err)
			}
			hh.RawProtected, hh.RawUnprotected = wantP, wantU
			if err := hh.UnmarshalFromRaw(); err != nil {
				return finding("closure-decode", "Headers.UnmarshalFromRaw (into a Headers value that held another message's headers) rejects encoder output %x / %x: %v", wantP, wantU, err)
			}
			hh.RawProtected, hh.RawUnprotected = nil, nil
			reP, errP := hh.MarshalProtected()
			reU, errU := hh.MarshalUnprotected()
			if errP != nil || errU != nil || !bytes.Equal(reP, wantP) || !bytes.Equal(reU, wantU) {
				return finding("closure-reencode", "headers decoded by Headers.UnmarshalFromRaw into a used Headers value re-encode differently (err=%v / %v)\nprotected %x -> %x\nunprotected %x -> %x", errP, errU, wantP, reP, wantU, reU)
			}
		}
		if err := dp.UnmarshalCBOR(wantP); err != nil {
			return finding("closure-decode", "ProtectedHeader.UnmarshalCBOR rejects encoder output %x: %v", wantP, err)
		}
		if re, err := dp.MarshalCBOR(); err != nil || !bytes.Equal(re, wantP) {
			return finding("closure-reencode", "protected header changes on re-encoding (err=%v): %x -> %x", err, wantP, re)
		}
		if err := du.UnmarshalCBOR(wantU); err != nil {
			return finding("closure-decode", "UnprotectedHeader.UnmarshalCBOR rejects encoder output %x: %v", wantU, err)
		}
		if re, err := du.MarshalCBOR(); err != nil || !bytes.Equal(re, wantU) {
			return finding("closure-reencode", "unprotected header changes on re-encoding (err=%v): %x -> %x", err, wantU, re)
		}
	}
	stats.Class("header-buckets")
	chk := func(v rc.Val) bool {
		ks := make([]string, len(v.M))
		for i, e := range v.M {
			ks[i] = string(rc.Encode(e.K, nil))
		}
		return len(ks) >= 2 && !sort.StringsAreSorted(ks)
	}
	if chk(c.Prot) || chk(c.Unprot) {
		stats.NTBytes(rc.Encode(c.Prot, nil), rc.Encode(c.Unprot, nil))
	}
	return nil
}

func init() { register("c08hdr", checkC08Headers) }

func TestC08_Headers(t *testing.T) {
	begin(t, "C08", "headers")
	prop(t, func(rt *rapid.T) {
		o := constructedHdrOpts()
		o.Val.NaN = false
		if rapid.Bool().Draw(rt, "with-alg") {
			a := gen.Alg(rt)
			o.Alg = &a
		}
		p, u := gen.Headers(rt, o)
		if rapid.IntRange(0, 9).Draw(rt, "dup-spelling") == 0 {
			// the same integer label once more under another Go integer type
			tgt := &p
			if rapid.Bool().Draw(rt, "dup-in-unprotected") {
				tgt = &u
			}
			var ints []int
			for i, e := range tgt.M {
				if e.K.K == rc.KInt {
					ints = append(ints, i)
				}
			}
			if len(ints) > 0 {
				e := tgt.M[rapid.SampledFrom(ints).Draw(rt, "dup-entry")]
				li, _ := e.K.Int64()
				sp := uint8(rapid.IntRange(0, rc.NumSpellings-1).Draw(rt, "dup-sp"))
				if sp != e.K.Sp && (sp == rc.SpInt64 || bridge.SpellingFits(li, sp)) && (e.K.Sp == rc.SpInt64 || bridge.SpellingFits(li, e.K.Sp)) {
					tgt.M = append(tgt.M, rc.KV{K: rc.IntSp(li, sp), V: e.V})
				}
			}
		}
		stats.Eval()
		judge(rt, "c08hdr", c08HdrCase{p, u}, checkC08Headers)
	})
}

// ---------------------------------------------------------------------------
// COSE_Key encoding

type c08KeyCase struct {
	Spec     keySpec `json:"spec"`
	LabelSp  uint8   `json:"label_sp"` // Go spelling of the integer labels in Params
	Reversed bool    `json:"reversed"`
}

// libKey builds the in-memory cose.Key a caller would hold for the spec: EC2
// coordinates as big.Int.Bytes() gives them when Trim is set (that is what
// NewKeyFromPublic stores).
func (c *c08KeyCase) libKey() *cose.Key {
	if c.Spec.Kty == 4 && len(c.Spec.Extra) == 0 && c.LabelSp == rc.SpInt64 && len(c.Spec.SymK)%2 == 0 {
		// through the constructor (half of the plain symmetric keys)
		k := cose.NewKeySymmetric(append([]byte{}, c.Spec.SymK...))
		if c.Spec.Kid != nil {
			k.ID = append([]byte{}, c.Spec.Kid...)
		}
		if c.Spec.BaseIV != nil {
			k.BaseIV = append([]byte{}, c.Spec.BaseIV...)
		}
		if c.Spec.HasOps {
			k.Ops = []cose.KeyOp{}
			for _, o := range c.Spec.Ops {
				k.Ops = append(k.Ops, cose.KeyOp(o))
			}
		}
		stats.Class("key/symmetric-through-constructor")
		return k
	}
	k := &cose.Key{Type: cose.KeyType(c.Spec.Kty), Params: map[any]any{}}
	v := c.Spec.val()
	entries := v.M
	if c.Reversed {
		entries = reverseVal(v).M
	}
	for _, e := range entries {
		l, isInt := e.K.Int64()
		if isInt && l >= 1 && l <= 5 {
			continue // common parameters live in struct fields
		}
		var key any = bridge.ToGo(e.K)
		if isInt {
			key = bridge.ToGo(rc.IntSp(l, c.LabelSp))
			if l == -1 && (c.Spec.Kty == 1 || c.Spec.Kty == 2) {
				cv, _ := e.V.Int64()
				k.Params[key] = cose.Curve(cv)
				continue
			}
		}
		k.Params[key] = bridge.ToGo(e.V)
	}
	if c.Spec.Kid != nil {
		k.ID = append([]byte{}, c.Spec.Kid...)
	}
	if c.Spec.BaseIV != nil {
		k.BaseIV = append([]byte{}, c.Spec.BaseIV...)
	}
	if c.Spec.HasOps {
		k.Ops = []cose.KeyOp{}
		for _, o := range c.Spec.Ops {
			k.Ops = append(k.Ops, cose.KeyOp(o))
		}
	}
	if c.Spec.WithAlg && (c.Spec.Kty == 1 || c.Spec.Kty == 2) {
		k.Algorithm = cose.Algorithm(c.Spec.Mat.Alg)
	}
	return k
}

func checkC08Key(c c08KeyCase) error {
	full := c.Spec
	full.Trim = false
	want := rc.Encode(full.val(), nil)
	k := c.libKey()
	var first []byte
	var kept outTracker
	for i := 0; i < 6; i++ {
		got, err := k.MarshalCBOR()
		if err != nil {
			stats.Class("refused/" + shortErr(err))
			return nil
		}
		kept.keep("Key.MarshalCBOR", got)
		if i == 0 {
			first = got
		} else if !bytes.Equal(got, first) {
			return finding("unstable", "repeated Key.MarshalCBOR differs\n first=%x\n again=%x", first, got)
		}
	}
	if err := kept.check(); err != nil {
		return err
	}
	if !bytes.Equal(first, want) {
		return finding("not-reference-encoding", "Key.MarshalCBOR differs from the deterministic reference encoding\n got=%x\nwant=%x", first, want)
	}
	if is := rc.DeterminismIssues(mustParse(first)); len(is) > 0 {
		return finding("non-canonical", "%+v\n%x", is, first)
	}
	var k2 cose.Key
	if err := k2.UnmarshalCBOR(append([]byte{}, first...)); err != nil {
		return finding("closure-decode", "Key.UnmarshalCBOR rejects Key.MarshalCBOR output: %v\n%x", err, first)
	}
	if re, err := k2.MarshalCBOR(); err != nil || !bytes.Equal(re, first) {
		return finding("closure-reencode", "decoded key re-encodes differently (err=%v)\n in=%x\nout=%x", err, first, re)
	}
	// equivalent value
	if k2.Type != k.Type || k2.Algorithm != k.Algorithm || !bytes.Equal(k2.ID, k.ID) || !bytes.Equal(k2.BaseIV, k.BaseIV) ||
		(k2.ID == nil) != (k.ID == nil) || (k2.BaseIV == nil) != (k.BaseIV == nil) {
		return finding("closure-value", "common parameters changed: %+v -> %+v", *k, k2)
	}
	if (k.Ops == nil) != (k2.Ops == nil) || fmt.Sprint(k.Ops) != fmt.Sprint(k2.Ops) {
		return finding("closure-value/key-ops", "key_ops changed in the round trip: %#v -> %#v\n%x", k.Ops, k2.Ops, first)
	}
	_, se1 := k.Signer()
	_, se2 := k2.Signer()
	_, ve1 := k.Verifier()
	_, ve2 := k2.Verifier()
	if c.LabelSp != rc.SpInt64 && ((se1 == nil) != (se2 == nil) || (ve1 == nil) != (ve2 == nil)) {
		// observation, not judged: Key accessors look parameters up with int64 labels only, so an
		// in-memory key whose Params use another Go integer type cannot find its own x / y / d,
		// while its encoding (labels normalised) decodes to a working key
		stats.Class("observation/in-memory-key-with-non-int64-labels-less-capable-than-its-decoding")
	} else if (se1 == nil) != (se2 == nil) || (ve1 == nil) != (ve2 == nil) {
		return finding("closure-value/capabilities", "signer/verifier availability changed in the round trip: signer %v -> %v, verifier %v -> %v\n%x", se1, se2, ve1, ve2, first)
	}
	stats.Class("encoded/Key")
	stats.Class(fmt.Sprintf("key/kty=%d", c.Spec.Kty))
	if c.Spec.HasOps && len(c.Spec.Ops) == 0 {
		stats.Class("key/empty-ops")
	}
	if c.Spec.Trim {
		stats.Class("key/short-coordinates-in-memory")
	}
	if c.Spec.TrimD && c.Spec.Kty == 2 && (c.Spec.Private || c.Spec.Shape == 1) {
		stats.Class("key/short-private-scalar-in-memory")
	}
	stats.NTBytes(first, []byte{c.LabelSp})
	if len(first) < 150 {
		stats.Sample(fmt.Sprintf("key/kty=%d", c.Spec.Kty), map[string]any{"wire": rc.Hex(first), "label_spelling": c.LabelSp})
	}
	return nil
}

func init() { register("c08key", checkC08Key) }

func TestC08_Keys(t *testing.T) {
	begin(t, "C08", "keys")
	prop(t, func(rt *rapid.T) {
		c := c08KeyCase{Spec: genKeySpec(rt), Reversed: rapid.Bool().Draw(rt, "reversed")}
		sp := uint8(rapid.IntRange(0, 4).Draw(rt, "label-sp")) // signed spellings fit the negative key labels
		c.LabelSp = sp
		if sp != rc.SpInt64 && c.Spec.Trim {
			// Key.MarshalCBOR re-pads x / y only when it finds them under int64 labels (its accessors do
			// not normalise Go integer types); keys converted from Go keys always use int64 labels, so
			// short coordinates under other label types are outside the model (C14 is about conversion)
			c.Spec.Trim = false
			stats.Excluded("short coordinates under non-int64 Params labels")
		}
		// extra parameter values must stay inside the data model of bytes comparison (no NaN)
		stats.Eval()
		judge(rt, "c08key", c, checkC08Key)
	})
}

// TestC08_EnvelopeHelper: SignHashEnvelope is a Sign helper like Sign1: what it returns is well-formed, deterministic
// where the library generated it, and accepted by the corresponding decoder (VerifyHashEnvelope under the matching
// key) - also when the caller's Headers still carry raw bytes of an earlier message. The cases and the oracle are
// those of C12's producer side; only the findings about the returned bytes are C08's.
func TestC08_EnvelopeHelper(t *testing.T) {
	begin(t, "C08", "envelopehelper")
	prop(t, func(rt *rapid.T) {
		ho := constructedHdrOpts()
		ho.MaxEntries = 6
		ho.Val.NaN = false
		c := c12SignCase{Base: genHashCase(rt, ho)}
		c.Base.ViaKey = false
		c.RawProt = rapid.Bool().Draw(rt, "rawprot")
		c.RawUnprot = rapid.SampledFrom([]int{0, 0, 1}).Draw(rt, "rawunprot")
		if c.RawUnprot != 0 {
			c.Base.Unprot = respellAll(c.Base.Unprot)
		}
		stats.Eval()
		stats.Class("envelope-helper")
		if c.RawProt {
			stats.Class("envelope-helper/caller-headers-carry-raw-protected-bytes")
		}
		stats.NTBytes([]byte(fmt.Sprintf("%+v", c)))
		judge(rt, "c08env", c, checkC08Envelope)
	})
}

func checkC08Envelope(c c12SignCase) error {
	err := checkC12Sign(c)
	if f, ok := err.(*Finding); ok {
		switch f.Key {
		case "not-a-sign1", "not-wellformed", "own-envelope-refused", "ref-verify", "bytes-with-error", "wrong-payload", "panic":
			return err
		}
		// C12's business - unless the decoder refuses the bytes, which is C08's as well
		b := &c.Base
		sg, e1 := libSigner(b.Key, false)
		ver, e2 := libVerifier(b.Key, false)
		if e1 != nil || e2 != nil {
			return nil
		}
		p, u := applyEdits(b.Prot, b.Unprot, c.Edits)
		h := bridge.Headers(p, u)
		if c.RawProt {
			h.RawProtected = protBstr(p)
		}
		if c.RawUnprot == 1 {
			h.RawUnprotected = rc.Encode(u, nil)
		}
		out, serr := cose.SignHashEnvelope(refcose.NewEntropy([]byte("c12")), sg, h, c.payload())
		if serr != nil {
			return nil
		}
		if _, verr := cose.VerifyHashEnvelope(ver, out); verr != nil {
			return finding("own-envelope-refused", "VerifyHashEnvelope refuses SignHashEnvelope's output: %v\n%x", verr, out)
		}
		return nil
	}
	return err
}

func init() { register("c08env", checkC08Envelope) }

// TestC08_RawStable: a message whose protected buckets are caller-supplied raw items in any head width (or came from
// a decoder) encodes to the same bytes before and after it is signed over, verified and countersigned; the raw
// items themselves stay as they were; the output is accepted by the decoder.
func checkC08RawStable(c c02RawCase) error {
	spy := &bridge.SpySigner{Alg: cose.Algorithm(c.Alg)}
	sv := &bridge.SpyVerifier{Alg: cose.Algorithm(c.Alg)}
	rnd := refcose.NewEntropy(nil)
	type enc interface{ MarshalCBOR() ([]byte, error) }
	var msg enc
	var raws []*cbor.RawMessage
	var verify func() error
	var parent any
	kind := refcose.KSign1
	if c.Kind == refcose.KSign1 {
		m := &cose.Sign1Message{Headers: cose.Headers{RawProtected: append([]byte{}, c.RawProt...), Protected: bridge.ToProtected(c.Prot)}, Payload: c.Payload}
		if err := m.Sign(rnd, c.External, spy); err != nil {
			stats.Class("refused/" + shortErr(err))
			return nil
		}
		msg, raws, parent = m, []*cbor.RawMessage{&m.Headers.RawProtected}, m
		verify = func() error { return m.Verify(c.External, sv) }
	} else {
		kind = refcose.KSign
		s := &cose.Signature{Headers: cose.Headers{RawProtected: append([]byte{}, c.SigProt...), Protected: bridge.ToProtected(c.SigMap)}}
		m := &cose.SignMessage{Headers: cose.Headers{RawProtected: append([]byte{}, c.RawProt...), Protected: bridge.ToProtected(c.Prot)}, Payload: c.Payload, Signatures: []*cose.Signature{s}}
		if err := m.Sign(rnd, c.External, spy); err != nil {
			stats.Class("refused/" + shortErr(err))
			return nil
		}
		msg, raws, parent = m, []*cbor.RawMessage{&m.Headers.RawProtected, &s.Headers.RawProtected}, s
		verify = func() error { return m.Verify(c.External, sv) }
	}
	var was [][]byte
	for _, r := range raws {
		was = append(was, append([]byte{}, *r...))
	}
	e1, err := msg.MarshalCBOR()
	if err != nil {
		stats.Class("marshal-refused/" + shortErr(err))
		return nil
	}
	if err := verify(); err != nil {
		return finding("spy-verify-error", "Verify with an accepting verifier fails right after Sign: %v", err)
	}
	cose.Countersign0(rnd, &bridge.SpySigner{Alg: cose.AlgorithmEdDSA}, parent, nil)
	e2, err := msg.MarshalCBOR()
	if err != nil || !bytes.Equal(e1, e2) {
		return finding("encoding-changed-by-use", "the same message encodes differently before and after Verify / countersigning (err=%v)\nbefore=%x\n after=%x", err, e1, e2)
	}
	for i, r := range raws {
		if !bytes.Equal(*r, was[i]) {
			return finding("raw-bytes-rewritten", "RawProtected of layer %d was %x and is %x after Verify / countersigning", i, was[i], []byte(*r))
		}
	}
	if _, derr := decodeAny(kind, e1); derr != nil {
		if werr := refcose.WellFormed(kind, e1); werr == nil {
			return finding("own-output-refused", "the decoder refuses the encoder's output although it is well-formed: %v\n%x", derr, e1)
		}
		stats.Class("raw-not-wellformed-cose")
	}
	if verify() != nil {
		return finding("spy-verify-error", "second Verify of the same message fails")
	}
	stats.Class("raw-stable/" + c.Kind.String())
	stats.NTBytes(e1)
	return nil
}

func init() { register("c08rawstable", checkC08RawStable) }

func TestC08_RawStable(t *testing.T) {
	begin(t, "C08", "rawstable")
	prop(t, func(rt *rapid.T) {
		c := genC02RawCase(rt)
		stats.Eval()
		judge(rt, "c08rawstable", c, checkC08RawStable)
	})
}
