package props

import (
	"bytes"
	"crypto/ecdsa"
	"crypto/ed25519"
	"crypto/rsa"
	"crypto/sha256"
	"encoding/hex"
	"encoding/json"
	"fmt"
	"math/big"
	"os"
	"path/filepath"
	"strings"
	"sync"
	"testing"

	"github.com/fxamacker/cbor/v2"
	cose "github.com/veraison/go-cose"
	"pgregory.net/rapid"

	"verifharness/bridge"
	"verifharness/gen"
	rc "verifharness/refcbor"
	"verifharness/refcose"
	"verifharness/stats"
)

type c18Case struct {
	W           wireCase `json:"w"`
	Constructed bool     `json:"constructed"`         // message built and signed in memory instead of decoded
	KeyIdx      int      `json:"key_idx"`             // index into zeroCoordScalars (EC2 key with a short coordinate); -1 Ed25519
	DropMaps    bool     `json:"drop_maps,omitempty"` // decoded message whose Protected maps are nil (only the raw bytes are kept), as in a struct-literal message
	G           int      `json:"g"`
	Plan        [][]int  `json:"plan"` // per goroutine: indices into the operation list
	// Hammer: every goroutine runs its plan 12 times in a row (all start together): the same
	// operations overlap on the same shared values for as long as possible
	Hammer bool `json:"hammer,omitempty"`
}

type c18Op struct {
	name string
	run  func() string
}

// c18Build creates the shared values and the list of read-only operations.
func c18Build(c *c18Case) (shared []any, ops []c18Op, err error) {
	spec := &c.W.Spec
	var m *libMsg
	if c.Constructed {
		ss, _, err := specSigners(spec)
		if err != nil {
			return nil, nil, err
		}
		plain := *spec
		plain.Groups = nil
		for i := range plain.Sigs {
			plain.Sigs[i].Groups = nil
		}
		m = constructLib(&plain)
		if err := m.sign(spec.Ext(), ss...); err != nil {
			return nil, nil, errSkip
		}
		if len(spec.Payload)%3 == 0 {
			// raw header fields that are empty but not nil (a caller that truncates them instead of assigning nil)
			m.headers().RawProtected, m.headers().RawUnprotected = cbor.RawMessage{}, make(cbor.RawMessage, 0, 4)
			if m.sm != nil {
				for _, sg := range m.sm.Signatures {
					sg.Headers.RawProtected, sg.Headers.RawUnprotected = make(cbor.RawMessage, 0, 4), cbor.RawMessage{}
				}
			}
			stats.Class("constructed-message-with-empty-non-nil-raw-fields")
		}
	} else {
		m, err = decodeLib(spec.Kind, c.W.Wire)
		if err != nil {
			return nil, nil, finding("rejected", "%v", err)
		}
		if spec.Detached {
			*m.payload() = append([]byte{}, spec.Payload...)
		}
		if c.DropMaps {
			m.headers().Protected = nil
			if m.sm != nil {
				for _, sg := range m.sm.Signatures {
					sg.Headers.Protected = nil
				}
			}
		}
	}
	var vs []cose.Verifier
	for _, s := range spec.Sigs {
		v, err := libVerifier(s.Key, s.ViaKey)
		if err != nil {
			return nil, nil, err
		}
		vs = append(vs, v)
	}
	ext := spec.Ext()
	errStr := func(e error) string {
		if e == nil {
			return "ok"
		}
		return "err: " + e.Error()
	}
	shared = append(shared, m.s1, m.u1, m.sm)
	for _, v := range vs {
		shared = append(shared, v)
	}
	ops = append(ops,
		c18Op{"Verify", func() string { return errStr(m.verify(ext, vs...)) }},
		c18Op{"Verify/other-external", func() string { return errStr(m.verify([]byte("other"), vs...)) }},
		c18Op{"MarshalCBOR", func() string { b, e := m.marshal(); return hex.EncodeToString(b) + errStr(e) }},
		c18Op{"Headers.MarshalProtected", func() string { b, e := m.headers().MarshalProtected(); return hex.EncodeToString(b) + errStr(e) }},
		c18Op{"Headers.MarshalUnprotected", func() string { b, e := m.headers().MarshalUnprotected(); return hex.EncodeToString(b) + errStr(e) }},
		c18Op{"Protected.Algorithm", func() string { a, e := m.headers().Protected.Algorithm(); return fmt.Sprint(a) + errStr(e) }},
	)
	if m.sm != nil {
		for i := range m.sm.Signatures {
			i := i
			ops = append(ops, c18Op{fmt.Sprintf("Signature[%d].Verify", i), func() string {
				bp, _ := m.sm.Headers.MarshalProtected()
				return errStr(m.sm.Signatures[i].Verify(vs[i], bp, m.sm.Payload, ext))
			}}, c18Op{fmt.Sprintf("Signature[%d].MarshalCBOR", i), func() string {
				b, e := m.sm.Signatures[i].MarshalCBOR()
				return hex.EncodeToString(b) + errStr(e)
			}})
		}
	}
	// countersignatures found on the message layer (decoded messages)
	if !c.Constructed {
		for _, g := range spec.Groups {
			v := m.headers().Unprotected[int64(g.Label)]
			if g.Abbrev() {
				sig, ok := v.([]byte)
				if !ok {
					continue
				}
				cs := g.Items[0]
				ver, err := libVerifier(cs.Key, false)
				if err != nil {
					return nil, nil, err
				}
				ops = append(ops, c18Op{"VerifyCountersign0", func() string { return errStr(cose.VerifyCountersign0(ver, m.parent(true), cs.External, sig)) }})
				continue
			}
			var list []*cose.Countersignature
			switch x := v.(type) {
			case *cose.Countersignature:
				list = []*cose.Countersignature{x}
			case []*cose.Countersignature:
				list = x
			}
			for i := range list {
				if i >= len(g.Items) {
					break
				}
				i, cs := i, g.Items[i]
				ver, err := libVerifier(cs.Key, false)
				if err != nil {
					return nil, nil, err
				}
				csig := list[i]
				ops = append(ops, c18Op{fmt.Sprintf("Countersignature[%d].Verify", i), func() string { return errStr(csig.Verify(ver, m.parent(i%2 == 0), cs.External)) }},
					c18Op{fmt.Sprintf("Countersignature[%d].MarshalCBOR", i), func() string { b, e := csig.MarshalCBOR(); return hex.EncodeToString(b) + errStr(e) }})
			}
		}
	}
	// a countersignature constructed in memory: signed over external data without alg, so its Protected map is
	// empty and a verification without the external data must fail - and must not touch the header map
	{
		ck := refcose.KeyMat{Alg: refcose.AlgEdDSA, D: rc.Hex("c18-countersigner-seed-32-bytes!")}
		csg, _ := libSigner(ck, false)
		cvf, _ := libVerifier(ck, false)
		ccs := cose.NewCountersignature()
		if err := ccs.Sign(refcose.NewEntropy(nil), csg, m.parent(true), []byte("bound external data")); err == nil {
			shared = append(shared, ccs)
			ops = append(ops,
				c18Op{"ConstructedCountersignature.Verify", func() string { return errStr(ccs.Verify(cvf, m.parent(false), []byte("bound external data"))) }},
				c18Op{"ConstructedCountersignature.Verify/no-external", func() string { return errStr(ccs.Verify(cvf, m.parent(true), nil)) }},
				c18Op{"ConstructedCountersignature.MarshalCBOR", func() string { b, e := ccs.MarshalCBOR(); return hex.EncodeToString(b) + errStr(e) }})
			if c.Constructed {
				// attached to the constructed message: its unprotected bucket is encoded from the map on
				// every MarshalCBOR, countersignature included
				h := m.headers()
				if h.Unprotected == nil {
					h.Unprotected = cose.UnprotectedHeader{}
				}
				if _, taken := h.Unprotected[int64(11)]; !taken && h.RawUnprotected == nil {
					h.Unprotected[int64(11)] = ccs
					stats.Class("constructed-message-carries-countersignature")
				}
			}
		}
	}
	// a COSE_Key (EC2 keys with a short coordinate, or Ed25519)
	var key *cose.Key
	if c.KeyIdx >= 0 {
		e := zeroCoordScalars[c.KeyIdx%len(zeroCoordScalars)]
		curve := curveOf(e.Curve)
		buf := make([]byte, (curve.Params().BitSize+7)/8)
		big.NewInt(e.D).FillBytes(buf)
		x, y := curve.ScalarBaseMult(buf)
		key, err = cose.NewKeyFromPublic(&ecdsa.PublicKey{Curve: curve, X: x, Y: y})
	} else {
		key, err = cose.NewKeyFromPublic(refcose.KeyMat{Alg: refcose.AlgEdDSA, D: rc.Hex("c18-ed25519-seed-of-32-bytes!!!!")}.Public())
	}
	if err != nil {
		return nil, nil, err
	}
	if c.KeyIdx == -1 && len(c.Plan)%2 == 0 {
		// a private Ed25519 key that carries only d (RFC 9053 7.2 merely recommends x): no verifier, and asking for one changes nothing
		seed := []byte("c18-ed25519-seed-of-32-bytes!!!!")
		if k2, err := cose.NewKeyOKP(cose.AlgorithmEdDSA, nil, seed); err == nil {
			key = k2
			stats.Class("key/okp-seed-only")
		}
	} else if c.KeyIdx == -1 {
		// a hand-built key may hold its coordinates as any byte-slice type (the accessors' documentation
		// allows it): here the Go key type itself
		if x, ok := key.Params[cose.KeyLabelOKPX].([]byte); ok {
			key.Params[cose.KeyLabelOKPX] = ed25519.PublicKey(x)
			stats.Class("key/coordinate-held-as-named-byte-type")
		}
	}
	if c.KeyIdx%2 == 0 {
		// as received from a peer that omits alg (label 3): Key.Algorithm stays unset
		key.Algorithm = cose.AlgorithmReserved
		if kb, err := key.MarshalCBOR(); err == nil {
			var dk cose.Key
			if err := dk.UnmarshalCBOR(kb); err == nil {
				key = &dk
				stats.Class("key/decoded-without-alg")
			}
		}
	}
	if c.KeyIdx >= 0 && c.KeyIdx%3 == 1 {
		// the coordinates are windows of one larger buffer of the caller (an uncompressed point 04 || X || Y with
		// the leading zero octets trimmed): there is spare capacity - and the caller's next bytes - behind them
		for _, l := range []int64{cose.KeyLabelEC2X, cose.KeyLabelEC2Y} {
			if b, ok := key.Params[l].([]byte); ok {
				buf := append(append(make([]byte, 0, len(b)+24), b...), bytes.Repeat([]byte{0xc5}, 24)...)
				key.Params[l] = buf[:len(b)]
			}
		}
		stats.Class("key/coordinates-with-spare-capacity")
	}
	if (c.KeyIdx+3)%3 != 2 {
		// optional members, key_ops with a repeated entry and spare capacity behind it
		kops := make([]cose.KeyOp, 0, 8)
		key.Ops = append(kops, cose.KeyOpVerify, cose.KeyOpVerify, cose.KeyOpSign, cose.KeyOpDeriveKey)
		key.ID = []byte("c18-key")
		key.BaseIV = []byte{1, 2, 3}
		stats.Class("key/with-key_ops")
	}
	shared = append(shared, key)
	ops = append(ops,
		c18Op{"Key.MarshalCBOR", func() string { b, e := key.MarshalCBOR(); return hex.EncodeToString(b) + errStr(e) }},
		c18Op{"Key.Verifier", func() string {
			v, e := key.Verifier()
			if e != nil {
				return errStr(e)
			}
			return fmt.Sprint(v.Algorithm()) + errStr(v.Verify([]byte("m"), []byte("not a signature")))
		}},
		c18Op{"Key.PublicKey", func() string { p, e := key.PublicKey(); return fmt.Sprint(p) + errStr(e) }},
	)
	// a hash envelope verified concurrently from one shared byte slice
	hk := refcose.KeyMat{Alg: refcose.AlgEdDSA, D: rc.Hex("c18-henv-ed25519-seed-32-bytes!!")}
	hs, _ := libSigner(hk, false)
	hv, _ := libVerifier(hk, false)
	dg := sha256.Sum256(c.W.Wire)
	henv, herr := cose.SignHashEnvelope(refcose.NewEntropy(nil), hs, cose.Headers{Protected: cose.ProtectedHeader{int64(4): []byte("kid")}},
		cose.HashEnvelopePayload{HashAlgorithm: cose.AlgorithmSHA256, HashValue: dg[:], Location: "https://x.example/y"})
	if herr != nil {
		return nil, nil, fmt.Errorf("harness: %v", herr)
	}
	shared = append(shared, &henv, hv)
	ops = append(ops, c18Op{"VerifyHashEnvelope", func() string {
		msg, e := cose.VerifyHashEnvelope(hv, henv)
		if e != nil {
			return errStr(e)
		}
		return hex.EncodeToString(msg.Payload)
	}})
	// ... and distinct envelopes produced from ONE prepared Headers value (SignHashEnvelope works on a copy of the
	// caller's protected map; the prepared value is only read): without alg, once already naming the payload's hash
	// algorithm under 258, once not
	for pi, prepared := range []cose.Headers{
		{Protected: cose.ProtectedHeader{int64(258): cose.AlgorithmSHA256, int64(4): []byte("kid")}, Unprotected: cose.UnprotectedHeader{int64(99): "u"}},
		{Protected: cose.ProtectedHeader{int64(258): cose.AlgorithmSHA256}},
		{Protected: cose.ProtectedHeader{int64(4): []byte("kid")}, Unprotected: cose.UnprotectedHeader{}},
	} {
		prepared := prepared
		shared = append(shared, prepared.Protected)
		var hctr struct {
			sync.Mutex
			n int
		}
		ops = append(ops, c18Op{fmt.Sprintf("SignHashEnvelope/shared-prepared-headers-%d", pi), func() string {
			hctr.Lock()
			hctr.n++
			id := hctr.n
			hctr.Unlock()
			d := sha256.Sum256([]byte(fmt.Sprintf("distinct content %d", id)))
			env, e := cose.SignHashEnvelope(refcose.NewEntropy(nil), hs, prepared, cose.HashEnvelopePayload{HashAlgorithm: cose.AlgorithmSHA256, HashValue: d[:]})
			if e != nil {
				return errStr(e)
			}
			_, e = cose.VerifyHashEnvelope(hv, env)
			return errStr(e)
		}})
	}
	// one signer shared by goroutines that sign distinct messages
	sk := spec.Sigs[0].Key
	sg, err := libSigner(sk, false)
	if err != nil {
		return nil, nil, err
	}
	sv, _ := libVerifier(sk, false)
	shared = append(shared, sg)
	var ctr struct {
		sync.Mutex
		n int
	}
	ops = append(ops, c18Op{"Sign/shared-signer", func() string {
		ctr.Lock()
		ctr.n++
		id := ctr.n
		ctr.Unlock()
		msg := &cose.Sign1Message{Headers: cose.Headers{Protected: cose.ProtectedHeader{int64(1): cose.Algorithm(sk.Alg)}}, Payload: []byte(fmt.Sprintf("distinct message %d", id))}
		if e := msg.Sign(refcose.NewEntropy([]byte{byte(id)}), nil, sg); e != nil {
			return errStr(e)
		}
		return errStr(msg.Verify(nil, sv))
	}})
	// ... distinct messages that share one prepared protected-header map which already names the algorithm (Sign has
	// nothing to add to it: it only reads it)
	sharedHdr := cose.ProtectedHeader{int64(1): cose.Algorithm(sk.Alg), int64(3): "text/plain"}
	shared = append(shared, sharedHdr)
	ops = append(ops, c18Op{"Sign/shared-signer/shared-header-map", func() string {
		ctr.Lock()
		ctr.n++
		id := ctr.n
		ctr.Unlock()
		msg := &cose.Sign1Message{Headers: cose.Headers{Protected: sharedHdr}, Payload: []byte(fmt.Sprintf("distinct message %d", id))}
		if e := msg.Sign(refcose.NewEntropy([]byte{byte(id)}), nil, sg); e != nil {
			return errStr(e)
		}
		return errStr(msg.Verify(nil, sv))
	}})
	// ... and the same with a signer that reaches its key only through crypto.Signer (HSM / KMS style)
	if osg, err := cose.NewSigner(cose.Algorithm(sk.Alg), opaqueSigner{sk.Private()}); err == nil {
		shared = append(shared, osg)
		ops = append(ops, c18Op{"Sign/shared-opaque-signer", func() string {
			ctr.Lock()
			ctr.n++
			id := ctr.n
			ctr.Unlock()
			msg := &cose.Sign1Message{Headers: cose.Headers{Protected: cose.ProtectedHeader{int64(1): cose.Algorithm(sk.Alg)}}, Payload: []byte(fmt.Sprintf("distinct message %d", id))}
			if e := msg.Sign(refcose.NewEntropy([]byte{byte(id)}), nil, osg); e != nil {
				return errStr(e)
			}
			return errStr(msg.Verify(nil, sv))
		}})
	}
	// ... and with an RSA key the application assembled from its numbers (N, E, D, P, Q; nothing precomputed):
	// the key belongs to the caller, signing only reads it
	if rk, ok := sk.Private().(*rsa.PrivateKey); ok {
		cp := func(x *big.Int) *big.Int { return new(big.Int).Set(x) }
		hand := &rsa.PrivateKey{PublicKey: rsa.PublicKey{N: cp(rk.N), E: rk.E}, D: cp(rk.D), Primes: []*big.Int{cp(rk.Primes[0]), cp(rk.Primes[1])}}
		if hsg, err := cose.NewSigner(cose.Algorithm(sk.Alg), hand); err == nil {
			shared = append(shared, hsg, hand)
			stats.Class("shared-signer-over-hand-built-rsa-key")
			ops = append(ops, c18Op{"Sign/shared-signer-over-hand-built-rsa-key", func() string {
				ctr.Lock()
				ctr.n++
				id := ctr.n
				ctr.Unlock()
				msg := &cose.Sign1Message{Headers: cose.Headers{Protected: cose.ProtectedHeader{int64(1): cose.Algorithm(sk.Alg)}}, Payload: []byte(fmt.Sprintf("distinct message %d", id))}
				if e := msg.Sign(refcose.NewEntropy([]byte{byte(id)}), nil, hsg); e != nil {
					return errStr(e)
				}
				return errStr(msg.Verify(nil, sv))
			}})
		}
	}
	return shared, ops, nil
}

func dumpAll(shared []any) string {
	s := ""
	for _, v := range shared {
		s += bridge.Dump(v) + "\n"
	}
	return s
}

// checkC18: (a) every operation leaves every shared value bit-identical;
// (c) run concurrently, every operation returns what it returned sequentially;
// (b) the race detector (when the binary is built with -race) stays silent.
func checkC18(c c18Case) error {
	shared, ops, err := c18Build(&c)
	if err != nil {
		if err == errSkip {
			stats.Class("skipped/sign-refused")
			return nil
		}
		return err
	}
	want := make([]string, len(ops))
	for i, op := range ops {
		before := dumpAll(shared)
		want[i] = op.run()
		if after := dumpAll(shared); after != before {
			return finding("mutates/"+opClass(op.name), "%s modifies a shared value\n%s", op.name, firstDiff(before, after))
		}
		if r2 := op.run(); r2 != want[i] && !strings.HasPrefix(op.name, "Sign/shared-") {
			return finding("unstable-result/"+opClass(op.name), "%s returns %q then %q", op.name, want[i], r2)
		}
		stats.Class("op/" + opClass(op.name))
	}
	// concurrent phase
	writeInflight(&c)
	before := dumpAll(shared)
	var wg sync.WaitGroup
	var mu sync.Mutex
	var bad string
	start := make(chan struct{})
	rounds := 1
	if c.Hammer {
		rounds = 12
		stats.Class("hammer")
	}
	for g := 0; g < c.G; g++ {
		plan := c.Plan[g%len(c.Plan)]
		if rounds > 1 {
			rep := make([]int, 0, len(plan)*rounds)
			for r := 0; r < rounds; r++ {
				rep = append(rep, plan...)
			}
			plan = rep
		}
		wg.Add(1)
		go func() {
			defer wg.Done()
			<-start
			for _, oi := range plan {
				op := ops[oi%len(ops)]
				got := op.run()
				if got != want[oi%len(ops)] {
					mu.Lock()
					if bad == "" {
						bad = fmt.Sprintf("%s: concurrently %q, sequentially %q", op.name, got, want[oi%len(ops)])
					}
					mu.Unlock()
				}
			}
		}()
	}
	close(start)
	wg.Wait()
	if bad != "" {
		return finding("concurrent-result-differs", "%s (goroutines=%d)", bad, c.G)
	}
	if after := dumpAll(shared); after != before {
		return finding("mutates/concurrent", "shared values changed during the concurrent phase\n%s", firstDiff(before, after))
	}
	distinctOps := map[int]bool{}
	for _, p := range c.Plan {
		for _, oi := range p {
			distinctOps[oi%len(ops)] = true
		}
	}
	kind := "decoded"
	if c.Constructed {
		kind = "constructed"
	} else if c.DropMaps {
		kind = "raw-only"
	}
	stats.Class("shared/" + kind + "/" + c.W.Spec.Kind.String())
	stats.Class(fmt.Sprintf("goroutines/%s", map[bool]string{true: ">=8", false: "<8"}[c.G >= 8]))
	if c.G >= 2 && len(distinctOps) >= 2 {
		stats.NTBytes(c.W.Wire, []byte(fmt.Sprint(c.Plan, c.Constructed, c.KeyIdx)))
		if len(c.W.Wire) < 300 {
			stats.Sample("c18/"+kind, map[string]any{"kind": c.W.Spec.Kind.String(), "origin": kind, "goroutines": c.G, "plan": c.Plan, "wire": c.W.Wire})
		}
	}
	return nil
}

func opClass(name string) string {
	for i, ch := range name {
		if ch == '[' {
			j := i
			for j < len(name) && name[j] != ']' {
				j++
			}
			return name[:i] + name[j+1:]
		}
	}
	return name
}

func firstDiff(a, b string) string {
	i := 0
	for i < len(a) && i < len(b) && a[i] == b[i] {
		i++
	}
	lo := i - 120
	if lo < 0 {
		lo = 0
	}
	ha, hb := i+120, i+120
	if ha > len(a) {
		ha = len(a)
	}
	if hb > len(b) {
		hb = len(b)
	}
	return fmt.Sprintf("before: …%s…\n after: …%s…", a[lo:ha], b[lo:hb])
}

// writeInflight records the case that is about to run concurrently, so that a
// data race report (which kills the process: GORACE=halt_on_error=1) can be
// attributed to it by the driver.
func writeInflight(c *c18Case) {
	dir := os.Getenv("VERIF_REPLAY_DIR")
	if dir == "" {
		return
	}
	cb, _ := json.Marshal(c)
	rf := replayFile{Property: "C18", Kind: "c18", Key: "data-race", Message: "in-flight case when the process ended (data race reported by the race detector, or crash)", Case: cb}
	b, _ := json.Marshal(rf)
	if p := os.Getenv("VERIF_INFLIGHT"); p != "" {
		os.MkdirAll(filepath.Dir(p), 0o755)
		os.WriteFile(p, b, 0o644)
		return
	}
	os.MkdirAll(dir, 0o755)
	os.WriteFile(filepath.Join(dir, fmt.Sprintf("C18-inflight-%s.json", shardID())), b, 0o644)
}

func init() { register("c18", checkC18) }

func genC18Case(t *rapid.T) c18Case {
	o := c07Opts()
	o.HugeLens = false
	o.Hdr.MaxEntries = 8
	o.MaxSigners = 3
	wc, _ := genWireCase(t, o, true)
	c := c18Case{W: wc, Constructed: rapid.IntRange(0, 3).Draw(t, "constructed") == 0, KeyIdx: rapid.IntRange(-1, len(zeroCoordScalars)-1).Draw(t, "key")}
	c.DropMaps = !c.Constructed && rapid.IntRange(0, 3).Draw(t, "drop-maps") == 0
	c.G = rapid.SampledFrom([]int{2, 3, 4, 8, 8, 16, 16, 32}).Draw(t, "goroutines")
	np := rapid.IntRange(1, 4).Draw(t, "nplans")
	for i := 0; i < np; i++ {
		n := rapid.IntRange(1, 6).Draw(t, "plan-len")
		p := make([]int, n)
		for j := range p {
			p[j] = rapid.IntRange(0, 30).Draw(t, "op")
		}
		c.Plan = append(c.Plan, p)
	}
	c.Hammer = rapid.IntRange(0, 2).Draw(t, "hammer") == 0
	if c.Hammer && rapid.Bool().Draw(t, "hammer-one-plan") {
		c.Plan = c.Plan[:1] // everybody does the same
	}
	return c
}

func TestC18_Concurrent(t *testing.T) {
	begin(t, "C18", "concurrent")
	prop(t, func(rt *rapid.T) {
		c := genC18Case(rt)
		stats.Eval()
		judge(rt, "c18", c, checkC18)
	})
}

var _ = gen.Alg
