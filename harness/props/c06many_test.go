package props

import (
	"bytes"
	"encoding/binary"
	"encoding/hex"
	"encoding/json"
	"fmt"
	"os"
	"path/filepath"
	"strings"
	"sync"
	"testing"
	"time"

	cose "github.com/veraison/go-cose"

	"verifharness/bridge"

	rc "verifharness/refcbor"
	"verifharness/refcose"
	"verifharness/stats"
)

// "Terminates promptly" and "never panics" are also statements about the N-th
// call in the life of a process, and about calls that overlap: a decoder that
// remembers something about earlier inputs (a cache, a pool, a counter) can go
// wrong only after many distinct inputs, or only when two calls interleave.

type c06ManyCase struct {
	N int `json:"n"` // number of distinct inputs decoded one after the other
}

func c06DistinctInputs(i int) (kinds []refcose.Kind, wires [][]byte) {
	var ctr [4]byte
	binary.BigEndian.PutUint32(ctr[:], uint32(i))
	prot := append([]byte{0x49, 0xa2, 0x01, 0x26, 0x04, 0x44}, ctr[:]...) // bstr wrapping {1: -7, 4: h'<i>'}
	s1 := append([]byte{0xd2, 0x84}, prot...)
	s1 = append(s1, 0xa1, 0x04, 0x44)
	s1 = append(s1, ctr[:]...)
	s1 = append(s1, 0x41, 0x70, 0x41, 0x01)
	sg := append([]byte{0x83}, prot...)
	sg = append(sg, 0xa0, 0x41, 0x01)
	sm := append([]byte{0xd8, 0x62, 0x84}, prot...)
	sm = append(sm, 0xa0, 0x41, 0x70, 0x81)
	sm = append(sm, sg...)
	key := append([]byte{0xa3, 0x01, 0x04, 0x02, 0x44}, ctr[:]...)
	key = append(key, 0x20, 0x41, 0x01)
	bad := append([]byte{0xd2, 0x84, 0x4d, 0xa3, 0x01, 0x26, 0x02, 0x81, 0x18, 0x63, 0x04, 0x44}, ctr[:]...) // crit names an absent label
	bad = append(bad, 0xa0, 0x41, 0x70, 0x41, 0x01)
	return []refcose.Kind{refcose.KSign1, refcose.KSign1Untagged, refcose.KSignature, refcose.KCountersignature, refcose.KSign, refcose.KProtected, refcose.KSign1, -1},
		[][]byte{s1, s1[1:], sg, sg, sm, prot, bad, key}
}

func c06DecodeOne(kind refcose.Kind, w []byte) {
	if kind == -1 {
		var k cose.Key
		if k.UnmarshalCBOR(append([]byte{}, w...)) == nil {
			k.MarshalCBOR()
		}
		return
	}
	if v, err := decodeAny(kind, w); err == nil {
		if m, ok := v.(anyMsg); ok {
			m.MarshalCBOR()
		}
	}
}

func checkC06Many(c c06ManyCase) error {
	done := make(chan int, 1)
	progress := make(chan int, 64)
	go func() {
		for i := 0; i < c.N; i++ {
			kinds, wires := c06DistinctInputs(i)
			for j := range wires {
				c06DecodeOne(kinds[j], wires[j])
			}
			if i%64 == 0 {
				select {
				case progress <- i:
				default:
				}
			}
		}
		done <- c.N
	}()
	last := 0
	timer := time.NewTimer(60 * time.Second)
	defer timer.Stop()
	for {
		select {
		case <-done:
			stats.Class("many-distinct-inputs")
			return nil
		case i := <-progress:
			last = i
			if !timer.Stop() {
				select {
				case <-timer.C:
				default:
				}
			}
			timer.Reset(60 * time.Second) // the limit is on standing still, not on the total
		case <-timer.C:
			// (only a complete standstill counts: 60 s without finishing 8 x N small decodes)
			return finding("decoder-hangs-after-many-inputs", "decoding %d distinct small inputs of every kind one after the other made no progress for 60 s (last progress report at input %d): a decoder no longer returns", c.N, last)
		}
	}
}

func init() { register("c06many", checkC06Many) }

// TestC06_ManyDistinct decodes thousands of distinct small inputs of every kind in one process.
func TestC06_ManyDistinct(t *testing.T) {
	begin(t, "C06", "manydistinct")
	n := 20000
	if tierThorough() {
		n = 200000
	}
	stats.EvalN(n * 8)
	stats.NTBytes([]byte(fmt.Sprint("many", n)))
	judge(t, "c06many", c06ManyCase{N: n}, checkC06Many)
}

// ---------------------------------------------------------------------------
// overlapping decodes

type c06ConcCase struct {
	G      int `json:"g"`
	Rounds int `json:"rounds"`
}

// checkC06Concurrent: G goroutines decode (and re-encode) valid and invalid inputs of every kind at the
// same time. A crash of the runtime ("concurrent map writes") ends the process; the driver attributes it
// to this case through the in-flight file.
func checkC06Concurrent(c c06ConcCase) error {
	writeInflightC06(&c)
	var wg sync.WaitGroup
	var mu sync.Mutex
	var bad string
	start := make(chan struct{})
	for g := 0; g < c.G; g++ {
		g := g
		wg.Add(1)
		go func() {
			defer wg.Done()
			defer func() {
				if r := recover(); r != nil {
					mu.Lock()
					bad = fmt.Sprint(r)
					mu.Unlock()
				}
			}()
			<-start
			for r := 0; r < c.Rounds; r++ {
				kinds, wires := c06DistinctInputs((g*c.Rounds + r) % 97)
				for j := range wires {
					c06DecodeOne(kinds[j], wires[j])
				}
			}
		}()
	}
	close(start)
	wg.Wait()
	// second phase: one decoded value is handed to all goroutines at once (a key cache, a message fanned out to
	// several checkers): re-encoding and converting it are reads
	shortKey := rc.Encode(rc.Map(rc.E(rc.Int(1), rc.Int(2)), rc.E(rc.Int(-1), rc.Int(1)),
		rc.E(rc.Int(-2), rc.Bytes(bytes.Repeat([]byte{7}, 31))), rc.E(rc.Int(-3), rc.Bytes(bytes.Repeat([]byte{9}, 30)))), nil)
	msgWire, _ := hex.DecodeString("d28443a10127a1044161417043010203")
	for r := 0; r < 4000 && bad == ""; r++ {
		var k cose.Key
		if err := k.UnmarshalCBOR(shortKey); err != nil {
			break
		}
		var m cose.Sign1Message
		if err := m.UnmarshalCBOR(msgWire); err != nil {
			break
		}
		var wg2 sync.WaitGroup
		start2 := make(chan struct{})
		for g := 0; g < c.G; g++ {
			wg2.Add(1)
			go func() {
				defer wg2.Done()
				defer func() {
					if r := recover(); r != nil {
						mu.Lock()
						bad = fmt.Sprint(r)
						mu.Unlock()
					}
				}()
				<-start2
				k.MarshalCBOR()
				k.PublicKey()
				k.Verifier()
				m.MarshalCBOR()
				m.Verify(nil, &bridge.SpyVerifier{Alg: cose.AlgorithmEdDSA})
			}()
		}
		close(start2)
		wg2.Wait()
		stats.Class("one-decoded-value-used-by-all-goroutines")
	}
	clearInflightC06()
	if bad != "" {
		return finding("panic/concurrent-decoding", "a decoder panicked while other goroutines were decoding: %s", bad)
	}
	stats.Class("concurrent-decoding")
	return nil
}

func init() { register("c06conc", checkC06Concurrent) }

func TestC06_Concurrent(t *testing.T) {
	begin(t, "C06", "concurrent")
	rounds := 2500
	if tierThorough() {
		rounds = 40000
	}
	for _, g := range []int{2, 4, 8, 16} {
		c := c06ConcCase{G: g, Rounds: rounds}
		stats.EvalN(g * rounds * 8)
		stats.NTBytes([]byte(fmt.Sprint(c)))
		judge(t, "c06conc", c, checkC06Concurrent)
	}
}

func writeInflightC06(c *c06ConcCase) {
	dir := os.Getenv("VERIF_REPLAY_DIR")
	if dir == "" {
		return
	}
	cb, _ := json.Marshal(c)
	rf := replayFile{Property: "C06", Kind: "c06conc", Key: "crash/concurrent-decoding", Message: "in-flight case when the process ended (the Go runtime reported concurrent map access inside a decoder)", Case: cb}
	b, _ := json.Marshal(rf)
	if p := os.Getenv("VERIF_INFLIGHT"); p != "" {
		os.MkdirAll(filepath.Dir(p), 0o755)
		os.WriteFile(p, b, 0o644)
		return
	}
	os.MkdirAll(dir, 0o755)
	os.WriteFile(filepath.Join(dir, fmt.Sprintf("C06-inflight-%s.json", shardID())), b, 0o644)
}

func clearInflightC06() {
	if p := os.Getenv("VERIF_INFLIGHT"); p != "" {
		os.Remove(p)
		return
	}
	if dir := os.Getenv("VERIF_REPLAY_DIR"); dir != "" {
		os.Remove(filepath.Join(dir, fmt.Sprintf("C06-inflight-%s.json", shardID())))
	}
}

// ---------------------------------------------------------------------------
// duplicate labels of every spelling in every bucket and layer: refused with an
// error (the error value itself is rendered, too: it is what callers log)

type c06DupCase struct {
	Layer  string `json:"layer"`  // sign1, untagged, sign-body, signer, countersignature, nested-countersignature, key, protected, unprotected
	Bucket string `json:"bucket"` // P, U
	Label  string `json:"label"`  // int, negint, text, empty-text, long-text, text-digits, utf8:<k>:<r> (k ASCII letters, then one character of r bytes)
	// Crit: instead of repeating the label, the protected map lists it in crit without carrying it (another
	// refusal whose message quotes the label)
	Crit bool `json:"crit,omitempty"`
}

func c06Label(name string) []byte {
	var k, r int
	if n, _ := fmt.Sscanf(name, "utf8:%d:%d", &k, &r); n == 2 {
		txt := bytes.Repeat([]byte{'a'}, k)
		txt = append(txt, map[int]string{2: "\u00e9", 3: "\u20ac", 4: "\U0001F600"}[r]...)
		return rc.Encode(rc.Text(string(txt)), nil)
	}
	return nil
}

func checkC06Dup(c c06DupCase) error {
	lab := map[string][]byte{"int": {0x18, 0x63}, "negint": {0x38, 0x63}, "text": {0x61, 'a'}, "empty-text": {0x60}, "text-digits": {0x61, '4'},
		"long-text": append([]byte{0x78, 0x20}, bytes.Repeat([]byte{'l'}, 32)...)}[c.Label]
	if lab == nil {
		lab = c06Label(c.Label)
	}
	m := append([]byte{0xa2}, lab...)
	m = append(m, 0x01)
	m = append(m, lab...)
	m = append(m, 0x02)
	if c.Crit {
		m = append([]byte{0xa2, 0x01, 0x26, 0x02, 0x81}, lab...)
	}
	empty := []byte{0xa0}
	prot := func(b []byte) []byte { return rc.Encode(rc.Bytes(b), nil) }
	p, u := []byte{0x40}, empty
	if c.Bucket == "P" {
		p = prot(m)
	} else {
		u = m
	}
	layer3 := func(p, u []byte) []byte {
		w := append([]byte{0x83}, p...)
		w = append(w, u...)
		return append(w, 0x41, 0x01)
	}
	var kind refcose.Kind
	var w []byte
	switch c.Layer {
	case "sign1", "untagged":
		kind = refcose.KSign1
		w = append([]byte{0xd2, 0x84}, p...)
		w = append(w, u...)
		w = append(w, 0x41, 0x70, 0x41, 0x01)
		if c.Layer == "untagged" {
			kind, w = refcose.KSign1Untagged, w[1:]
		}
	case "sign-body":
		kind = refcose.KSign
		w = append([]byte{0xd8, 0x62, 0x84}, p...)
		w = append(w, u...)
		w = append(w, 0x41, 0x70, 0x81)
		w = append(w, layer3([]byte{0x40}, empty)...)
	case "signer":
		kind = refcose.KSign
		w = append([]byte{0xd8, 0x62, 0x84, 0x40, 0xa0, 0x41, 0x70, 0x81}, layer3(p, u)...)
	case "countersignature":
		kind, w = refcose.KCountersignature, layer3(p, u)
	case "nested-countersignature":
		kind = refcose.KSign1
		w = append([]byte{0xd2, 0x84, 0x40, 0xa1, 0x0b}, layer3(p, u)...)
		w = append(w, 0x41, 0x70, 0x41, 0x01)
	case "protected":
		kind, w = refcose.KProtected, prot(m)
	case "unprotected":
		kind, w = refcose.KUnprotected, m
	case "key":
		kind = -1
		w = append([]byte{0xa4, 0x01, 0x04, 0x20, 0x41, 0x01}, m[1:]...)
	}
	var err error
	if kind == -1 {
		var k cose.Key
		err = k.UnmarshalCBOR(w)
	} else {
		_, err = decodeAny(kind, w)
	}
	if err == nil {
		if c.Crit {
			return finding("accepted-crit-of-absent-label", "%+v: a protected header whose crit lists a label it does not carry is accepted\n%x", c, w)
		}
		return finding("accepted-duplicate-label", "%+v: a map with a repeated label is accepted\n%x", c, w)
	}
	_ = err.Error()
	_ = fmt.Sprintf("%v %+v %q", err, err, err)
	if strings.HasPrefix(c.Label, "utf8:") {
		stats.Class("duplicate-label-refused/text-ending-in-a-multi-byte-character")
	} else {
		stats.Class("duplicate-label-refused/" + c.Label)
	}
	if c.Crit {
		stats.Class("crit-of-absent-label-refused")
	}
	return nil
}

func init() { register("c06dup", checkC06Dup) }

func TestC06_DuplicateLabels(t *testing.T) {
	begin(t, "C06", "duplabels")
	n := 0
	for _, layer := range []string{"sign1", "untagged", "sign-body", "signer", "countersignature", "nested-countersignature", "key", "protected", "unprotected"} {
		for _, bucket := range []string{"P", "U"} {
			if (layer == "protected" && bucket == "U") || (layer == "unprotected" && bucket == "P") || (layer == "key" && bucket == "U") {
				continue
			}
			labels := []string{"int", "negint", "text", "empty-text", "long-text", "text-digits"}
			for k := 20; k <= 70; k++ {
				// text labels whose last character is 2, 3 or 4 bytes long and starts at every offset around the
				// lengths at which a message might abbreviate what it quotes
				for r := 2; r <= 4; r++ {
					labels = append(labels, fmt.Sprintf("utf8:%d:%d", k, r))
				}
			}
			for _, label := range labels {
				for _, crit := range []bool{false, true} {
					if crit && (bucket != "P" || layer == "key") {
						continue
					}
					c := c06DupCase{Layer: layer, Bucket: bucket, Label: label, Crit: crit}
					n++
					stats.Eval()
					stats.NTBytes([]byte(fmt.Sprint(c)))
					judge(t, "c06dup", c, checkC06Dup)
				}
			}
		}
	}
	stats.ExhaustivePart("duplicate label x spelling x bucket x layer", n)
}

// TestC06_LargeCrit: promptness on large but well-formed inputs whose parts refer to each other: a protected
// header with n parameters all of which are listed in crit (n up to 100 000, about 1 MB). The unchanged decoder
// needs a fraction of a second; the deadline is two orders of magnitude above that, so that only a change in
// the growth (a lookup that became a scan) can exceed it.
type c06CritCase struct {
	Nested int          `json:"nested,omitempty"`
	N      int          `json:"n"`
	Kind   refcose.Kind `json:"kind"`
}

func checkC06LargeCrit(c c06CritCase) error {
	if c.Nested > 0 {
		// countersignatures nested in countersignatures, c.Nested levels deep (a few bytes per level)
		inner := []byte{0x83, 0x40, 0xa0, 0x41, 0x01}
		for i := 0; i < c.Nested; i++ {
			w := append([]byte{0x83, 0x40, 0xa1, 0x0b}, inner...)
			inner = append(w, 0x41, 0x01)
		}
		w := append(append([]byte{0xd2, 0x84, 0x43, 0xa1, 0x01, 0x26, 0xa1, 0x0b}, inner...), 0x41, 0x70, 0x41, 0x01)
		done := make(chan error, 1)
		start := time.Now()
		go func() {
			_, err := decodeAny(refcose.KSign1, w)
			done <- err
		}()
		select {
		case <-done:
		case <-time.After(40 * time.Second):
			return finding("not-prompt/deep-nesting", "decoding a COSE_Sign1 of %d bytes with %d nested countersignatures has not returned after 40 s (the unchanged library answers at once)", len(w), c.Nested)
		}
		stats.Class("deep-nesting")
		stats.Note(fmt.Sprintf("deep nesting n=%d", c.Nested), fmt.Sprintf("%d bytes answered in %v", len(w), time.Since(start).Round(time.Millisecond)))
		return nil
	}
	m := rc.Map(rc.E(rc.Int(1), rc.Int(-7)))
	var crit []rc.Val
	for i := 0; i < c.N; i++ {
		l := rc.Int(int64(1000 + i))
		if i%5 == 4 {
			l = rc.Text(fmt.Sprintf("p%d", i))
		}
		m.M = append(m.M, rc.E(l, rc.Int(0)))
		crit = append(crit, l)
	}
	m.M = append(m.M, rc.E(rc.Int(2), rc.Array(crit...)))
	prot := rc.Encode(rc.Bytes(rc.Encode(m, nil)), nil)
	var w []byte
	switch c.Kind {
	case refcose.KProtected:
		w = prot
	case refcose.KSign1:
		w = append(append(append([]byte{0xd2, 0x84}, prot...), 0xa0, 0x41, 0x70), 0x41, 0x01)
	default:
		w = append(append([]byte{0x83}, prot...), 0xa0, 0x41, 0x01)
	}
	done := make(chan error, 1)
	start := time.Now()
	go func() {
		_, err := decodeAny(c.Kind, w)
		done <- err
	}()
	select {
	case err := <-done:
		if err != nil {
			return finding("large-crit-refused", "a well-formed %v with %d protected parameters, all listed in crit, is refused: %v", c.Kind, c.N, err)
		}
	case <-time.After(40 * time.Second):
		return finding("not-prompt/large-crit", "decoding a well-formed %v of %d bytes (%d protected parameters, all listed in crit) has not returned after 40 s (the unchanged library needs well under a second)", c.Kind, len(w), c.N)
	}
	stats.Class(fmt.Sprintf("large-crit/n=%d", c.N))
	stats.Note(fmt.Sprintf("large-crit %v n=%d", c.Kind, c.N), fmt.Sprintf("%d bytes decoded in %v", len(w), time.Since(start).Round(time.Millisecond)))
	return nil
}

func init() { register("c06crit", checkC06LargeCrit) }

func TestC06_LargeCrit(t *testing.T) {
	begin(t, "C06", "largecrit")
	n := 0
	for _, k := range []refcose.Kind{refcose.KProtected, refcose.KSign1, refcose.KCountersignature} {
		for _, cnt := range []int{1000, 30000, 100000} {
			n++
			stats.Eval()
			stats.NTBytes([]byte(fmt.Sprint(k, cnt)))
			judge(t, "c06crit", c06CritCase{N: cnt, Kind: k}, checkC06LargeCrit)
		}
	}
	for _, depth := range []int{14, 15, 16, 40, 3000, 20000} {
		n++
		stats.Eval()
		stats.NTBytes([]byte(fmt.Sprint("nested", depth)))
		judge(t, "c06crit", c06CritCase{Nested: depth}, checkC06LargeCrit)
	}
	stats.ExhaustivePart("large crit lists", n)
}
