//go:build genfixtures

package fixtures

import (
	"crypto/rand"
	"crypto/rsa"
	"crypto/x509"
	"encoding/pem"
	"fmt"
	"os"
	"testing"
)

// Run once with: go test -tags genfixtures -run TestGen ./fixtures
func TestGen(t *testing.T) {
	for _, spec := range []struct {
		name string
		bits int
	}{{"rsa1024", 1024}, {"rsa2047", 2047}, {"rsa2048", 2048}, {"rsa2048b", 2048}, {"rsa3072", 3072}, {"rsa4096", 4096}} {
		k, err := rsa.GenerateKey(rand.Reader, spec.bits)
		if err != nil {
			t.Fatal(err)
		}
		if k.N.BitLen() != spec.bits {
			t.Fatalf("%s: got %d bits", spec.name, k.N.BitLen())
		}
		b := pem.EncodeToMemory(&pem.Block{Type: "RSA PRIVATE KEY", Bytes: x509.MarshalPKCS1PrivateKey(k)})
		if err := os.WriteFile(fmt.Sprintf("%s.pem", spec.name), b, 0o644); err != nil {
			t.Fatal(err)
		}
	}
}
