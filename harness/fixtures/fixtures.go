// Package fixtures holds RSA keys generated once (RSA key generation is too
// slow and not derivable from rapid draws) and committed as PEM.
package fixtures

import (
	"crypto/rsa"
	"crypto/x509"
	"embed"
	"encoding/pem"
	"fmt"
	"sync"
)

//go:embed *.pem
var files embed.FS

var (
	mu    sync.Mutex
	cache = map[string]*rsa.PrivateKey{}
)

// Names of the available RSA fixtures.
var Names = []string{"rsa1024", "rsa2047", "rsa2048", "rsa2048b", "rsa2049", "rsa2055", "rsa3072", "rsa4096", "rsa8200"}

// RSA returns the named fixture key (e.g. "rsa2048"). The returned key is
// shared; callers must not modify it.
func RSA(name string) *rsa.PrivateKey {
	mu.Lock()
	defer mu.Unlock()
	if k, ok := cache[name]; ok {
		return k
	}
	b, err := files.ReadFile(name + ".pem")
	if err != nil {
		panic(fmt.Sprintf("fixtures: %v", err))
	}
	blk, _ := pem.Decode(b)
	k, err := x509.ParsePKCS1PrivateKey(blk.Bytes)
	if err != nil {
		panic(fmt.Sprintf("fixtures: %v", err))
	}
	k.Precompute()
	cache[name] = k
	return k
}
