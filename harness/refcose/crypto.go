// Package refcose is the harness' independent implementation of the parts of
// RFC 9052 / RFC 9338 / the hash-envelope draft that the oracles need. It uses
// Go's crypto packages directly and never calls go-cose.
package refcose

import (
	"bytes"
	"crypto"
	"crypto/ecdsa"
	"crypto/ed25519"
	"crypto/elliptic"
	"crypto/rsa"
	"crypto/sha256"
	"crypto/sha512"
	"fmt"
	"io"
	"math/big"

	"verifharness/fixtures"
	rc "verifharness/refcbor"
)

// Algorithm identifiers (IANA COSE Algorithms).
const (
	AlgES256 int64 = -7
	AlgEdDSA int64 = -8
	AlgES384 int64 = -35
	AlgES512 int64 = -36
	AlgPS256 int64 = -37
	AlgPS384 int64 = -38
	AlgPS512 int64 = -39
)

// Algs lists the seven built-in signature algorithms.
var Algs = []int64{AlgES256, AlgES384, AlgES512, AlgEdDSA, AlgPS256, AlgPS384, AlgPS512}

// AlgName names an algorithm id.
func AlgName(a int64) string {
	switch a {
	case AlgES256:
		return "ES256"
	case AlgES384:
		return "ES384"
	case AlgES512:
		return "ES512"
	case AlgEdDSA:
		return "EdDSA"
	case AlgPS256:
		return "PS256"
	case AlgPS384:
		return "PS384"
	case AlgPS512:
		return "PS512"
	}
	return fmt.Sprintf("alg(%d)", a)
}

// KeyMat is serialisable key material: everything needed to rebuild a key.
type KeyMat struct {
	Alg   int64  `json:"alg"`             // algorithm the key is used with
	Curve int    `json:"curve,omitempty"` // 256/384/521 for ECDSA keys (defaults from Alg)
	D     rc.Hex `json:"d,omitempty"`     // EC private scalar (big-endian, reduced into [1,n-1]) or Ed25519 seed (32 bytes)
	RSA   string `json:"rsa,omitempty"`   // fixture name for RSA keys
}

// Family returns "ec", "ed" or "rsa".
func (k KeyMat) Family() string {
	switch k.Alg {
	case AlgES256, AlgES384, AlgES512:
		return "ec"
	case AlgEdDSA:
		return "ed"
	}
	return "rsa"
}

// CurveFor returns the elliptic curve of an EC key material.
func (k KeyMat) CurveFor() elliptic.Curve {
	c := k.Curve
	if c == 0 {
		switch k.Alg {
		case AlgES256:
			c = 256
		case AlgES384:
			c = 384
		case AlgES512:
			c = 521
		}
	}
	switch c {
	case 256:
		return elliptic.P256()
	case 384:
		return elliptic.P384()
	case 521:
		return elliptic.P521()
	case 224:
		return elliptic.P224()
	}
	panic(fmt.Sprintf("refcose: no curve for key material %+v", k))
}

// ECPrivate builds an ECDSA key from a scalar, reducing it into [1, n-1].
func ECPrivate(curve elliptic.Curve, d []byte) *ecdsa.PrivateKey {
	n := curve.Params().N
	k := new(big.Int).SetBytes(d)
	k.Mod(k, new(big.Int).Sub(n, big.NewInt(1)))
	k.Add(k, big.NewInt(1))
	size := (n.BitLen() + 7) / 8
	buf := make([]byte, size)
	k.FillBytes(buf)
	x, y := curve.ScalarBaseMult(buf)
	return &ecdsa.PrivateKey{PublicKey: ecdsa.PublicKey{Curve: curve, X: x, Y: y}, D: k}
}

// Private returns the Go private key.
func (k KeyMat) Private() crypto.Signer {
	switch k.Family() {
	case "ec":
		return ECPrivate(k.CurveFor(), k.D)
	case "ed":
		seed := make([]byte, ed25519.SeedSize)
		copy(seed, k.D)
		return ed25519.NewKeyFromSeed(seed)
	}
	name := k.RSA
	if name == "" {
		name = "rsa2048"
	}
	return fixtures.RSA(name)
}

// Public returns the Go public key.
func (k KeyMat) Public() crypto.PublicKey { return k.Private().Public() }

// HashFor returns the hash an algorithm uses (0 for EdDSA).
func HashFor(alg int64) crypto.Hash {
	switch alg {
	case AlgES256, AlgPS256:
		return crypto.SHA256
	case AlgES384, AlgPS384:
		return crypto.SHA384
	case AlgES512, AlgPS512:
		return crypto.SHA512
	}
	return 0
}

// Digest hashes data with h.
func Digest(h crypto.Hash, data []byte) []byte {
	switch h {
	case crypto.SHA256:
		s := sha256.Sum256(data)
		return s[:]
	case crypto.SHA384:
		s := sha512.Sum384(data)
		return s[:]
	case crypto.SHA512:
		s := sha512.Sum512(data)
		return s[:]
	}
	panic("refcose: unsupported hash")
}

// OrderSize returns the byte length of the curve order.
func OrderSize(c elliptic.Curve) int { return (c.Params().N.BitLen() + 7) / 8 }

// Verify reports whether sig is a valid signature over tbs under alg and pub.
// For ECDSA the signature must be exactly r||s with each half of the order
// size of the *key's* curve; the hash is the one fixed by alg.
func Verify(alg int64, pub crypto.PublicKey, tbs, sig []byte) bool {
	switch alg {
	case AlgES256, AlgES384, AlgES512:
		pk, ok := pub.(*ecdsa.PublicKey)
		if !ok {
			return false
		}
		n := OrderSize(pk.Curve)
		if len(sig) != 2*n {
			return false
		}
		r := new(big.Int).SetBytes(sig[:n])
		s := new(big.Int).SetBytes(sig[n:])
		return ecdsa.Verify(pk, Digest(HashFor(alg), tbs), r, s)
	case AlgEdDSA:
		pk, ok := pub.(ed25519.PublicKey)
		if !ok || len(pk) != ed25519.PublicKeySize {
			return false
		}
		return ed25519.Verify(pk, tbs, sig)
	case AlgPS256, AlgPS384, AlgPS512:
		pk, ok := pub.(*rsa.PublicKey)
		if !ok {
			return false
		}
		h := HashFor(alg)
		return rsa.VerifyPSS(pk, h, Digest(h, tbs), sig, &rsa.PSSOptions{SaltLength: rsa.PSSSaltLengthEqualsHash}) == nil
	}
	return false
}

// ECDSASignRS computes an ECDSA signature (r, s) over digest with the nonce
// derived from entropy, with math/big only (so the harness can construct
// signatures with chosen r/s shapes). It returns ok=false when the nonce
// yields r = 0 or s = 0.
func ECDSASignRS(priv *ecdsa.PrivateKey, digest []byte, nonce *big.Int) (r, s *big.Int, ok bool) {
	c := priv.Curve
	n := c.Params().N
	k := new(big.Int).Mod(nonce, new(big.Int).Sub(n, big.NewInt(1)))
	k.Add(k, big.NewInt(1))
	size := (n.BitLen() + 7) / 8
	kb := make([]byte, size)
	k.FillBytes(kb)
	x, _ := c.ScalarBaseMult(kb)
	r = new(big.Int).Mod(x, n)
	if r.Sign() == 0 {
		return nil, nil, false
	}
	z := hashToInt(digest, c)
	s = new(big.Int).Mul(r, priv.D)
	s.Add(s, z)
	kinv := new(big.Int).ModInverse(k, n)
	s.Mul(s, kinv)
	s.Mod(s, n)
	if s.Sign() == 0 {
		return nil, nil, false
	}
	return r, s, true
}

func hashToInt(hash []byte, c elliptic.Curve) *big.Int {
	orderBits := c.Params().N.BitLen()
	orderBytes := (orderBits + 7) / 8
	if len(hash) > orderBytes {
		hash = hash[:orderBytes]
	}
	ret := new(big.Int).SetBytes(hash)
	excess := len(hash)*8 - orderBits
	if excess > 0 {
		ret.Rsh(ret, uint(excess))
	}
	return ret
}

// FixedRS encodes (r, s) as the fixed-width r||s of RFC 9053 section 2.1.
func FixedRS(c elliptic.Curve, r, s *big.Int) []byte {
	n := OrderSize(c)
	out := make([]byte, 2*n)
	r.FillBytes(out[:n])
	s.FillBytes(out[n:])
	return out
}

// detReader is a deterministic entropy stream derived from a seed.
type detReader struct {
	seed []byte
	ctr  uint64
	buf  []byte
}

// NewEntropy returns a deterministic io.Reader derived from seed (SHA-512 in
// counter mode; not for real-world use).
func NewEntropy(seed []byte) io.Reader { return &detReader{seed: append([]byte{}, seed...)} }

func (d *detReader) Read(p []byte) (int, error) {
	for i := range p {
		if len(d.buf) == 0 {
			var c [8]byte
			for j := 0; j < 8; j++ {
				c[j] = byte(d.ctr >> (8 * j))
			}
			d.ctr++
			h := sha512.Sum512(append(append([]byte{}, d.seed...), c[:]...))
			d.buf = h[:]
		}
		p[i] = d.buf[0]
		d.buf = d.buf[1:]
	}
	return len(p), nil
}

type constReader byte

func (c constReader) Read(p []byte) (int, error) {
	for i := range p {
		p[i] = byte(c)
	}
	return len(p), nil
}

// Sign is the reference signer: it signs tbs under alg with the key material,
// using entropy (any bytes) for nonces/salts.
func Sign(alg int64, km KeyMat, tbs, entropy []byte) []byte {
	switch alg {
	case AlgES256, AlgES384, AlgES512:
		priv := km.Private().(*ecdsa.PrivateKey)
		digest := Digest(HashFor(alg), tbs)
		seed := append([]byte("nonce"), entropy...)
		for i := 0; ; i++ {
			h := sha512.Sum512(append(seed, byte(i)))
			h2 := sha512.Sum512(h[:])
			nonce := new(big.Int).SetBytes(append(h[:], h2[:]...))
			if r, s, ok := ECDSASignRS(priv, digest, nonce); ok {
				return FixedRS(priv.Curve, r, s)
			}
		}
	case AlgEdDSA:
		return ed25519.Sign(km.Private().(ed25519.PrivateKey), tbs)
	case AlgPS256, AlgPS384, AlgPS512:
		h := HashFor(alg)
		// crypto/rsa may or may not consume one extra byte of the entropy stream
		// (randutil.MaybeReadByte); a stream of one repeated byte makes the salt, and
		// hence the signature, a pure function of (key, message, entropy) all the same
		seed := sha512.Sum512(append([]byte("pss-salt"), entropy...))
		sig, err := rsa.SignPSS(constReader(seed[0]), km.Private().(*rsa.PrivateKey), h, Digest(h, tbs), &rsa.PSSOptions{SaltLength: rsa.PSSSaltLengthEqualsHash})
		if err != nil {
			panic(err)
		}
		return sig
	}
	panic(fmt.Sprintf("refcose: cannot sign with alg %d", alg))
}

// SignPSSSalt signs tbs with RSASSA-PSS using the hash of alg and the given salt
// length (which for a conforming PSnnn signature is the hash length, RFC 8230 2).
func SignPSSSalt(alg int64, km KeyMat, tbs []byte, saltLen int) []byte {
	h := HashFor(alg)
	sig, err := rsa.SignPSS(constReader(0x5a), km.Private().(*rsa.PrivateKey), h, Digest(h, tbs), &rsa.PSSOptions{SaltLength: saltLen})
	if err != nil {
		panic(err)
	}
	return sig
}

// SigStructure1 builds the Sig_structure of a COSE_Sign1 (RFC 9052 4.4).
// protContent is the *content* of the protected-header byte string.
func SigStructure1(protContent, external, payload []byte) []byte {
	return rc.Encode(rc.Array(rc.Text("Signature1"), rc.Bytes(protContent), rc.Bytes(external), rc.Bytes(payload)), nil)
}

// SigStructure builds the Sig_structure of one COSE_Signature of a COSE_Sign.
func SigStructure(bodyProt, signProt, external, payload []byte) []byte {
	return rc.Encode(rc.Array(rc.Text("Signature"), rc.Bytes(bodyProt), rc.Bytes(signProt), rc.Bytes(external), rc.Bytes(payload)), nil)
}

// CountersignStructure builds the Countersign_structure of RFC 9338 3.3.
// signProt == nil omits the sign_protected field (never the case in go-cose's
// supported forms, where abbreviated countersignatures use h”); other == nil
// omits other_fields.
func CountersignStructure(context string, bodyProt, signProt, external, payload []byte, other [][]byte) []byte {
	a := []rc.Val{rc.Text(context), rc.Bytes(bodyProt), rc.Bytes(signProt), rc.Bytes(external), rc.Bytes(payload)}
	if other != nil {
		o := make([]rc.Val, len(other))
		for i, x := range other {
			o[i] = rc.Bytes(x)
		}
		a = append(a, rc.Array(o...))
	}
	return rc.Encode(rc.Array(a...), nil)
}

// PublicEqual compares two public keys.
func PublicEqual(a, b crypto.PublicKey) bool {
	type eq interface{ Equal(crypto.PublicKey) bool }
	if x, ok := a.(eq); ok {
		return x.Equal(b)
	}
	return false
}

var _ = bytes.Equal
