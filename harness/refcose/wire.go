package refcose

import (
	"errors"
	"fmt"
	"strings"

	rc "verifharness/refcbor"
)

// Kind of COSE structure / decoder.
type Kind int

const (
	KSign1            Kind = iota // tag 18 + 4-array
	KSign1Untagged                // bare 4-array
	KSign                         // tag 98 + 4-array
	KSignature                    // 3-array (COSE_Signature and COSE_Countersignature)
	KCountersignature             // same wire shape as KSignature, separate decoder
	KProtected                    // bstr wrapping a header map (ProtectedHeader decoder)
	KUnprotected                  // header map (UnprotectedHeader decoder)
	NumKinds
)

func (k Kind) String() string {
	if k < 0 || k >= NumKinds {
		return [...]string{"Bytes", "Key"}[(-int(k)-1)%2]
	}
	return [...]string{"Sign1", "Sign1Untagged", "Sign", "Signature", "Countersignature", "ProtectedHeader", "UnprotectedHeader"}[k]
}

// Env is a structurally parsed COSE message / signature.
type Env struct {
	Kind    Kind
	Root    *rc.Node
	Arr     *rc.Node
	Prot    *rc.Node // bstr
	ProtMap *rc.Node // parsed content of Prot (nil when empty)
	Unprot  *rc.Node // map
	Payload *rc.Node // bstr or null (nil for signatures)
	Sig     *rc.Node // bstr (Sign1, Signature)
	SigsArr *rc.Node // signatures array (Sign)
	Sigs    []*Env   // COSE_Signature entries (Sign)
}

// ProtContent is the content of the protected byte string.
func (e *Env) ProtContent() []byte { return e.Prot.Content }

// PayloadBytes returns the payload and whether it is present (not nil).
func (e *Env) PayloadBytes() ([]byte, bool) {
	if e.Payload == nil || e.Payload.Major != 2 {
		return nil, false
	}
	return e.Payload.Content, true
}

// ParseEnv parses b as the given kind, checking only the shape that is needed
// to locate the fields (tag, arity, field major types). It is the lenient
// locator used by the signature oracles; WellFormed is the strict judge.
func ParseEnv(kind Kind, b []byte) (*Env, error) {
	n, err := rc.Parse(b)
	if err != nil {
		return nil, err
	}
	return envFromNode(kind, n)
}

func envFromNode(kind Kind, n *rc.Node) (*Env, error) {
	e := &Env{Kind: kind, Root: n}
	arr := n
	switch kind {
	case KSign1:
		if n.Major != 6 || n.Arg != 18 {
			return nil, errors.New("not tag 18")
		}
		arr = n.Child
	case KSign:
		if n.Major != 6 || n.Arg != 98 {
			return nil, errors.New("not tag 98")
		}
		arr = n.Child
	}
	want := 4
	if kind == KSignature || kind == KCountersignature {
		want = 3
	}
	if arr.Major != 4 || len(arr.Items) != want {
		return nil, fmt.Errorf("not a %d-array", want)
	}
	e.Arr = arr
	e.Prot = arr.Items[0]
	e.Unprot = arr.Items[1]
	if e.Prot.Major != 2 {
		return nil, errors.New("protected is not a bstr")
	}
	if len(e.Prot.Content) > 0 {
		pm, err := rc.Parse(e.Prot.Content)
		if err != nil {
			return nil, fmt.Errorf("protected content: %w", err)
		}
		e.ProtMap = pm
	}
	if e.Unprot.Major != 5 {
		return nil, errors.New("unprotected is not a map")
	}
	if want == 3 {
		e.Sig = arr.Items[2]
		if e.Sig.Major != 2 {
			return nil, errors.New("signature is not a bstr")
		}
		return e, nil
	}
	e.Payload = arr.Items[2]
	if e.Payload.Major != 2 && !e.Payload.IsNull() {
		return nil, errors.New("payload is not bstr / nil")
	}
	if kind == KSign {
		e.SigsArr = arr.Items[3]
		if e.SigsArr.Major != 4 {
			return nil, errors.New("signatures is not an array")
		}
		for _, s := range e.SigsArr.Items {
			se, err := envFromNode(KSignature, s)
			if err != nil {
				return nil, fmt.Errorf("signature entry: %w", err)
			}
			e.Sigs = append(e.Sigs, se)
		}
		return e, nil
	}
	e.Sig = arr.Items[3]
	if e.Sig.Major != 2 {
		return nil, errors.New("signature is not a bstr")
	}
	return e, nil
}

// AlgOf returns the alg value found in the protected map: present reports
// whether label 1 exists, isInt whether it is an integer within int64.
func (e *Env) AlgOf() (alg int64, present, isInt bool) {
	if e.ProtMap == nil || e.ProtMap.Major != 5 {
		return 0, false, false
	}
	v := e.ProtMap.Lookup(1)
	if v == nil {
		return 0, false, false
	}
	if !v.IsInt() {
		return 0, true, false
	}
	a, ok := v.Int64()
	return a, true, ok
}

// IllFormed describes the clause of the well-formedness statement that an
// input violates.
type IllFormed struct {
	Clause string // short stable identifier, used for root-cause keys (may carry a "sig[i]/" or "csig/" location prefix)
	Detail string
}

// Base returns the clause without its location prefixes.
func (e *IllFormed) Base() string {
	c := e.Clause
	if i := strings.LastIndex(c, "/"); i >= 0 {
		c = c[i+1:]
	}
	return c
}

func (e *IllFormed) Error() string { return e.Clause + ": " + e.Detail }

func ill(clause, format string, args ...any) *IllFormed {
	return &IllFormed{Clause: clause, Detail: fmt.Sprintf(format, args...)}
}

// WellFormed decides whether b is a well-formed COSE structure of the given
// kind exactly in the sense of property C05: one definite-length item of the
// decoder's own shape, nothing after it, no tags inside the envelope, payload
// bstr / nil, non-empty bstr signature(s), protected = bstr that is empty or
// wraps one map, unprotected = map, labels int64-range ints or text, no
// duplicate keys in any map, RFC 9052 section 3.1 rules in every layer
// including nested countersignatures. It returns nil or *IllFormed.
func WellFormed(kind Kind, b []byte) error {
	n, err := rc.Parse(b)
	if err != nil {
		if err == rc.ErrTrailing {
			return ill("trailing", "bytes after the item")
		}
		return ill("cbor", "%v", err)
	}
	switch kind {
	case KProtected:
		return wfProtected(n, nil)
	case KUnprotected:
		if n.Major != 5 {
			return ill("shape", "unprotected header must be a map")
		}
		// definite lengths and unique keys are judged on the item as received
		if e := wfEnvelopeItem(n, false); e != nil {
			return e
		}
		// the bare bucket decoder is not an envelope decoder: the CBOR library looks through tags in
		// its values, and the statement's "no tags" clause is about the envelope, so the parameter
		// rules are applied to the untagged content
		if root, err := rc.MParse(b, false); err == nil && root.Major == 5 {
			if rc.StripAllTags(&root) > 0 {
				if nn, err := rc.Parse(root.Enc()); err == nil {
					n = nn
				}
			}
		}
		return wfLayer(nil, n)
	}
	if e := wfEnvelopeItem(n, true); e != nil {
		return e
	}
	return wfStruct(kind, n)
}

// wfEnvelopeItem checks definite lengths, absence of tags (when noTags) and
// duplicate keys over the whole item, not looking inside byte strings.
func wfEnvelopeItem(n *rc.Node, noTags bool) error {
	var bad error
	first := true
	n.Walk(func(x *rc.Node) {
		if bad != nil {
			return
		}
		isRoot := first
		first = false
		if x.Indef {
			bad = ill("indefinite", "indefinite-length item at offset %d", x.Start)
			return
		}
		if x.Major == 6 && noTags && !isRoot {
			bad = ill("tag", "tag %d inside the envelope at offset %d", x.Arg, x.Start)
			return
		}
	})
	if bad != nil {
		return bad
	}
	if d, k := rc.HasDupKeys(n); d {
		return dupIll(k)
	}
	return nil
}

func dupIll(k *rc.Node) *IllFormed {
	what := "dup-key"
	if isNaNKey(k) {
		what = "dup-key-nan"
	}
	return ill(what, "duplicate map key at offset %d (%x)", k.Start, k.Raw())
}

// isNaNKey reports whether k is a floating-point NaN of any width.
func isNaNKey(k *rc.Node) bool {
	if k.Major != 7 {
		return false
	}
	switch k.AI {
	case 25:
		return k.Arg&0x7c00 == 0x7c00 && k.Arg&0x03ff != 0
	case 26:
		return k.Arg&0x7f800000 == 0x7f800000 && k.Arg&0x007fffff != 0
	case 27:
		return k.Arg&0x7ff0000000000000 == 0x7ff0000000000000 && k.Arg&0x000fffffffffffff != 0
	}
	return false
}

func wfStruct(kind Kind, n *rc.Node) error {
	arr := n
	switch kind {
	case KSign1:
		if n.Major != 6 || n.Arg != 18 {
			return ill("shape", "expected tag 18")
		}
		arr = n.Child
	case KSign:
		if n.Major != 6 || n.Arg != 98 {
			return ill("shape", "expected tag 98")
		}
		arr = n.Child
	default:
		if n.Major == 6 {
			return ill("shape", "unexpected tag %d", n.Arg)
		}
	}
	want := 4
	if kind == KSignature || kind == KCountersignature {
		want = 3
	}
	if arr.Major != 4 || len(arr.Items) != want {
		return ill("shape", "expected array of %d", want)
	}
	prot, unprot := arr.Items[0], arr.Items[1]
	if e := wfProtected(prot, unprot); e != nil {
		return e
	}
	if want == 3 {
		return wfSigBytes(arr.Items[2])
	}
	pl := arr.Items[2]
	if pl.Major != 2 && !pl.IsNull() {
		return ill("payload", "payload must be bstr or nil")
	}
	if kind == KSign {
		sa := arr.Items[3]
		if sa.Major != 4 {
			return ill("signatures", "signatures must be an array")
		}
		if len(sa.Items) == 0 {
			return ill("signatures", "no signatures")
		}
		for i, s := range sa.Items {
			if e := wfStruct(KSignature, s); e != nil {
				ie := e.(*IllFormed)
				return ill("sig["+fmt.Sprint(i)+"]/"+ie.Clause, "%s", ie.Detail)
			}
		}
		return nil
	}
	return wfSigBytes(arr.Items[3])
}

func wfSigBytes(s *rc.Node) error {
	if s.Major != 2 {
		return ill("signature", "signature must be a bstr")
	}
	if len(s.Content) == 0 {
		return ill("signature", "empty signature")
	}
	return nil
}

// wfProtected checks a protected bstr (and the layer rules together with the
// unprotected map of the same layer when given).
func wfProtected(prot, unprot *rc.Node) error {
	if prot.Major != 2 || prot.Indef {
		return ill("protected", "protected header must be a definite bstr")
	}
	var pm *rc.Node
	if len(prot.Content) > 0 {
		var err error
		pm, err = rc.Parse(prot.Content)
		if err != nil {
			if err == rc.ErrTrailing {
				return ill("protected", "trailing bytes inside the protected bstr")
			}
			return ill("protected", "content: %v", err)
		}
		if pm.Major != 5 {
			return ill("protected", "content is not a map")
		}
		if d, k := rc.HasDupKeys(pm); d {
			return dupIll(k)
		}
	}
	if unprot != nil && unprot.Major != 5 {
		return ill("unprotected", "unprotected header must be a map")
	}
	return wfLayer(pm, unprot)
}

func labelOK(k *rc.Node) bool {
	if k.IsInt() {
		_, ok := k.Int64()
		return ok
	}
	return k.Major == 3
}

// Registered header labels.
const (
	LAlg     = 1
	LCrit    = 2
	LCty     = 3
	LKid     = 4
	LIV      = 5
	LPIV     = 6
	LCsig    = 7
	LCsig0   = 9
	LCsig2   = 11
	LCs02    = 12
	LCWT     = 15
	LTyp     = 16
	LHashAlg = 258
	LPreCty  = 259
	LLoc     = 260
)

// typeSubtype: RFC 9052 3.1 on the textual form of content type / typ: "type/subtype" and "Leading and trailing
// whitespace is not permitted". Whitespace is taken narrowly here (SP, HTAB, LF, VT, FF, CR - the ASCII set), so the
// reference is never stricter than the text; what else the library refuses (a second "/", Unicode spaces) is its business.
func typeSubtype(v *rc.Node) bool {
	if v.Major != 3 || !strings.Contains(string(v.Content), "/") {
		return false
	}
	c := v.Content
	ws := func(b byte) bool { return b == ' ' || (b >= 9 && b <= 13) }
	if ws(c[0]) || ws(c[len(c)-1]) {
		return false
	}
	// "type/subtype": the media type proper ends at the first ";" (parameters may hold a "/" of their own, F20); it
	// has a "/" with something on either side (F24). Which characters a name may hold is not looked at.
	mt, _, _ := strings.Cut(string(c), ";")
	mt = strings.TrimRight(mt, " \t")
	i := strings.Index(mt, "/")
	return i > 0 && i < len(mt)-1
}

// wfLayer applies the section 3.1 rules to one layer (either bucket may be nil).
func wfLayer(pm, um *rc.Node) error {
	has := func(m *rc.Node, l int64) bool { return m != nil && m.Lookup(l) != nil }
	for bi, m := range []*rc.Node{pm, um} {
		if m == nil {
			continue
		}
		protected := bi == 0
		bucket := "unprotected"
		if protected {
			bucket = "protected"
		}
		for i, k := range m.Keys {
			if !labelOK(k) {
				return ill("label", "%s label at offset %d is not int64 / tstr", bucket, k.Start)
			}
			if !k.IsInt() {
				continue
			}
			l, _ := k.Int64()
			v := m.Vals[i]
			switch l {
			case LAlg:
				if !v.IsInt() && v.Major != 3 {
					return ill("alg", "%s alg must be int / tstr", bucket)
				}
			case LCrit:
				if !protected {
					return ill("crit", "crit in unprotected")
				}
				if v.Major != 4 || len(v.Items) == 0 {
					return ill("crit", "crit must be a non-empty array")
				}
				for _, c := range v.Items {
					if !c.IsInt() && c.Major != 3 {
						return ill("crit", "crit entry is not a label")
					}
					found := false
					ck := c.CanonKey()
					for _, pk := range m.Keys {
						if pk.CanonKey() == ck {
							found = true
						}
					}
					if !found {
						return ill("crit", "critical label %s missing from protected", rc.FromNode(c))
					}
				}
			case LCty, LTyp:
				if v.Major != 0 && !typeSubtype(v) {
					return ill("cty", "label %d must be uint or type/subtype text", l)
				}
			case LKid, LIV, LPIV:
				if v.Major != 2 {
					return ill("bstr-param", "label %d must be bstr", l)
				}
			case LCsig0, LCs02:
				if v.Major != 2 {
					return ill("bstr-param", "label %d must be bstr", l)
				}
				if protected {
					return ill("csig-bucket", "abbreviated countersignature in protected")
				}
			case LCsig, LCsig2:
				if protected {
					return ill("csig-bucket", "countersignature in protected")
				}
				if e := wfCountersigValue(v); e != nil {
					return e
				}
			}
		}
	}
	if (has(pm, LIV) || has(um, LIV)) && (has(pm, LPIV) || has(um, LPIV)) {
		return ill("iv", "IV and Partial IV in one layer")
	}
	return nil
}

// wfCountersigValue: COSE_Countersignature / [+ COSE_Countersignature].
func wfCountersigValue(v *rc.Node) error {
	if v.Major != 4 {
		return ill("csig-value", "countersignature value is not an array")
	}
	// a single countersignature is a 3-array whose first element is a bstr;
	// a list is an array of arrays.
	if len(v.Items) == 3 && v.Items[0].Major == 2 {
		if e := wfStruct(KSignature, v); e != nil {
			ie := e.(*IllFormed)
			return ill("csig/"+ie.Clause, "%s", ie.Detail)
		}
		return nil
	}
	if len(v.Items) == 0 {
		return ill("csig-value", "empty countersignature list")
	}
	for _, c := range v.Items {
		if c.Major != 4 {
			return ill("csig-value", "countersignature list entry is not an array")
		}
		if e := wfStruct(KSignature, c); e != nil {
			ie := e.(*IllFormed)
			return ill("csig/"+ie.Clause, "%s", ie.Detail)
		}
	}
	return nil
}
