// Package gen holds the rapid generators: abstract values, header maps, key
// material, encoder choices, messages and mutators. Every random choice is a
// rapid draw so that failures shrink and replay.
package gen

import (
	"math"
	"unicode/utf8"

	"pgregory.net/rapid"

	rc "verifharness/refcbor"
	"verifharness/refcose"
)

// RChooser is the "peer encoder": head widths and map orders drawn by rapid.
type RChooser struct {
	T    *rapid.T
	Free bool
	// statistics of choices actually made
	NonMinimal int
	Permuted   int
}

func (c *RChooser) Width(min int) int {
	if !c.Free {
		return min
	}
	if rapid.IntRange(0, 4).Draw(c.T, "wbias") != 0 {
		return min
	}
	var ok []int
	for _, o := range []int{0, 1, 2, 4, 8} {
		if o >= min {
			ok = append(ok, o)
		}
	}
	w := rapid.SampledFrom(ok).Draw(c.T, "w")
	if w != min {
		c.NonMinimal++
	}
	return w
}

func (c *RChooser) Perm(n int) []int {
	p := make([]int, n)
	for i := range p {
		p[i] = i
	}
	if !c.Free || n < 2 {
		return p
	}
	if rapid.IntRange(0, 2).Draw(c.T, "permbias") == 0 {
		return p
	}
	q := rapid.Permutation(p).Draw(c.T, "perm")
	c.Permuted++
	return q
}

// BoundaryLen draws a length biased to the CBOR head boundaries.
func BoundaryLen(t *rapid.T, label string, allowHuge bool) int {
	switch rapid.IntRange(0, 9).Draw(t, label+"-class") {
	case 0:
		return 0
	case 1:
		return rapid.SampledFrom([]int{1, 23, 24, 25}).Draw(t, label+"-b1")
	case 2:
		return rapid.SampledFrom([]int{255, 256, 257}).Draw(t, label+"-b2")
	case 3:
		if allowHuge && rapid.IntRange(0, 3).Draw(t, label+"-huge") == 0 {
			return rapid.SampledFrom([]int{65535, 65536}).Draw(t, label+"-b3")
		}
		return rapid.IntRange(0, 600).Draw(t, label+"-mid")
	}
	return rapid.IntRange(0, 64).Draw(t, label+"-small")
}

// Blob draws n bytes cheaply (a drawn seed byte expanded), so that long
// payloads do not consume the shrinker's attention.
func Blob(t *rapid.T, label string, n int) []byte {
	if n <= 32 {
		return rapid.SliceOfN(rapid.Byte(), n, n).Draw(t, label)
	}
	seed := rapid.SliceOfN(rapid.Byte(), 4, 4).Draw(t, label+"-seed")
	out := make([]byte, n)
	x := uint32(seed[0]) | uint32(seed[1])<<8 | uint32(seed[2])<<16 | uint32(seed[3])<<24 | 1
	for i := range out {
		x ^= x << 13
		x ^= x >> 17
		x ^= x << 5
		out[i] = byte(x)
	}
	return out
}

// ValOpts tunes value generation.
type ValOpts struct {
	Depth      int
	Floats     bool // allow finite floats
	NaN        bool // allow NaN / Inf floats
	Tags       bool // allow unassigned tags
	BstrKeys   bool // allow byte-string keys in nested maps
	Spellings  bool // randomise Go integer spellings
	BigInts    bool // allow full 64-bit magnitudes (still within int64)
	InvalidUTF bool
}

func spelling(t *rapid.T, o ValOpts) uint8 {
	if !o.Spellings {
		return 0
	}
	return uint8(rapid.IntRange(0, rc.NumSpellings-1).Draw(t, "sp"))
}

// Int64Val draws an int64-range integer value.
func Int64Val(t *rapid.T, o ValOpts) rc.Val {
	var i int64
	switch rapid.IntRange(0, 5).Draw(t, "intclass") {
	case 0:
		i = int64(rapid.IntRange(-25, 25).Draw(t, "i-small"))
	case 1:
		i = rapid.SampledFrom([]int64{23, 24, -24, -25, 255, 256, -256, -257, 65535, 65536, -65536, -65537, 1<<32 - 1, 1 << 32, -1 << 32, -1<<32 - 1, math.MaxInt64, math.MinInt64}).Draw(t, "i-bound")
	case 2:
		if o.BigInts {
			i = rapid.Int64().Draw(t, "i-any")
		} else {
			i = int64(rapid.Int32().Draw(t, "i-32"))
		}
	default:
		i = int64(rapid.IntRange(-1000, 70000).Draw(t, "i-mid"))
	}
	return rc.IntSp(i, spelling(t, o))
}

// TextVal draws a text string (valid UTF-8).
func TextVal(t *rapid.T) rc.Val {
	switch rapid.IntRange(0, 4).Draw(t, "textclass") {
	case 0:
		return rc.Text("")
	case 1:
		s := rapid.String().Draw(t, "text-any")
		if !utf8.ValidString(s) {
			s = "x"
		}
		return rc.Text(s)
	case 2:
		n := BoundaryLen(t, "textlen", false)
		b := make([]byte, n)
		for i := range b {
			b[i] = 'a' + byte(i%26)
		}
		return rc.Text(string(b))
	}
	return rc.Text(rapid.StringMatching(`[a-z0-9/ .-]{0,16}`).Draw(t, "text"))
}

// Leaf draws a non-container value.
func Leaf(t *rapid.T, o ValOpts) rc.Val {
	hi := 6
	if o.Floats {
		hi = 7
	}
	switch rapid.IntRange(0, hi).Draw(t, "leaf") {
	case 0, 1:
		v := Int64Val(t, o)
		if o.Spellings && rapid.IntRange(0, 7).Draw(t, "held-as-big.Int") == 0 {
			// a number that fits 64 bits but is held as big.Int / *big.Int by the caller
			v.Sp = rapid.SampledFrom([]uint8{rc.SpBigInt, rc.SpBigIntPtr, rc.SpTime}).Draw(t, "bigsp")
		}
		return v
	case 2:
		return rc.Bytes(Blob(t, "bytes", BoundaryLen(t, "byteslen", false)))
	case 3:
		return TextVal(t)
	case 4:
		return rc.Bool(rapid.Bool().Draw(t, "bool"))
	case 5:
		return rc.Null
	case 6:
		return rc.Bytes(rapid.SliceOfN(rapid.Byte(), 0, 8).Draw(t, "shortbytes"))
	}
	if o.NaN && rapid.IntRange(0, 3).Draw(t, "nanclass") == 0 {
		return rc.Float(rapid.SampledFrom([]float64{math.NaN(), math.Inf(1), math.Inf(-1)}).Draw(t, "nan"))
	}
	f := rapid.Float64().Draw(t, "float")
	if math.IsNaN(f) || math.IsInf(f, 0) {
		f = 1.5
	}
	return rc.Float(f)
}

// Value draws a value of nesting depth at most o.Depth.
func Value(t *rapid.T, o ValOpts) rc.Val {
	if o.Depth <= 0 || rapid.IntRange(0, 3).Draw(t, "nest") != 0 {
		return Leaf(t, o)
	}
	o.Depth--
	switch rapid.IntRange(0, 2).Draw(t, "container") {
	case 0:
		n := rapid.IntRange(0, 5).Draw(t, "arrlen")
		a := make([]rc.Val, n)
		for i := range a {
			a[i] = Value(t, o)
		}
		return rc.Array(a...)
	case 1:
		return NestedMap(t, o)
	}
	if o.Tags {
		// unassigned / harmless tag numbers (not 0-5, 21-24, 32-36, 55799 ...)
		tag := rapid.SampledFrom([]uint64{6, 7, 63, 100, 1000, 65536, 1 << 40}).Draw(t, "tagnum")
		return rc.Tag(tag, Value(t, o))
	}
	return Leaf(t, o)
}

// NestedMap draws a map value with unique int / tstr (/ bstr) keys.
func NestedMap(t *rapid.T, o ValOpts) rc.Val {
	n := rapid.IntRange(0, 5).Draw(t, "maplen")
	taken := map[string]bool{}
	var m []rc.KV
	for i := 0; i < n; i++ {
		var k rc.Val
		switch rapid.IntRange(0, 3).Draw(t, "keykind") {
		case 0, 1:
			k = Int64Val(t, o)
		case 2:
			k = rc.Text(rapid.StringMatching(`[a-z]{0,6}`).Draw(t, "keytext"))
		default:
			if o.BstrKeys {
				k = rc.Bytes(rapid.SliceOfN(rapid.Byte(), 0, 4).Draw(t, "keybytes"))
			} else {
				k = rc.Text(rapid.StringMatching(`[A-Z]{1,3}`).Draw(t, "keytext2"))
			}
		}
		id := string(rc.Encode(k, nil))
		if taken[id] {
			continue
		}
		taken[id] = true
		m = append(m, rc.KV{K: k, V: Value(t, o)})
	}
	return rc.Map(m...)
}

// Registered integer labels with rules (unknown labels must avoid them).
var Registered = []int64{1, 2, 3, 4, 5, 6, 7, 9, 11, 12, 15, 16, 32, 33, 34, 35, 258, 259, 260}

func isRegistered(i int64) bool {
	for _, r := range Registered {
		if r == i {
			return true
		}
	}
	return false
}

// UnknownLabel draws a label without registered meaning.
func UnknownLabel(t *rapid.T, o ValOpts) rc.Val {
	if rapid.IntRange(0, 3).Draw(t, "labelkind") == 0 {
		switch rapid.IntRange(0, 3).Draw(t, "tlabelclass") {
		case 0:
			return rc.Text(rapid.StringMatching(`[a-z]{0,8}`).Draw(t, "tlabel"))
		case 1:
			return rc.Text(rapid.SampledFrom([]string{"", "alg", "1", "é", "日本", "a/b", " x "}).Draw(t, "tlabel-odd"))
		default:
			return rc.Text(rapid.StringMatching(`[a-zA-Z0-9_-]{1,30}`).Draw(t, "tlabel-long"))
		}
	}
	for {
		v := Int64Val(t, o)
		i, _ := v.Int64()
		if !isRegistered(i) {
			return v
		}
	}
}

// HeaderOpts tunes header generation.
type HeaderOpts struct {
	Val          ValOpts
	MaxEntries   int    // unknown-label entries
	Alg          *int64 // alg value to place in protected (nil: none)
	AlgSpell     bool   // spell alg value as cose.Algorithm sometimes
	NoRegistered bool
	NoCty        bool // never generate content type (label 3): hash envelopes forbid it
	PadBoundary  bool // sometimes pad the protected map so that its deterministic encoding has exactly 23/24/255/256/65535/65536 bytes
	PadHuge      bool // allow the 65535/65536 targets
}

// PadMapTo adds a "pad…" text-labelled byte string to map m so that its
// deterministic encoding has exactly target bytes; ok=false if unreachable.
func PadMapTo(m rc.Val, target int) (rc.Val, bool) {
	for _, label := range []string{"pad", "padd", "paddd", "padddd"} {
		dup := false
		for _, e := range m.M {
			if e.K.K == rc.KText && string(e.K.B) == label {
				dup = true
			}
		}
		if dup {
			continue
		}
		base := len(rc.Encode(m.With(rc.Text(label), rc.Bytes(nil)), nil))
		for delta := 0; delta <= 8; delta++ {
			n := target - base - delta
			if n < 0 {
				break
			}
			c := m.With(rc.Text(label), rc.Bytes(make([]byte, n)))
			if len(rc.Encode(c, nil)) == target {
				return c, true
			}
		}
	}
	return m, false
}

func padTarget(t *rapid.T, huge bool) int {
	if huge && rapid.IntRange(0, 5).Draw(t, "pad-huge") == 0 {
		return rapid.SampledFrom([]int{65535, 65536}).Draw(t, "pad-target-huge")
	}
	return rapid.SampledFrom([]int{23, 24, 255, 255, 256}).Draw(t, "pad-target")
}

// MediaType draws a conforming type/subtype string.
func MediaType(t *rapid.T) string {
	s := rapid.StringMatching(`[a-z]{1,8}/[a-z0-9.+-]{1,12}`).Draw(t, "mediatype")
	switch rapid.IntRange(0, 7).Draw(t, "mtparam") {
	case 0:
		s += "; charset=" + rapid.StringMatching(`[a-z0-9-]{1,6}`).Draw(t, "mtcharset")
	case 1:
		// RFC 9110 5.6.6: optional whitespace around the ";" of a parameter, several parameters, quoted values,
		// upper case - all of it one type "/" subtype with parameters
		s = rapid.SampledFrom([]string{"text/plain ; charset=utf-8", "text/plain;charset=utf-8", "text/plain \t; charset=utf-8", "Text/Plain; Charset=UTF-8",
			"application/cose; cose-type=\"cose-sign1\"", "application/x.y+cbor;a=1;b=2", "application/cbor; q=\"a b\" ; v=1", "a/b;", "a/b ;x",
			"multipart/signed; protocol=\"application/pkcs7-signature\"", "multipart/related; type=application/xml; start=\"<a/b>\"", "application/cose; note=/", "text/plain; title=\"\u00dcbersicht\"", "text/plain; t=\u4e2d\u6587; u=\U0001f600", "application/x; a=\u00ff"}).Draw(t, "mtodd")
	}
	return s
}

func ctyValue(t *rapid.T, o ValOpts) rc.Val {
	if rapid.Bool().Draw(t, "cty-uint") {
		v := Int64Val(t, o)
		i, _ := v.Int64()
		if i < 0 {
			if i == math.MinInt64 {
				i = 0
			}
			v = rc.IntSp(-i, v.Sp)
		}
		return v
	}
	return rc.Text(MediaType(t))
}

// entryCount draws the number of unknown entries with a bias towards small
// maps but a real chance of dozens.
func entryCount(t *rapid.T, max int) int {
	switch rapid.IntRange(0, 5).Draw(t, "sizeclass") {
	case 0:
		return 0
	case 1:
		if max > 10 {
			return rapid.IntRange(10, max).Draw(t, "n-large")
		}
	}
	if max > 5 {
		max = 5
	}
	return rapid.IntRange(0, max).Draw(t, "n")
}

// Headers draws a conforming pair of header buckets: unique labels per
// bucket, registered parameters with rule-conforming values and placement.
// Countersignature parameters (7/11/9/12) are not generated here (message
// builders add them with real signatures).
func Headers(t *rapid.T, o HeaderOpts) (prot, unprot rc.Val) {
	prot, unprot = rc.Map(), rc.Map()
	takenP, takenU := map[string]bool{}, map[string]bool{}
	add := func(m *rc.Val, taken map[string]bool, k, v rc.Val) bool {
		id := string(rc.Encode(k, nil))
		if taken[id] {
			return false
		}
		taken[id] = true
		m.M = append(m.M, rc.KV{K: k, V: v})
		return true
	}
	lab := func(l int64) rc.Val { return rc.IntSp(l, spelling(t, o.Val)) }

	np := entryCount(t, o.MaxEntries)
	po := o.Val
	for i := 0; i < np; i++ {
		add(&prot, takenP, UnknownLabel(t, po), Value(t, po))
	}
	uo := o.Val
	uo.Tags = false // tags are not allowed in the envelope / unprotected values
	nu := entryCount(t, o.MaxEntries)
	for i := 0; i < nu; i++ {
		add(&unprot, takenU, UnknownLabel(t, uo), Value(t, uo))
	}
	if o.Alg != nil {
		av := rc.IntSp(*o.Alg, spelling(t, o.Val))
		if o.AlgSpell && rapid.Bool().Draw(t, "alg-typed") {
			av.Sp = rc.SpAlgorithm
		}
		add(&prot, takenP, lab(1), av)
	}
	if o.NoRegistered {
		return
	}
	pick := func(name string) bool { return rapid.IntRange(0, 3).Draw(t, name) == 0 }
	bucket := func(name string) (*rc.Val, map[string]bool) {
		if rapid.Bool().Draw(t, name+"-bucket") {
			return &prot, takenP
		}
		return &unprot, takenU
	}
	if pick("kid") {
		m, tk := bucket("kid")
		add(m, tk, lab(4), rc.Bytes(Blob(t, "kid", BoundaryLen(t, "kidlen", false))))
	}
	if !o.NoCty && pick("cty") {
		m, tk := bucket("cty")
		add(m, tk, lab(3), ctyValue(t, o.Val))
	}
	if pick("typ") {
		m, tk := bucket("typ")
		add(m, tk, lab(16), ctyValue(t, o.Val))
	}
	if pick("iv") {
		m, tk := bucket("iv")
		l := int64(5)
		if rapid.Bool().Draw(t, "piv") {
			l = 6
		}
		add(m, tk, lab(l), rc.Bytes(rapid.SliceOfN(rapid.Byte(), 0, 16).Draw(t, "ivbytes")))
	}
	if pick("cwt") {
		claims := rc.Map(rc.E(rc.Int(1), rc.Text("iss")), rc.E(rc.Int(2), rc.Text(rapid.StringMatching(`[a-z]{0,10}`).Draw(t, "sub"))))
		if rapid.IntRange(0, 2).Draw(t, "cwt-times") == 0 {
			// exp / nbf / iat: long past, far future, zero - a COSE layer carries them, it does not judge them
			for _, l := range []int64{4, 5, 6} {
				claims.M = append(claims.M, rc.E(rc.Int(l), rc.Int(rapid.SampledFrom([]int64{0, 1, 1000000000, 4102444800, 253402300800}).Draw(t, "cwt-time"))))
			}
		}
		if rapid.IntRange(0, 3).Draw(t, "cwt-unprotected") == 0 {
			// (RFC 9597 puts the claims into the protected bucket; the library takes them in either)
			add(&unprot, takenU, lab(15), claims)
		} else {
			add(&prot, takenP, lab(15), claims)
		}
	}
	if pick("x5") {
		m, tk := bucket("x5")
		l := rapid.SampledFrom([]int64{32, 33, 34, 35}).Draw(t, "x5label")
		add(m, tk, lab(l), Value(t, uo))
	}
	if o.PadBoundary && rapid.IntRange(0, 5).Draw(t, "pad-protected") == 0 {
		if p, ok := PadMapTo(prot, padTarget(t, o.PadHuge)); ok {
			prot = p
			takenP[string(rc.Encode(prot.M[len(prot.M)-1].K, nil))] = true
		}
	}
	if pick("crit") && len(prot.M) > 0 {
		// crit lists a non-empty subset of the labels present in protected
		idx := rapid.IntRange(0, len(prot.M)-1).Draw(t, "crit-first")
		entries := []rc.Val{critRef(t, prot.M[idx].K, o.Val)}
		if len(prot.M) > 1 && rapid.Bool().Draw(t, "crit-two") {
			// (the same label may be listed twice: crit = [+ label], each present)
			j := rapid.IntRange(0, len(prot.M)-1).Draw(t, "crit-second")
			entries = append(entries, critRef(t, prot.M[j].K, o.Val))
			if rapid.IntRange(0, 3).Draw(t, "crit-three") == 0 {
				entries = append(entries, critRef(t, prot.M[idx].K, o.Val))
			}
		}
		add(&prot, takenP, lab(2), rc.Array(entries...))
	}
	return
}

// critRef makes a crit entry referring to label k, possibly with another Go
// spelling of the same integer.
func critRef(t *rapid.T, k rc.Val, o ValOpts) rc.Val {
	c := k.Clone()
	if c.K == rc.KInt {
		c.Sp = spelling(t, o)
	}
	return c
}

// KeyMat draws key material for alg. Private scalars / seeds are drawn bytes.
func KeyMat(t *rapid.T, alg int64) refcose.KeyMat {
	km := refcose.KeyMat{Alg: alg}
	switch km.Family() {
	case "ec":
		km.D = rapid.SliceOfN(rapid.Byte(), 8, 8).Draw(t, "ec-d")
	case "ed":
		km.D = rapid.SliceOfN(rapid.Byte(), 32, 32).Draw(t, "ed-seed")
	default:
		// (2049 / 2055 bits: moduli whose length is no whole number of bytes - signatures are 257 bytes long)
		km.RSA = rapid.SampledFrom([]string{"rsa2048", "rsa2048b", "rsa3072", "rsa4096", "rsa2049", "rsa2055"}).Draw(t, "rsa-key")
	}
	return km
}

// Alg draws one of the seven built-in algorithms, weighted towards the cheap
// ones (RSA-4096 / P-521 are slow) while keeping every algorithm frequent.
func Alg(t *rapid.T) int64 {
	return rapid.SampledFrom([]int64{
		refcose.AlgEdDSA, refcose.AlgEdDSA, refcose.AlgEdDSA,
		refcose.AlgES256, refcose.AlgES256, refcose.AlgES256,
		refcose.AlgES384, refcose.AlgES512,
		refcose.AlgPS256, refcose.AlgPS384, refcose.AlgPS512,
	}).Draw(t, "alg")
}
