package gen

import (
	"pgregory.net/rapid"

	rc "verifharness/refcbor"
	"verifharness/refcose"
	"verifharness/stats"
)

// Coincidences: independently drawn fields almost never have equal or specially related contents, and
// code that compares, looks up, deduplicates or keys something by content is exactly where such a relation
// matters. coincide rewrites a drawn (conforming) message so that one such relation holds; the message stays
// conforming. Every relation is a rapid draw, so it shrinks and replays with the case.

// a small valid COSE_Sign1 (tag 18, alg ES256, payload "test", 64-octet signature of zeros) and a COSE_Key, to
// be carried as payload or as a header value
var lookalikeSign1 = append([]byte{0xd2, 0x84, 0x43, 0xa1, 0x01, 0x26, 0xa0, 0x44, 't', 'e', 's', 't', 0x58, 0x40}, make([]byte, 64)...)
var lookalikeKey = []byte{0xa3, 0x01, 0x01, 0x20, 0x06, 0x21, 0x58, 0x20, 1, 2, 3, 4, 5, 6, 7, 8, 9, 10, 11, 12, 13, 14, 15, 16, 17, 18, 19, 20, 21, 22, 23, 24, 25, 26, 27, 28, 29, 30, 31, 32}

func layerHas(prot, unprot rc.Val, l int64) bool { return prot.Has(l) || unprot.Has(l) }

// setKid places kid in the unprotected bucket of a layer unless the layer's protected bucket already names one.
func setKid(prot rc.Val, unprot *rc.Val, kid []byte) bool {
	if prot.Has(4) {
		return false
	}
	*unprot = unprot.Without(4).With(rc.Int(4), rc.Bytes(kid))
	return true
}

func setAlg(prot *rc.Val, alg int64) {
	for i, e := range prot.M {
		if l, ok := e.K.Int64(); ok && l == 1 {
			sp := e.V.Sp
			prot.M[i].V = rc.IntSp(alg, sp)
			return
		}
	}
}

func coincide(t *rapid.T, m *MsgSpec, o MsgOpts) {
	if o.NoCoincide || rapid.IntRange(0, 2).Draw(t, "coincide") != 0 {
		return
	}
	done := func(name string) { stats.Class("coincidence/" + name) }
	kind := rapid.IntRange(0, 11).Draw(t, "coincidence")
	if m.Kind == refcose.KSign && len(m.Sigs) >= 2 && rapid.Bool().Draw(t, "coincidence-among-signers") {
		kind = rapid.SampledFrom([]int{5, 5, 6, 9}).Draw(t, "signer-coincidence")
	}
	switch kind {
	case 0: // payload equals the external data
		if len(m.External) > 0 && len(o.PayloadLens) == 0 {
			m.Payload = append(rc.Hex{}, m.External...)
			done("payload=external")
		}
	case 1: // the payload is itself an encoded COSE structure / a piece of a Sig_structure
		if len(o.PayloadLens) == 0 {
			m.Payload = append(rc.Hex{}, rapid.SampledFrom([][]byte{lookalikeSign1, lookalikeKey, {0xd2}, {0xd8, 0x62, 0x84}, {0x84, 0x40, 0xa0, 0xf6, 0x41, 0x00},
				append([]byte{0x6a}, "Signature1"...), append([]byte{0x84, 0x6a}, "Signature1"...), {0x40}, {0xa0}, {0xf6}}).Draw(t, "lookalike")...)
			done("payload-is-cose")
		}
	case 2: // the payload is the body's protected header encoding
		if len(o.PayloadLens) == 0 && len(m.Prot.M) > 0 {
			m.Payload = rc.Encode(m.Prot, nil)
			done("payload=protected")
		}
	case 3: // kid equals the payload (prefix) / the external data
		src := []byte(m.Payload)
		if len(m.External) > 0 && rapid.Bool().Draw(t, "kid-from-ext") {
			src = m.External
		}
		if len(src) > 48 {
			src = src[:48]
		}
		if setKid(m.Prot, &m.Unprot, src) {
			done("kid=content")
		}
	case 4: // every layer carries the same kid
		kid := rapid.SliceOfN(rapid.Byte(), 0, 6).Draw(t, "shared-kid")
		n := 0
		if setKid(m.Prot, &m.Unprot, kid) {
			n++
		}
		if m.Kind == refcose.KSign {
			for i := range m.Sigs {
				if setKid(m.Sigs[i].Prot, &m.Sigs[i].Unprot, kid) {
					n++
				}
			}
		}
		for gi := range m.Groups {
			if m.Groups[gi].Abbrev() {
				continue
			}
			for ci := range m.Groups[gi].Items {
				c := &m.Groups[gi].Items[ci]
				if setKid(c.Prot, &c.Unprot, kid) {
					n++
				}
			}
		}
		if n >= 2 {
			done("same-kid-in-layers")
		}
	case 5: // two signers of a COSE_Sign are identical (key and headers)
		if m.Kind == refcose.KSign && len(m.Sigs) >= 2 {
			i := rapid.IntRange(0, len(m.Sigs)-1).Draw(t, "twin-src")
			j := rapid.IntRange(0, len(m.Sigs)-1).Draw(t, "twin-dst")
			if i > j {
				i, j = j, i
			}
			if i != j && m.Sigs[i].TwinOf == 0 {
				if rapid.Bool().Draw(t, "twin-eddsa") && o.FixedAlg == nil {
					// a deterministic algorithm: the two entries come out byte for byte identical
					m.Sigs[i].Key, m.Sigs[i].ViaKey = KeyMat(t, refcose.AlgEdDSA), false
					setAlg(&m.Sigs[i].Prot, refcose.AlgEdDSA)
					m.Sigs[i].Groups = nil
					stats.Class("coincidence/twin-signers-deterministic")
				}
				m.Sigs[i].Groups = nil
				s := m.Sigs[i]
				m.Sigs[j] = SigSpec{Key: s.Key, ViaKey: s.ViaKey, Prot: s.Prot.Clone(), Unprot: s.Unprot.Clone(), NoAlg: s.NoAlg, Inject: s.Inject, TwinOf: i + 1}
				done("twin-signers")
			}
		}
	case 6: // two signers share the key but not the headers
		if m.Kind == refcose.KSign && len(m.Sigs) >= 2 {
			i := rapid.IntRange(0, len(m.Sigs)-1).Draw(t, "samekey-src")
			j := rapid.IntRange(0, len(m.Sigs)-1).Draw(t, "samekey-dst")
			if i != j {
				m.Sigs[j].Key, m.Sigs[j].ViaKey = m.Sigs[i].Key, m.Sigs[i].ViaKey
				setAlg(&m.Sigs[j].Prot, m.Sigs[i].Key.Alg)
				done("same-key-signers")
			}
		}
	case 7: // a full countersignature over a Sign1 uses the parent's key, protected header and external data
		if m.Kind != refcose.KSign && !m.NoAlg && !m.Inject {
			for gi := range m.Groups {
				if m.Groups[gi].Abbrev() || len(m.Groups[gi].Items) == 0 {
					continue
				}
				c := &m.Groups[gi].Items[len(m.Groups[gi].Items)-1]
				c.Key, c.Prot, c.NoAlg, c.Inject = m.Sigs[0].Key, m.Prot.Clone(), false, false
				if c.Prot.Has(5) || c.Prot.Has(6) {
					c.Unprot = c.Unprot.Without(5).Without(6) // IV and Partial IV never coexist in one layer
				}
				if !m.ExtNil && len(m.External) > 0 && len(m.External) < 200 {
					c.External = append(rc.Hex{}, m.External...)
				}
				done("countersignature-mirrors-parent")
				break
			}
		}
	case 8: // a header value that is an encoded COSE object, or shaped like a COSE_Signature, under an unknown label
		v := rapid.SampledFrom([]rc.Val{rc.Bytes(lookalikeSign1), rc.Bytes(lookalikeKey),
			rc.Array(rc.Bytes(nil), rc.Map(), rc.Bytes([]byte{1})), rc.Array(rc.Array(rc.Bytes(nil), rc.Map(), rc.Bytes([]byte{1}))),
			rc.Bytes(m.Payload), rc.Map(rc.E(rc.Int(1), rc.Int(-7)), rc.E(rc.Int(4), rc.Bytes([]byte("k"))))}).Draw(t, "lookalike-value")
		if len(v.B) <= 4096 {
			l := rapid.SampledFrom([]rc.Val{rc.Int(8), rc.Int(10), rc.Int(13), rc.Int(-1), rc.Int(-7), rc.Int(18), rc.Int(98), rc.Text("7"), rc.Text("11"), rc.Text("1")}).Draw(t, "lookalike-label")
			m.Unprot = m.Unprot.With(l, v)
			done("value-is-cose")
		}
	case 9: // all layers have byte-identical unprotected buckets
		if m.Kind == refcose.KSign && len(m.Sigs) >= 2 {
			ok := true
			for i := range m.Sigs {
				for _, e := range m.Sigs[0].Unprot.M {
					if l, isInt := e.K.Int64(); isInt && (m.Sigs[i].Prot.Has(l) || ((l == 5 || l == 6) && (m.Sigs[i].Prot.Has(5) || m.Sigs[i].Prot.Has(6)))) {
						ok = false
					}
				}
			}
			if ok {
				for i := 1; i < len(m.Sigs); i++ {
					m.Sigs[i].Unprot = m.Sigs[0].Unprot.Clone()
					m.Sigs[i].Groups = nil
				}
				m.Sigs[0].Groups = nil
				done("same-unprotected-in-signers")
			}
		}
	case 10: // payload of exactly the length of the signature it will carry / of a hash
		if len(o.PayloadLens) == 0 {
			n := rapid.SampledFrom([]int{32, 48, 64, 96, 132, 256}).Draw(t, "siglen-payload")
			m.Payload = make(rc.Hex, n)
			done("payload-all-zero")
		}
	default: // external data equals the encoded protected header (what sits next to it in the Sig_structure)
		if len(m.External) > 0 && len(m.Prot.M) > 0 {
			e := rc.Encode(m.Prot, nil)
			if len(e) < 4096 {
				m.External = e
				done("external=protected")
			}
		}
	}
}
