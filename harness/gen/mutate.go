package gen

import (
	"fmt"

	"pgregory.net/rapid"

	rc "verifharness/refcbor"
)

// Mutation describes one applied fault.
type Mutation struct {
	Op   string `json:"op"`
	Path string `json:"path,omitempty"`
}

// MutOpts selects the operator mix.
type MutOpts struct {
	// Gentle biases towards faults that keep the message decodable (content
	// edits, unprotected-only changes, head widths): used where a verdict
	// must be compared after decoding (C03).
	Gentle bool
	// Key adapts the parameter table to COSE_Key maps.
	Key bool
}

func mleaf(major byte, arg uint64) *rc.M { return &rc.M{Major: major, Arg: arg} }
func mbytes(b []byte) *rc.M              { return &rc.M{Major: 2, Bytes: append([]byte{}, b...)} }
func mtext(s string) *rc.M               { return &rc.M{Major: 3, Bytes: []byte(s)} }
func msimple(ai uint64) *rc.M            { return &rc.M{Major: 7, Arg: ai} }

// replacement draws a small item of a drawn type.
func replacement(t *rapid.T) (*rc.M, string) {
	switch rapid.IntRange(0, 13).Draw(t, "repl") {
	case 0:
		return msimple(22), "null"
	case 1:
		return msimple(23), "undefined"
	case 2:
		return msimple(21), "true"
	case 3:
		return &rc.M{Major: 7, W: 1, Arg: 100}, "simple"
	case 4:
		return &rc.M{Major: 7, W: 8, Arg: 0x3ff8000000000000}, "float"
	case 5:
		return &rc.M{Major: 7, W: 2, Arg: 0x7e00}, "nan16"
	case 6:
		return mleaf(0, uint64(rapid.IntRange(0, 30).Draw(t, "repl-uint"))), "uint"
	case 7:
		return mleaf(1, uint64(rapid.IntRange(0, 30).Draw(t, "repl-nint"))), "nint"
	case 8:
		return mtext(rapid.SampledFrom([]string{"", "a", "a/b", "text/plain", " a/b", "a/b/c"}).Draw(t, "repl-text")), "text"
	case 9:
		return mbytes(rapid.SliceOfN(rapid.Byte(), 0, 4).Draw(t, "repl-bytes")), "bstr"
	case 10:
		return &rc.M{Major: 4}, "empty-array"
	case 11:
		return &rc.M{Major: 5}, "empty-map"
	case 12:
		return &rc.M{Major: 0, W: 8, Arg: 1 << 63}, "uint>int64"
	}
	return &rc.M{Major: 1, W: 8, Arg: 1 << 63}, "nint<int64"
}

// paramTable: header parameters (label, value) worth injecting.
func paramEntry(t *rapid.T, key bool) (*rc.M, *rc.M, string) {
	type pe struct {
		l    int64
		v    func() *rc.M
		name string
	}
	csig := func() *rc.M {
		return &rc.M{Major: 4, Items: []*rc.M{mbytes(nil), {Major: 5}, mbytes([]byte{1, 2, 3})}}
	}
	tab := []pe{
		{1, func() *rc.M { return mleaf(1, 6) }, "alg=-7"},
		{1, func() *rc.M { return mleaf(1, 7) }, "alg=-8"},
		{1, func() *rc.M { return mtext("ES256") }, "alg=text"},
		{1, func() *rc.M { return mbytes([]byte{1}) }, "alg=bstr"},
		{2, func() *rc.M { return &rc.M{Major: 4} }, "crit=[]"},
		{2, func() *rc.M { return &rc.M{Major: 4, Items: []*rc.M{mleaf(0, 99)}} }, "crit=[99]"},
		{2, func() *rc.M { return &rc.M{Major: 4, Items: []*rc.M{mleaf(0, 1)}} }, "crit=[1]"},
		{2, func() *rc.M { return &rc.M{Major: 4, Items: []*rc.M{mbytes([]byte{1})}} }, "crit=[bstr]"},
		{3, func() *rc.M { return mtext("a/b") }, "cty=a/b"},
		{3, func() *rc.M { return mtext("nope") }, "cty=nope"},
		{3, func() *rc.M { return mtext("/") }, "cty=slash-only"},
		{3, func() *rc.M { return mtext(";q=a/b") }, "cty=param-only"},
		{16, func() *rc.M { return mtext("a/") }, "typ=empty-subtype"},
		{16, func() *rc.M { return mtext("/b;x") }, "typ=empty-type"},
		{3, func() *rc.M { return mtext("\ta/b") }, "cty=tab-padded"},
		{3, func() *rc.M { return mtext("a/b\n") }, "cty=newline-tail"},
		{16, func() *rc.M { return mtext("a/b\r\n") }, "typ=crlf-tail"},
		{16, func() *rc.M { return mtext(" a/b") }, "typ=space-padded"},
		{3, func() *rc.M { return mleaf(1, 0) }, "cty=-1"},
		{3, func() *rc.M { return mleaf(0, 50) }, "cty=50"},
		{16, func() *rc.M { return mtext("") }, "typ=empty"},
		{16, func() *rc.M { return mbytes(nil) }, "typ=bstr"},
		{4, func() *rc.M { return mleaf(0, 1) }, "kid=int"},
		{4, func() *rc.M { return mbytes([]byte("k")) }, "kid=bstr"},
		{5, func() *rc.M { return mbytes([]byte{0}) }, "iv"},
		{6, func() *rc.M { return mbytes([]byte{0}) }, "piv"},
		{5, func() *rc.M { return mtext("iv") }, "iv=text"},
		{6, func() *rc.M { return mleaf(0, 0) }, "piv=int"},
		{7, func() *rc.M { return &rc.M{Major: 4} }, "csig=[]"},
		{7, func() *rc.M { return msimple(22) }, "csig=null"},
		{7, func() *rc.M { return &rc.M{Major: 4, Items: []*rc.M{msimple(22)}} }, "csig=[null]"},
		{7, csig, "csig=ok"},
		{11, func() *rc.M { return &rc.M{Major: 4, Items: []*rc.M{csig(), csig()}} }, "csig2=list"},
		{11, func() *rc.M { return &rc.M{Major: 4, Items: []*rc.M{mbytes(nil), {Major: 5}, mbytes(nil)}} }, "csig2=emptysig"},
		{11, func() *rc.M { return &rc.M{Major: 4, Items: []*rc.M{mbytes(nil), {Major: 5}}} }, "csig2=2-array"},
		{11, func() *rc.M { return mbytes([]byte{1}) }, "csig2=bstr"},
		{7, func() *rc.M {
			c := csig()
			c.Items[1] = &rc.M{Major: 5, Keys: []*rc.M{mleaf(0, 2)}, Vals: []*rc.M{{Major: 4, Items: []*rc.M{mleaf(0, 1)}}}}
			return c
		}, "csig=crit-in-unprotected"},
		{9, func() *rc.M { return mbytes([]byte{9}) }, "csig0=bstr"},
		{12, func() *rc.M { return mleaf(0, 1) }, "csig0v2=int"},
		{15, func() *rc.M { return &rc.M{Major: 5} }, "cwt={}"},
		{258, func() *rc.M { return mleaf(1, 15) }, "258=-16"},
		{259, func() *rc.M { return mtext("x") }, "259=text"},
		{3, func() *rc.M { return mtext("a/b;c=1;d=2") }, "cty=two-parameters"},
		{16, func() *rc.M { return mtext("text/plain;charset=utf-8;format=flowed;x=\"y;z\"") }, "typ=three-parameters"},
		{3, func() *rc.M { return mtext("text/plain; title=\"\u00dcbersicht \u4e2d\U0001f600\"") }, "cty=non-ascii-parameter"},
		{259, func() *rc.M { return mtext("text/plain; title=\"\u00dcbersicht\"; a=1; b=2") }, "259=non-ascii-two-parameters"},
		{259, func() *rc.M { return mtext("\u00fc/\u00ff;\x7f=\x01") }, "259=non-ascii-and-control"},
		{260, func() *rc.M { return mtext("https://example.org/\u00fc?\U0001f600;a;b") }, "260=non-ascii"},
		{16, func() *rc.M { return mtext("a/b;;;") }, "typ=empty-parameters"},
		{260, func() *rc.M { return mtext("loc") }, "260=text"},
	}
	if key {
		tab = []pe{
			{1, func() *rc.M { return mleaf(0, 0) }, "kty=0"},
			{1, func() *rc.M { return mleaf(0, 1) }, "kty=1"},
			{1, func() *rc.M { return mleaf(0, 2) }, "kty=2"},
			{1, func() *rc.M { return mleaf(0, 4) }, "kty=4"},
			{1, func() *rc.M { return mtext("EC2") }, "kty=text"},
			{2, func() *rc.M { return mleaf(0, 1) }, "kid=int"},
			{3, func() *rc.M { return mleaf(1, 6) }, "alg=-7"},
			{3, func() *rc.M { return mleaf(1, 7) }, "alg=-8"},
			{3, func() *rc.M { return mleaf(1, 34) }, "alg=-35"},
			{3, func() *rc.M { return mtext("ES256") }, "alg=text"},
			{4, func() *rc.M { return &rc.M{Major: 4} }, "ops=[]"},
			{4, func() *rc.M { return &rc.M{Major: 4, Items: []*rc.M{mleaf(0, 1)}} }, "ops=[sign]"},
			{4, func() *rc.M { return &rc.M{Major: 4, Items: []*rc.M{mleaf(0, 2)}} }, "ops=[verify]"},
			{4, func() *rc.M { return &rc.M{Major: 4, Items: []*rc.M{mtext("sign"), mtext("verify")}} }, "ops=[text]"},
			{4, func() *rc.M { return &rc.M{Major: 4, Items: []*rc.M{mtext("bogus")}} }, "ops=[bogus]"},
			{4, func() *rc.M { return &rc.M{Major: 4, Items: []*rc.M{mbytes(nil)}} }, "ops=[bstr]"},
			{4, func() *rc.M { return mleaf(0, 1) }, "ops=int"},
			{5, func() *rc.M { return mtext("iv") }, "baseiv=text"},
			{-1, func() *rc.M { return mleaf(0, 1) }, "crv=1"},
			{-1, func() *rc.M { return mleaf(0, 2) }, "crv=2"},
			{-1, func() *rc.M { return mleaf(0, 3) }, "crv=3"},
			{-1, func() *rc.M { return mleaf(0, 6) }, "crv=6"},
			{-1, func() *rc.M { return mleaf(0, 4) }, "crv=4"},
			{-1, func() *rc.M { return mleaf(0, 0) }, "crv=0"},
			{-1, func() *rc.M { return mtext("P-256") }, "crv=text"},
			{-1, func() *rc.M { return mbytes([]byte{1}) }, "crv=bstr"},
			{-2, func() *rc.M { return mbytes(make([]byte, 32)) }, "x=32zero"},
			{-2, func() *rc.M { return mbytes(make([]byte, 33)) }, "x=33"},
			{-2, func() *rc.M { return mleaf(0, 1) }, "x=int"},
			{-3, func() *rc.M { return mbytes(make([]byte, 32)) }, "y=32zero"},
			{-3, func() *rc.M { return msimple(21) }, "y=true"},
			{-4, func() *rc.M { return mbytes(make([]byte, 32)) }, "d=32zero"},
			{-4, func() *rc.M { return mbytes(nil) }, "d=empty"},
		}
	}
	e := rapid.SampledFrom(tab).Draw(t, "param")
	var k *rc.M
	if e.l >= 0 {
		k = mleaf(0, uint64(e.l))
	} else {
		k = mleaf(1, uint64(-1-e.l))
	}
	return k, e.v(), e.name
}

// Mutate applies one fault to the tree at *root and reports what it did
// (ok=false when the drawn operator was not applicable at the drawn place).
func Mutate(t *rapid.T, root **rc.M, o MutOpts) (Mutation, bool) {
	slots := rc.MSlots(root)
	si := rapid.IntRange(0, len(slots)-1).Draw(t, "slot")
	s := slots[si]
	x := s.Get()
	nops := 18
	op := rapid.IntRange(0, nops).Draw(t, "op")
	if o.Gentle {
		// two thirds of the draws go to the gentle operators
		if rapid.IntRange(0, 2).Draw(t, "gentle") != 0 {
			op = rapid.SampledFrom([]int{3, 10, 10, 10, 11, 12, 13, 8}).Draw(t, "gentle-op")
		}
	}
	mut := Mutation{Path: s.Path}
	if x == nil || x.Verb != nil {
		op = 0
	}
	switch op {
	case 0: // replace by an item of another type
		r, name := replacement(t)
		s.Set(r)
		mut.Op = "retype/" + name
		return mut, true
	case 1: // wrap in a tag
		tag := rapid.SampledFrom([]uint64{0, 1, 2, 18, 24, 98, 100, 55799}).Draw(t, "tag")
		s.Set(&rc.M{Major: 6, Arg: tag, Child: x})
		mut.Op = "tag-wrap"
		return mut, true
	case 2: // indefinite length
		if x.Major < 2 || x.Major > 5 {
			return mut, false
		}
		x.W = -1
		mut.Op = "indefinite"
		return mut, true
	case 3: // another (valid, non-minimal or minimal) head width
		if x.Major == 7 {
			return mut, false
		}
		w := rapid.SampledFrom([]int{0, 1, 2, 4, 8}).Draw(t, "width")
		if w == x.W {
			return mut, false
		}
		x.W = w
		mut.Op = "head-width"
		return mut, true
	case 4: // declared count / length differs from the actual one
		if x.Major < 2 || x.Major > 5 {
			return mut, false
		}
		var n uint64
		switch x.Major {
		case 2, 3:
			n = uint64(len(x.Bytes))
			if x.Emb != nil {
				n = uint64(len(x.Emb.Enc()) + len(x.EmbTail))
			}
		case 4:
			n = uint64(len(x.Items))
		case 5:
			n = uint64(len(x.Keys))
		}
		d := rapid.SampledFrom([]int64{-1, 1, 2, 1 << 20, 1 << 40}).Draw(t, "count-delta")
		if d < 0 && n == 0 {
			return mut, false
		}
		c := uint64(int64(n) + d)
		x.Count = &c
		mut.Op = "declared-count"
		return mut, true
	case 5: // duplicate a map key (possibly with another head width)
		if x.Major != 5 || len(x.Keys) == 0 {
			return mut, false
		}
		i := rapid.IntRange(0, len(x.Keys)-1).Draw(t, "dup-idx")
		k := x.Keys[i].Clone()
		if k.Major <= 1 && rapid.Bool().Draw(t, "dup-widen") {
			k.W = rapid.SampledFrom([]int{1, 2, 4, 8}).Draw(t, "dup-width")
		}
		v := x.Vals[i].Clone()
		if rapid.Bool().Draw(t, "dup-newval") {
			v, _ = replacement(t)
		}
		at := rapid.IntRange(0, len(x.Keys)).Draw(t, "dup-at")
		x.Keys = append(x.Keys[:at], append([]*rc.M{k}, x.Keys[at:]...)...)
		x.Vals = append(x.Vals[:at], append([]*rc.M{v}, x.Vals[at:]...)...)
		mut.Op = "dup-key"
		return mut, true
	case 6: // remove an element / entry
		switch x.Major {
		case 4:
			if len(x.Items) == 0 {
				return mut, false
			}
			i := rapid.IntRange(0, len(x.Items)-1).Draw(t, "rm-idx")
			x.Items = append(x.Items[:i:i], x.Items[i+1:]...)
			mut.Op = "remove-item"
			return mut, true
		case 5:
			if len(x.Keys) == 0 {
				return mut, false
			}
			i := rapid.IntRange(0, len(x.Keys)-1).Draw(t, "rm-idx")
			x.Keys = append(x.Keys[:i:i], x.Keys[i+1:]...)
			x.Vals = append(x.Vals[:i:i], x.Vals[i+1:]...)
			mut.Op = "remove-entry"
			return mut, true
		}
		return mut, false
	case 7: // add an element
		if x.Major != 4 {
			return mut, false
		}
		r, name := replacement(t)
		if len(x.Items) > 0 && rapid.Bool().Draw(t, "add-copy") {
			r = x.Items[rapid.IntRange(0, len(x.Items)-1).Draw(t, "add-src")].Clone()
			name = "copy"
		}
		at := rapid.IntRange(0, len(x.Items)).Draw(t, "add-at")
		x.Items = append(x.Items[:at], append([]*rc.M{r}, x.Items[at:]...)...)
		mut.Op = "add-item/" + name
		return mut, true
	case 8: // inject a header / key parameter into a map
		if x.Major != 5 {
			return mut, false
		}
		k, v, name := paramEntry(t, o.Key)
		if rapid.Bool().Draw(t, "param-replace") {
			// replace an existing entry with the same label, if any
			for i, ek := range x.Keys {
				if ek.Major == k.Major && ek.Arg == k.Arg {
					x.Vals[i] = v
					mut.Op = "param-set/" + name
					return mut, true
				}
			}
		}
		x.Keys = append(x.Keys, k)
		x.Vals = append(x.Vals, v)
		mut.Op = "param-add/" + name
		return mut, true
	case 9: // swap two array items
		if x.Major != 4 || len(x.Items) < 2 {
			return mut, false
		}
		i := rapid.IntRange(0, len(x.Items)-1).Draw(t, "swap-i")
		j := rapid.IntRange(0, len(x.Items)-1).Draw(t, "swap-j")
		if i == j {
			return mut, false
		}
		x.Items[i], x.Items[j] = x.Items[j], x.Items[i]
		mut.Op = "swap-items"
		return mut, true
	case 10: // edit string content
		if (x.Major != 2 && x.Major != 3) || x.Emb != nil {
			return mut, false
		}
		switch rapid.IntRange(0, 5).Draw(t, "content-edit") {
		case 5:
			n := rapid.SampledFrom([]int{0, 1, 16, 23, 24, 31, 32, 33, 47, 48, 49, 56, 57, 64, 65, 66, 67, 96, 128, 132, 255, 256}).Draw(t, "resize-to")
			nb := make([]byte, n)
			copy(nb, x.Bytes)
			for i := len(x.Bytes); i < n; i++ {
				nb[i] = byte(i*7 + 1)
			}
			x.Bytes = nb
			mut.Op = "content/resize"
		case 0:
			if len(x.Bytes) == 0 {
				return mut, false
			}
			i := rapid.IntRange(0, len(x.Bytes)-1).Draw(t, "flip-at")
			x.Bytes[i] ^= 1 << rapid.IntRange(0, 7).Draw(t, "flip-bit")
			mut.Op = "content/bitflip"
		case 1:
			if len(x.Bytes) == 0 {
				return mut, false
			}
			x.Bytes = x.Bytes[:rapid.IntRange(0, len(x.Bytes)-1).Draw(t, "trunc-to")]
			mut.Op = "content/truncate"
		case 2:
			x.Bytes = append(x.Bytes, rapid.SliceOfN(rapid.Byte(), 1, 3).Draw(t, "extend")...)
			mut.Op = "content/extend"
		case 3:
			x.Bytes = []byte{}
			mut.Op = "content/empty"
		default:
			x.Bytes = append([]byte{0}, x.Bytes...)
			mut.Op = "content/prepend-zero"
		}
		return mut, true
	case 11: // edit an integer
		if x.Major > 1 {
			return mut, false
		}
		switch rapid.IntRange(0, 3).Draw(t, "int-edit") {
		case 0:
			x.Arg++
		case 1:
			if x.Arg == 0 {
				return mut, false
			}
			x.Arg--
		case 2:
			x.Major ^= 1
		default:
			x.Arg = rapid.SampledFrom([]uint64{0, 1, 6, 7, 23, 24, 255, 256, 1<<63 - 1, 1 << 63, 1<<64 - 1}).Draw(t, "int-set")
		}
		mut.Op = "int-edit"
		return mut, true
	case 12: // move an entry between the two header buckets of a layer
		if x.Major != 4 || len(x.Items) < 3 || x.Items[0].Major != 2 || x.Items[1].Major != 5 {
			return mut, false
		}
		p, u := x.Items[0], x.Items[1]
		toProt := rapid.Bool().Draw(t, "move-to-protected")
		if toProt {
			if len(u.Keys) == 0 {
				return mut, false
			}
			if p.Emb == nil {
				if len(p.Bytes) != 0 {
					return mut, false
				}
				p.Emb = &rc.M{Major: 5}
			}
			i := rapid.IntRange(0, len(u.Keys)-1).Draw(t, "move-idx")
			p.Emb.Keys = append(p.Emb.Keys, u.Keys[i])
			p.Emb.Vals = append(p.Emb.Vals, u.Vals[i])
			u.Keys = append(u.Keys[:i:i], u.Keys[i+1:]...)
			u.Vals = append(u.Vals[:i:i], u.Vals[i+1:]...)
			mut.Op = "move-to-protected"
			return mut, true
		}
		if p.Emb == nil || p.Emb.Major != 5 || len(p.Emb.Keys) == 0 {
			return mut, false
		}
		i := rapid.IntRange(0, len(p.Emb.Keys)-1).Draw(t, "move-idx")
		u.Keys = append(u.Keys, p.Emb.Keys[i])
		u.Vals = append(u.Vals, p.Emb.Vals[i])
		p.Emb.Keys = append(p.Emb.Keys[:i:i], p.Emb.Keys[i+1:]...)
		p.Emb.Vals = append(p.Emb.Vals[:i:i], p.Emb.Vals[i+1:]...)
		mut.Op = "move-to-unprotected"
		return mut, true
	case 13: // permute a map's entries (valid encoder freedom)
		if x.Major != 5 || len(x.Keys) < 2 {
			return mut, false
		}
		i := rapid.IntRange(0, len(x.Keys)-1).Draw(t, "perm-i")
		j := rapid.IntRange(0, len(x.Keys)-1).Draw(t, "perm-j")
		if i == j {
			return mut, false
		}
		x.Keys[i], x.Keys[j] = x.Keys[j], x.Keys[i]
		x.Vals[i], x.Vals[j] = x.Vals[j], x.Vals[i]
		mut.Op = "permute-entries"
		return mut, true
	case 14: // bytes after the item embedded in a bstr
		if x.Major != 2 || x.Emb == nil {
			return mut, false
		}
		x.EmbTail = append(x.EmbTail, rapid.SliceOfN(rapid.Byte(), 1, 3).Draw(t, "emb-tail")...)
		mut.Op = "trailing-in-protected"
		return mut, true
	case 15: // a bstr that wraps something other than a map / wraps an empty map
		if x.Major != 2 {
			return mut, false
		}
		r, name := replacement(t)
		x.Emb = r
		x.EmbTail = nil
		mut.Op = "protected-wraps/" + name
		return mut, true
	case 16: // change major type keeping the argument
		if x.Major == 7 {
			return mut, false
		}
		nm := byte(rapid.IntRange(0, 5).Draw(t, "new-major"))
		if nm == x.Major {
			return mut, false
		}
		y := &rc.M{Major: nm, W: x.W, Arg: x.Arg}
		switch {
		case nm <= 1:
			if x.Major >= 2 && x.Major <= 3 {
				y.Arg = uint64(len(x.Bytes))
			} else if x.Major == 4 {
				y.Arg = uint64(len(x.Items))
			} else if x.Major == 5 {
				y.Arg = uint64(len(x.Keys))
			}
			if y.W < 0 {
				y.W = 0
			}
		case nm == 2 || nm == 3:
			y.Bytes = x.Enc()
			if x.Major == 2 || x.Major == 3 {
				y.Bytes = x.Bytes
				if x.Emb != nil {
					y.Bytes = append(x.Emb.Enc(), x.EmbTail...)
				}
			}
		case nm == 4:
			y.Items = append(append([]*rc.M{}, x.Items...), x.Keys...)
		case nm == 5:
			for i := 0; i+1 < len(x.Items); i += 2 {
				y.Keys = append(y.Keys, x.Items[i])
				y.Vals = append(y.Vals, x.Items[i+1])
			}
		}
		s.Set(y)
		mut.Op = fmt.Sprintf("major-%d-to-%d", x.Major, nm)
		return mut, true
	case 17: // IV in one bucket and Partial IV in the other bucket of one layer
		if x.Major != 4 || len(x.Items) < 3 || x.Items[0].Major != 2 || x.Items[1].Major != 5 {
			return mut, false
		}
		p, u := x.Items[0], x.Items[1]
		if p.Emb == nil {
			if len(p.Bytes) != 0 {
				return mut, false
			}
			p.Emb = &rc.M{Major: 5}
		}
		if p.Emb.Major != 5 {
			return mut, false
		}
		a, b := uint64(5), uint64(6)
		if rapid.Bool().Draw(t, "iv-swap") {
			a, b = b, a
		}
		drop := func(m *rc.M) {
			for i := 0; i < len(m.Keys); i++ {
				if m.Keys[i].Major == 0 && (m.Keys[i].Arg == 5 || m.Keys[i].Arg == 6) {
					m.Keys = append(m.Keys[:i:i], m.Keys[i+1:]...)
					m.Vals = append(m.Vals[:i:i], m.Vals[i+1:]...)
					i--
				}
			}
		}
		drop(p.Emb)
		drop(u)
		p.Emb.Keys = append(p.Emb.Keys, mleaf(0, a))
		p.Emb.Vals = append(p.Emb.Vals, mbytes([]byte{1}))
		u.Keys = append(u.Keys, mleaf(0, b))
		u.Vals = append(u.Vals, mbytes([]byte{2}))
		mut.Op = "iv-and-partial-iv-across-buckets"
		return mut, true
	default: // replace a map key by an out-of-range or non-label key
		if x.Major != 5 || len(x.Keys) == 0 {
			return mut, false
		}
		i := rapid.IntRange(0, len(x.Keys)-1).Draw(t, "key-idx")
		switch rapid.IntRange(0, 5).Draw(t, "badkey") {
		case 0:
			x.Keys[i] = &rc.M{Major: 0, W: 8, Arg: 1 << 63}
		case 1:
			x.Keys[i] = &rc.M{Major: 1, W: 8, Arg: 1 << 63}
		case 2:
			x.Keys[i] = mbytes([]byte{1})
		case 3:
			x.Keys[i] = &rc.M{Major: 4}
		case 4:
			x.Keys[i] = msimple(22)
		default:
			x.Keys[i] = &rc.M{Major: 7, W: 2, Arg: 0x7e00}
		}
		mut.Op = "bad-label"
		return mut, true
	}
}

// ByteMutate applies one byte-level fault to b.
func ByteMutate(t *rapid.T, b []byte) ([]byte, Mutation) {
	out := append([]byte{}, b...)
	if len(out) == 0 {
		return []byte{byte(rapid.IntRange(0, 255).Draw(t, "byte"))}, Mutation{Op: "bytes/insert"}
	}
	switch rapid.IntRange(0, 6).Draw(t, "byteop") {
	case 5:
		// the whole item inside another tag: self-described CBOR, a second COSE tag, a tag head in non-preferred form
		pre := rapid.SampledFrom([][]byte{{0xd9, 0xd9, 0xf7}, {0xd2}, {0xd8, 0x62}, {0xd8, 0x12}, {0xc1}, {0xd9, 0x00, 0x12}}).Draw(t, "prefix")
		return append(append([]byte{}, pre...), out...), Mutation{Op: "bytes/tag-prefix", Path: fmt.Sprintf("%x", pre)}
	case 6:
		// the tag head of the item re-spelt in a non-preferred width (d8 12 for d2, d9 00 62 for d8 62)
		switch {
		case out[0] == 0xd2:
			return append([]byte{0xd8, 0x12}, out[1:]...), Mutation{Op: "bytes/tag-head-respelt"}
		case len(out) > 1 && out[0] == 0xd8 && out[1] == 0x62:
			return append([]byte{0xd9, 0x00, 0x62}, out[2:]...), Mutation{Op: "bytes/tag-head-respelt"}
		}
		return append([]byte{0xd9, 0xd9, 0xf7}, out...), Mutation{Op: "bytes/tag-prefix", Path: "d9d9f7"}
	case 0:
		i := rapid.IntRange(0, len(out)-1).Draw(t, "flip-at")
		out[i] ^= 1 << rapid.IntRange(0, 7).Draw(t, "flip-bit")
		return out, Mutation{Op: "bytes/bitflip", Path: fmt.Sprint(i)}
	case 1:
		i := rapid.IntRange(0, len(out)).Draw(t, "ins-at")
		v := byte(rapid.IntRange(0, 255).Draw(t, "ins-byte"))
		out = append(out[:i], append([]byte{v}, out[i:]...)...)
		return out, Mutation{Op: "bytes/insert", Path: fmt.Sprint(i)}
	case 2:
		i := rapid.IntRange(0, len(out)-1).Draw(t, "del-at")
		out = append(out[:i], out[i+1:]...)
		return out, Mutation{Op: "bytes/delete", Path: fmt.Sprint(i)}
	case 3:
		n := rapid.IntRange(0, len(out)-1).Draw(t, "trunc-to")
		return out[:n], Mutation{Op: "bytes/truncate", Path: fmt.Sprint(n)}
	}
	out = append(out, rapid.SliceOfN(rapid.Byte(), 1, 4).Draw(t, "append")...)
	return out, Mutation{Op: "bytes/append"}
}

// MutateWire applies n faults (tree-level, and with probability 1/5 a
// byte-level one) to wire. It returns the mutated bytes and the list of
// faults that were applied.
func MutateWire(t *rapid.T, wire []byte, n int, o MutOpts) ([]byte, []Mutation) {
	root, err := rc.MParse(wire, true)
	if err != nil {
		out, m := ByteMutate(t, wire)
		return out, []Mutation{m}
	}
	var muts []Mutation
	for len(muts) < n {
		if rapid.IntRange(0, 4).Draw(t, "bytelevel") == 0 {
			break
		}
		applied := false
		for try := 0; try < 8 && !applied; try++ {
			m, ok := Mutate(t, &root, o)
			if ok {
				muts = append(muts, m)
				applied = true
			}
		}
		if !applied {
			break
		}
	}
	out := root.Enc()
	for len(muts) < n {
		var m Mutation
		out, m = ByteMutate(t, out)
		muts = append(muts, m)
	}
	return out, muts
}
