package gen

import (
	"crypto/sha512"
	"fmt"

	"pgregory.net/rapid"

	rc "verifharness/refcbor"
	"verifharness/refcose"
	"verifharness/stats"
)

// CsigSpec describes one countersignature (full: labels 7/11; abbreviated:
// labels 9/12 where only Key/External matter).
type CsigSpec struct {
	Key      refcose.KeyMat `json:"key"`
	Prot     rc.Val         `json:"prot"`
	Unprot   rc.Val         `json:"unprot"`
	External rc.Hex         `json:"external,omitempty"`
	Groups   []CsigGroup    `json:"groups,omitempty"` // countersignatures on this countersignature
	NoAlg    bool           `json:"no_alg,omitempty"` // alg omitted (only with external data)
	Inject   bool           `json:"inject,omitempty"` // alg absent from Prot, no external: the signer's alg is inserted at signing time
}

// CsigGroup is the value of one countersignature header parameter.
type CsigGroup struct {
	Label  int64      `json:"label"` // 7, 11 (full) or 9, 12 (abbreviated)
	AsList bool       `json:"as_list,omitempty"`
	Items  []CsigSpec `json:"items"`
}

// Abbrev reports whether the group is an abbreviated countersignature.
func (g CsigGroup) Abbrev() bool { return g.Label == 9 || g.Label == 12 }

// SigSpec is one COSE_Signature of a COSE_Sign.
type SigSpec struct {
	Key    refcose.KeyMat `json:"key"`
	ViaKey bool           `json:"via_key,omitempty"`
	Prot   rc.Val         `json:"prot"`
	Unprot rc.Val         `json:"unprot"`
	Groups []CsigGroup    `json:"groups,omitempty"`
	NoAlg  bool           `json:"no_alg,omitempty"`
	Inject bool           `json:"inject,omitempty"`
	// TwinOf (index + 1 of an earlier signer, 0: none): the reference builder emits this entry as a byte-for-byte
	// copy of that signer's COSE_Signature (same key, headers, encoding choices and signature)
	TwinOf int `json:"twin_of,omitempty"`
}

// MsgSpec is a serialisable abstract message.
type MsgSpec struct {
	Kind     refcose.Kind `json:"kind"` // KSign1, KSign1Untagged, KSign
	Prot     rc.Val       `json:"prot"`
	Unprot   rc.Val       `json:"unprot"`
	Payload  rc.Hex       `json:"payload"`
	Detached bool         `json:"detached,omitempty"`
	External rc.Hex       `json:"external,omitempty"` // nil vs empty distinguished by ExtNil
	ExtNil   bool         `json:"ext_nil,omitempty"`
	Sigs     []SigSpec    `json:"sigs"` // exactly one for Sign1 (its Prot/Unprot unused)
	Groups   []CsigGroup  `json:"groups,omitempty"`
	NoAlg    bool         `json:"no_alg,omitempty"`
	Inject   bool         `json:"inject,omitempty"` // Sign1 only (a COSE_Sign body has no alg)
}

// Ext returns the external data as the caller passes it.
func (m *MsgSpec) Ext() []byte {
	if m.ExtNil {
		return nil
	}
	if m.External == nil {
		return []byte{}
	}
	return m.External
}

// MsgOpts tunes message generation.
type MsgOpts struct {
	Kinds      []refcose.Kind
	MaxSigners int
	Csigs      bool // generate countersignatures
	Hdr        HeaderOpts
	HugeLens   bool
	FixedAlg   *int64 // restrict all keys to this algorithm (cheap crypto)
	Inject     bool   // sometimes leave alg out (no external data) so that signing must insert it
	CrossCurve bool   // sometimes pair an ECDSA algorithm with a key on another curve
	// PayloadLens, when set, replaces the usual payload length classes (payloads far beyond the CBOR
	// head boundaries: whatever a library does differently for long content)
	PayloadLens []int
	// NoCoincide switches the coincidence rewrites of coincide.go off
	NoCoincide bool
	// NoManySigners keeps COSE_Sign messages within MaxSigners
	NoManySigners bool
}

func expand(seed []byte, n int) []byte {
	var out []byte
	for i := byte(0); len(out) < n; i++ {
		h := sha512.Sum512(append(append([]byte{}, seed...), i))
		out = append(out, h[:]...)
	}
	return out[:n]
}

func drawKey(t *rapid.T, o MsgOpts) refcose.KeyMat {
	alg := int64(0)
	if o.FixedAlg != nil {
		alg = *o.FixedAlg
	} else {
		alg = Alg(t)
	}
	km := KeyMat(t, alg)
	if km.Family() == "ec" && o.CrossCurve && rapid.IntRange(0, 7).Draw(t, "cross-curve") == 0 {
		// the library lets ES256/384/512 be used with a key on any of the three curves
		km.Curve = rapid.SampledFrom([]int{256, 384, 521}).Draw(t, "curve")
	}
	if km.Family() == "ec" {
		// full-width scalar from the drawn seed; sometimes a small scalar
		if rapid.IntRange(0, 7).Draw(t, "small-d") != 0 {
			km.D = expand(km.D, 66)
		}
	}
	return km
}

func drawExternal(t *rapid.T) (ext []byte, isNil bool) {
	switch rapid.IntRange(0, 3).Draw(t, "extclass") {
	case 0:
		return nil, true
	case 1:
		return []byte{}, false
	}
	return Blob(t, "ext", 1+BoundaryLen(t, "extlen", false)), false
}

// layerHeaders draws conforming headers for one layer signed with alg; with
// external data present the alg may be omitted.
func layerHeaders(t *rapid.T, o MsgOpts, alg int64, hasExt bool) (prot, unprot rc.Val, noAlg, inject bool) {
	ho := o.Hdr
	if hasExt && rapid.IntRange(0, 3).Draw(t, "omit-alg") == 0 {
		noAlg = true
	} else if !hasExt && o.Inject && rapid.IntRange(0, 3).Draw(t, "inject-alg") == 0 {
		inject = true
	} else {
		a := alg
		ho.Alg = &a
	}
	prot, unprot = Headers(t, ho)
	return
}

func drawGroups(t *rapid.T, o MsgOpts, depth int) []CsigGroup {
	if !o.Csigs || rapid.IntRange(0, 2).Draw(t, "has-csig") != 0 {
		return nil
	}
	var gs []CsigGroup
	labels := []int64{7, 11, 9, 12}
	used := map[int64]bool{}
	n := rapid.IntRange(1, 2).Draw(t, "csig-groups")
	for i := 0; i < n; i++ {
		l := rapid.SampledFrom(labels).Draw(t, "csig-label")
		if used[l] {
			continue
		}
		used[l] = true
		g := CsigGroup{Label: l}
		cnt := 1
		if !g.Abbrev() {
			g.AsList = rapid.Bool().Draw(t, "csig-list")
			if g.AsList {
				cnt = rapid.IntRange(1, 3).Draw(t, "csig-count")
			}
		}
		for j := 0; j < cnt; j++ {
			c := CsigSpec{Key: drawKey(t, o)}
			if rapid.IntRange(0, 3).Draw(t, "csig-ext") == 0 {
				c.External = Blob(t, "csig-extv", 1+rapid.IntRange(0, 30).Draw(t, "csig-extlen"))
			}
			if !g.Abbrev() {
				co := o
				co.Hdr.MaxEntries = 3
				c.Prot, c.Unprot, c.NoAlg, c.Inject = layerHeaders(t, co, c.Key.Alg, len(c.External) > 0)
				if depth < 2 {
					c.Groups = drawGroups(t, o, depth+1)
				}
			}
			g.Items = append(g.Items, c)
		}
		gs = append(gs, g)
	}
	return gs
}

// Msg draws an abstract conforming message.
func Msg(t *rapid.T, o MsgOpts) MsgSpec {
	kinds := o.Kinds
	if len(kinds) == 0 {
		kinds = []refcose.Kind{refcose.KSign1, refcose.KSign1Untagged, refcose.KSign}
	}
	m := MsgSpec{Kind: rapid.SampledFrom(kinds).Draw(t, "kind")}
	ext, isNil := drawExternal(t)
	m.External, m.ExtNil = ext, isNil
	hasExt := len(ext) > 0
	if len(o.PayloadLens) > 0 {
		m.Payload = Blob(t, "payload", rapid.SampledFrom(o.PayloadLens).Draw(t, "payloadlen-listed"))
	} else {
		m.Payload = Blob(t, "payload", BoundaryLen(t, "payloadlen", o.HugeLens))
	}
	if m.Payload == nil {
		m.Payload = []byte{}
	}
	m.Detached = rapid.IntRange(0, 4).Draw(t, "detached") == 0
	if m.Kind == refcose.KSign {
		max := o.MaxSigners
		if max < 1 {
			max = 4
		}
		n := 1
		switch rapid.IntRange(0, 2).Draw(t, "nsig-class") {
		case 0:
			n = 1
		case 1:
			n = rapid.IntRange(1, max).Draw(t, "nsig")
		default:
			if max >= 3 {
				n = rapid.IntRange(3, max).Draw(t, "nsig3")
			}
		}
		many := false
		if max >= 3 && !o.NoManySigners && rapid.IntRange(0, 11).Draw(t, "nsig-many") == 0 {
			// far more signers than a hand-written test lists (whatever an implementation does differently from
			// some count on: batching, worker pools, pre-sized tables); cheap keys only
			n = rapid.SampledFrom([]int{7, 8, 9, 10, 11, 12, 13, 15, 16, 17, 18, 19, 31, 32, 33, 34, 41}).Draw(t, "nsig-many-n")
			many = true
			stats.Class("many-signers")
		}
		// body headers carry no alg
		bo := o.Hdr
		bo.Alg = nil
		m.Prot, m.Unprot = Headers(t, bo)
		for i := 0; i < n; i++ {
			ko := o
			if many && o.FixedAlg == nil {
				cheap := rapid.SampledFrom([]int64{refcose.AlgEdDSA, refcose.AlgEdDSA, refcose.AlgES256}).Draw(t, "many-alg")
				ko.FixedAlg = &cheap
			}
			s := SigSpec{Key: drawKey(t, ko), ViaKey: rapid.IntRange(0, 4).Draw(t, "viakey") == 0}
			if s.Key.Curve != 0 {
				s.ViaKey = false // a COSE_Key fixes the algorithm of its curve
			}
			so := o
			so.Hdr.MaxEntries = 4
			if many {
				so.Hdr.MaxEntries = 1
				so.Hdr.PadBoundary = false
			}
			s.Prot, s.Unprot, s.NoAlg, s.Inject = layerHeaders(t, so, s.Key.Alg, hasExt)
			if !many {
				s.Groups = drawGroups(t, o, 1)
			}
			m.Sigs = append(m.Sigs, s)
		}
	} else {
		s := SigSpec{Key: drawKey(t, o), ViaKey: rapid.IntRange(0, 4).Draw(t, "viakey") == 0}
		if s.Key.Curve != 0 {
			s.ViaKey = false
		}
		m.Prot, m.Unprot, m.NoAlg, m.Inject = layerHeaders(t, o, s.Key.Alg, hasExt)
		m.Sigs = []SigSpec{s}
	}
	m.Groups = drawGroups(t, o, 0)
	coincide(t, &m, o)
	return m
}

// ----------------------------------------------------------------------------
// Reference wire builder ("independent implementation of the RFC").

// Parent describes what a countersignature covers.
type Parent struct {
	Kind     refcose.Kind // KSign1 (incl. untagged), KSign, KSignature, KCountersignature
	BodyProt []byte       // content of the parent's protected bstr
	Payload  []byte       // parent's payload (Sign1/Sign) or signature (Signature/Countersignature)
	Sig      []byte       // parent's signature (Sign1 only: other_fields)
	Where    string       // path of the parent (labels the countersignatures made over it)
}

// CountersignTBS returns the reference Countersign_structure for a parent.
func CountersignTBS(p Parent, abbrev bool, signProt, external []byte) []byte {
	ctx := "CounterSignature"
	var other [][]byte
	if p.Kind == refcose.KSign1 || p.Kind == refcose.KSign1Untagged {
		ctx = "CounterSignatureV2"
		if abbrev {
			ctx = "CounterSignature0V2"
		}
		other = [][]byte{p.Sig}
	} else if abbrev {
		ctx = "CounterSignature0"
	}
	return refcose.CountersignStructure(ctx, p.BodyProt, signProt, external, p.Payload, other)
}

// Builder turns a MsgSpec into wire bytes with a peer encoder's choices and
// reference signatures.
type Builder struct {
	Ch      *RChooser // nil => deterministic
	T       *rapid.T
	Entropy []byte
	// SignFn overrides the reference signer (nil: refcose.Sign).
	SignFn func(km refcose.KeyMat, tbs []byte, tag string) []byte
	// OnTBS, if set, is told every structure that gets signed (where, tbs).
	OnTBS func(where string, tbs []byte)
	// PadProt lets the builder pad some protected maps to exactly 23/24/255/256 (PadHuge: 65535/65536) bytes
	PadProt bool
	PadHuge bool
	// statistics
	EmptyA0 int // h'a0' used for an empty protected header
	Padded  int // protected maps padded to a head-width boundary
}

func (b *Builder) sign(km refcose.KeyMat, tbs []byte, tag string) []byte {
	if b.OnTBS != nil {
		b.OnTBS(tag, tbs)
	}
	if b.SignFn != nil {
		return b.SignFn(km, tbs, tag)
	}
	return refcose.Sign(km.Alg, km, tbs, b.entropyFor(tag))
}

// withInject returns the protected map that is actually signed: the spec's
// map plus the signer's alg when the spec says signing inserts it.
func withInject(prot rc.Val, inject bool, alg int64) rc.Val {
	if !inject {
		return prot
	}
	if prot.K != rc.KMap {
		prot = rc.Map()
	}
	return prot.With(rc.Int(1), rc.Int(alg))
}

func (b *Builder) ch() rc.Chooser {
	if b.Ch == nil {
		return nil
	}
	return b.Ch
}

// protContent encodes a protected map; an empty map becomes h” or h'a0'.
func (b *Builder) protContent(m rc.Val) []byte {
	if len(m.M) == 0 {
		if b.Ch != nil && b.Ch.Free && rapid.Bool().Draw(b.T, "empty-a0") {
			b.EmptyA0++
			return []byte{0xa0}
		}
		return []byte{}
	}
	out := rc.Encode(m, b.ch())
	if b.Ch != nil && b.Ch.Free && b.PadProt && rapid.IntRange(0, 7).Draw(b.T, "pad-wire-protected") == 0 {
		if p, ok := padEncodedMap(out, padTarget(b.T, b.PadHuge)); ok {
			b.Padded++
			return p
		}
	}
	return out
}

// padEncodedMap appends a "pad" entry to an already encoded map (whatever
// head widths and key order the peer chose) so that the result has exactly
// target bytes.
func padEncodedMap(enc []byte, target int) ([]byte, bool) {
	root, err := rc.MParse(enc, false)
	if err != nil || root.Major != 5 || root.W < 0 {
		return nil, false
	}
	for _, k := range root.Keys {
		if k.Major == 3 && string(k.Bytes) == "pad" {
			return nil, false
		}
	}
	root.Keys = append(root.Keys, &rc.M{Major: 3, Bytes: []byte("pad")})
	val := &rc.M{Major: 2, Bytes: []byte{}}
	root.Vals = append(root.Vals, val)
	base := len(root.Enc())
	for delta := 0; delta <= 8; delta++ {
		n := target - base - delta
		if n < 0 {
			break
		}
		val.Bytes = make([]byte, n)
		if out := root.Enc(); len(out) == target {
			return out, true
		}
	}
	return nil, false
}

func (b *Builder) entropyFor(tag string) []byte {
	return append(append([]byte{}, b.Entropy...), tag...)
}

// csigValue builds the value of a countersignature group as raw CBOR.
func (b *Builder) groupEntries(groups []CsigGroup, p Parent) []rc.KV {
	var out []rc.KV
	for _, g := range groups {
		if g.Abbrev() {
			c := g.Items[0]
			tbs := CountersignTBS(p, true, []byte{}, c.External)
			sig := b.sign(c.Key, tbs, fmt.Sprintf("%s/%d", p.Where, g.Label))
			out = append(out, rc.E(rc.Int(g.Label), rc.Bytes(sig)))
			continue
		}
		var items []rc.Val
		for ci, c := range g.Items {
			cp := b.protContent(withInject(c.Prot, c.Inject, c.Key.Alg))
			tbs := CountersignTBS(p, false, cp, c.External)
			where := fmt.Sprintf("%s/%d[%d]", p.Where, g.Label, ci)
			sig := b.sign(c.Key, tbs, where)
			un := c.Unprot.Clone()
			un.M = append(un.M, b.groupEntries(c.Groups, Parent{Kind: refcose.KCountersignature, BodyProt: cp, Payload: sig, Where: where})...)
			raw := []byte{0x83}
			raw = append(raw, rc.Encode(rc.Bytes(cp), b.ch())...)
			raw = append(raw, rc.Encode(un, b.ch())...)
			raw = append(raw, rc.Encode(rc.Bytes(sig), b.ch())...)
			items = append(items, rc.Raw(raw))
		}
		if g.AsList {
			out = append(out, rc.E(rc.Int(g.Label), rc.Array(items...)))
		} else {
			out = append(out, rc.E(rc.Int(g.Label), items[0]))
		}
	}
	return out
}

// Built is the result of building a message.
type Built struct {
	Wire        []byte
	ProtContent []byte
	Sigs        [][]byte // signature bytes per signer
	SigProts    [][]byte // protected content per signer (Sign)
}

// Build encodes and reference-signs spec.
func (b *Builder) Build(m *MsgSpec) Built {
	var out Built
	ext := m.Ext()
	var pc []byte
	if m.Kind == refcose.KSign {
		pc = b.protContent(m.Prot)
	} else {
		pc = b.protContent(withInject(m.Prot, m.Inject, m.Sigs[0].Key.Alg))
	}
	out.ProtContent = pc
	payloadItem := rc.Encode(rc.Bytes(m.Payload), b.ch())
	if m.Detached {
		payloadItem = []byte{0xf6}
	}
	un := m.Unprot.Clone()
	var wire []byte
	switch m.Kind {
	case refcose.KSign1, refcose.KSign1Untagged:
		key := m.Sigs[0].Key
		sig := b.sign(key, refcose.SigStructure1(pc, ext, m.Payload), "msg")
		out.Sigs = [][]byte{sig}
		un.M = append(un.M, b.groupEntries(m.Groups, Parent{Kind: refcose.KSign1, BodyProt: pc, Payload: m.Payload, Sig: sig, Where: "msg"})...)
		if m.Kind == refcose.KSign1 {
			wire = []byte{0xd2, 0x84}
		} else {
			wire = []byte{0x84}
		}
		wire = append(wire, rc.Encode(rc.Bytes(pc), b.ch())...)
		wire = append(wire, rc.Encode(un, b.ch())...)
		wire = append(wire, payloadItem...)
		wire = append(wire, rc.Encode(rc.Bytes(sig), b.ch())...)
	case refcose.KSign:
		var sigItems []rc.Val
		for i, s := range m.Sigs {
			if s.TwinOf > 0 && s.TwinOf-1 < i {
				if b.OnTBS != nil {
					b.OnTBS(fmt.Sprintf("sig[%d]", i), refcose.SigStructure(pc, out.SigProts[s.TwinOf-1], ext, m.Payload))
				}
				out.Sigs = append(out.Sigs, out.Sigs[s.TwinOf-1])
				out.SigProts = append(out.SigProts, out.SigProts[s.TwinOf-1])
				sigItems = append(sigItems, sigItems[s.TwinOf-1])
				continue
			}
			sp := b.protContent(withInject(s.Prot, s.Inject, s.Key.Alg))
			where := fmt.Sprintf("sig[%d]", i)
			sig := b.sign(s.Key, refcose.SigStructure(pc, sp, ext, m.Payload), where)
			out.Sigs = append(out.Sigs, sig)
			out.SigProts = append(out.SigProts, sp)
			su := s.Unprot.Clone()
			su.M = append(su.M, b.groupEntries(s.Groups, Parent{Kind: refcose.KSignature, BodyProt: sp, Payload: sig, Where: where})...)
			raw := []byte{0x83}
			raw = append(raw, rc.Encode(rc.Bytes(sp), b.ch())...)
			raw = append(raw, rc.Encode(su, b.ch())...)
			raw = append(raw, rc.Encode(rc.Bytes(sig), b.ch())...)
			sigItems = append(sigItems, rc.Raw(raw))
		}
		un.M = append(un.M, b.groupEntries(m.Groups, Parent{Kind: refcose.KSign, BodyProt: pc, Payload: m.Payload, Where: "msg"})...)
		wire = []byte{0xd8, 0x62, 0x84}
		wire = append(wire, rc.Encode(rc.Bytes(pc), b.ch())...)
		wire = append(wire, rc.Encode(un, b.ch())...)
		wire = append(wire, payloadItem...)
		wire = append(wire, rc.Encode(rc.Array(sigItems...), b.ch())...)
	default:
		panic("gen: Build: unsupported kind")
	}
	out.Wire = wire
	return out
}
