package bridge

import "github.com/fxamacker/cbor/v2"

func cborTag(n uint64, content any) any { return cbor.Tag{Number: n, Content: content} }
func cborRaw(b []byte) any              { return cbor.RawMessage(append([]byte{}, b...)) }
func cborByteString(b []byte) any       { return cbor.ByteString(string(b)) }
func cborSimple(n uint8) any            { return cbor.SimpleValue(n) }
