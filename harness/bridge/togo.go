// Package bridge converts the harness' abstract values into the Go values the
// go-cose API takes, builds signers/verifiers from key material, and provides
// recording / fault-injecting Signer and Verifier implementations.
package bridge

import (
	"encoding/json"
	"fmt"
	"math"
	"math/big"
	"time"

	cose "github.com/veraison/go-cose"

	rc "verifharness/refcbor"
	"verifharness/refcose"
)

// goInt spells integer value (neg,u) with the Go type selected by sp; when the
// value does not fit the type it falls back to int64 (or uint64 above int64).
func goInt(v rc.Val) any {
	if !v.Neg && v.U > math.MaxInt64 {
		return v.U
	}
	if v.Neg && v.U > math.MaxInt64 {
		// below int64: not representable by any Go integer type; callers
		// exclude this from "supported model" cases.
		return -float64(v.U) - 1
	}
	var i int64
	if v.Neg {
		i = -1 - int64(v.U)
	} else {
		i = int64(v.U)
	}
	switch v.Sp {
	case rc.SpInt:
		return int(i)
	case rc.SpInt8:
		if i >= math.MinInt8 && i <= math.MaxInt8 {
			return int8(i)
		}
	case rc.SpInt16:
		if i >= math.MinInt16 && i <= math.MaxInt16 {
			return int16(i)
		}
	case rc.SpInt32:
		if i >= math.MinInt32 && i <= math.MaxInt32 {
			return int32(i)
		}
	case rc.SpUint:
		if i >= 0 {
			return uint(i)
		}
	case rc.SpUint8:
		if i >= 0 && i <= math.MaxUint8 {
			return uint8(i)
		}
	case rc.SpUint16:
		if i >= 0 && i <= math.MaxUint16 {
			return uint16(i)
		}
	case rc.SpUint32:
		if i >= 0 && i <= math.MaxUint32 {
			return uint32(i)
		}
	case rc.SpUint64:
		if i >= 0 {
			return uint64(i)
		}
	case rc.SpAlgorithm:
		return cose.Algorithm(i)
	case rc.SpBigInt:
		return *big.NewInt(i)
	case rc.SpBigIntPtr:
		return big.NewInt(i)
	case rc.SpNamedInt:
		return NamedInt(i)
	case rc.SpTime:
		if i > -(1<<40) && i < 1<<40 {
			return time.Unix(i, 0).UTC()
		}
	}
	return i
}

// SpellingFits reports whether integer i is representable in spelling sp.
func SpellingFits(i int64, sp uint8) bool {
	v := rc.IntSp(i, sp)
	switch goInt(v).(type) {
	case int64:
		return sp == rc.SpInt64
	}
	return true
}

// ToGo converts an abstract value to the Go value a caller of go-cose would
// build: ints in their chosen spelling, []byte, string, []any, map[any]any,
// bool, nil, float64, cbor.Tag.
func ToGo(v rc.Val) any {
	switch v.K {
	case rc.KInt:
		return goInt(v)
	case rc.KBytes:
		if v.Nil && len(v.B) == 0 {
			return []byte(nil)
		}
		return append([]byte{}, v.B...)
	case rc.KText:
		switch v.Sp {
		case rc.SpJSONNumber:
			return json.Number(string(v.B))
		case rc.SpNamedString:
			return NamedString(string(v.B))
		}
		return string(v.B)
	case rc.KArray:
		out := make([]any, len(v.A))
		for i, x := range v.A {
			out[i] = ToGo(x)
		}
		return out
	case rc.KMap:
		out := make(map[any]any, len(v.M))
		for _, e := range v.M {
			if e.K.K == rc.KBytes {
				out[cborByteString(e.K.B)] = ToGo(e.V)
				continue
			}
			out[ToGo(e.K)] = ToGo(e.V)
		}
		return out
	case rc.KBool:
		return v.U != 0
	case rc.KNull:
		return nil
	case rc.KFloat:
		return math.Float64frombits(v.F)
	case rc.KTag:
		return cborTag(v.T, ToGo(v.A[0]))
	case rc.KRaw:
		return cborRaw(v.B)
	case rc.KSimple:
		return cborSimple(uint8(v.U))
	case rc.KUndef:
		return cborRaw([]byte{0xf7})
	}
	panic(fmt.Sprintf("bridge: cannot convert kind %d to Go", v.K))
}

// CsigMode selects how countersignature values (labels 7/11) are built.
type CsigMode int

const (
	CsigParsed CsigMode = iota // Headers.Protected/Unprotected maps
	CsigRaw                    // Headers.RawProtected/RawUnprotected bytes
)

// ToProtected converts a map value to a ProtectedHeader.
func ToProtected(v rc.Val) cose.ProtectedHeader {
	if v.K != rc.KMap {
		return nil
	}
	h := cose.ProtectedHeader{}
	for _, e := range v.M {
		h[ToGo(e.K)] = ToGo(e.V)
	}
	return h
}

// ToUnprotected converts a map value to an UnprotectedHeader; values under
// labels 7 and 11 that have the shape of a countersignature (or list) become
// *cose.Countersignature / []*cose.Countersignature.
func ToUnprotected(v rc.Val, mode CsigMode) cose.UnprotectedHeader {
	if v.K != rc.KMap {
		return nil
	}
	h := cose.UnprotectedHeader{}
	for _, e := range v.M {
		if l, ok := e.K.Int64(); ok && (l == 7 || l == 11) {
			if c, ok := ToCountersigValue(e.V, mode); ok {
				h[ToGo(e.K)] = c
				continue
			}
		}
		h[ToGo(e.K)] = ToGo(e.V)
	}
	return h
}

// ToCountersigValue converts [bstr, map, bstr] or a list of them.
func ToCountersigValue(v rc.Val, mode CsigMode) (any, bool) {
	if v.K != rc.KArray {
		return nil, false
	}
	if c, ok := toCountersig(v, mode); ok {
		return c, true
	}
	if len(v.A) == 0 {
		return nil, false
	}
	var list []*cose.Countersignature
	for _, x := range v.A {
		c, ok := toCountersig(x, mode)
		if !ok {
			return nil, false
		}
		list = append(list, c)
	}
	return list, true
}

func toCountersig(v rc.Val, mode CsigMode) (*cose.Countersignature, bool) {
	if v.K != rc.KArray || len(v.A) != 3 || v.A[0].K != rc.KBytes || v.A[1].K != rc.KMap || v.A[2].K != rc.KBytes {
		return nil, false
	}
	c := &cose.Countersignature{Signature: append([]byte{}, v.A[2].B...)}
	if mode == CsigRaw {
		c.Headers.RawProtected = rc.Encode(v.A[0], nil)
		c.Headers.RawUnprotected = rc.Encode(v.A[1], nil)
		// keep the parsed maps in step with the raw bytes, as a decoder would
		if len(v.A[0].B) > 0 {
			if pm, err := rc.Decode(v.A[0].B); err == nil {
				c.Headers.Protected = ToProtected(pm)
			}
		} else {
			c.Headers.Protected = cose.ProtectedHeader{}
		}
		c.Headers.Unprotected = ToUnprotected(v.A[1], mode)
		return c, true
	}
	if len(v.A[0].B) > 0 {
		pm, err := rc.Decode(v.A[0].B)
		if err != nil || pm.K != rc.KMap {
			return nil, false
		}
		c.Headers.Protected = ToProtected(pm)
	} else {
		c.Headers.Protected = cose.ProtectedHeader{}
	}
	c.Headers.Unprotected = ToUnprotected(v.A[1], mode)
	return c, true
}

// Headers builds cose.Headers from two abstract maps (parsed form).
func Headers(prot, unprot rc.Val) cose.Headers {
	return cose.Headers{Protected: ToProtected(prot), Unprotected: ToUnprotected(unprot, CsigParsed)}
}

// AlgOf converts an algorithm id.
func AlgOf(a int64) cose.Algorithm { return cose.Algorithm(a) }

var _ = refcose.AlgES256

// NamedInt / NamedString: caller-defined types over int64 / string (what a typed configuration layer hands over).
type NamedInt int64
type NamedString string
