package bridge

import (
	"bytes"
	"crypto"
	"errors"
	"fmt"
	"io"
	"sync"

	cose "github.com/veraison/go-cose"

	"verifharness/refcose"
)

// Signer returns a built-in go-cose signer for the key material. With viaKey
// the key goes through NewKeyFromPrivate -> MarshalCBOR -> UnmarshalCBOR ->
// Key.Signer (EC and Ed25519 only).
func Signer(km refcose.KeyMat, viaKey bool) (cose.Signer, error) {
	priv := km.Private()
	if viaKey && km.Family() != "rsa" {
		k, err := cose.NewKeyFromPrivate(priv)
		if err != nil {
			return nil, fmt.Errorf("NewKeyFromPrivate: %w", err)
		}
		b, err := k.MarshalCBOR()
		if err != nil {
			return nil, fmt.Errorf("Key.MarshalCBOR: %w", err)
		}
		var k2 cose.Key
		if err := k2.UnmarshalCBOR(b); err != nil {
			return nil, fmt.Errorf("Key.UnmarshalCBOR(%x): %w", b, err)
		}
		return k2.Signer()
	}
	return cose.NewSigner(cose.Algorithm(km.Alg), priv)
}

// Verifier is the verifying counterpart of Signer.
func Verifier(km refcose.KeyMat, viaKey bool) (cose.Verifier, error) {
	pub := km.Public()
	if viaKey && km.Family() != "rsa" {
		k, err := cose.NewKeyFromPublic(pub)
		if err != nil {
			return nil, fmt.Errorf("NewKeyFromPublic: %w", err)
		}
		b, err := k.MarshalCBOR()
		if err != nil {
			return nil, fmt.Errorf("Key.MarshalCBOR: %w", err)
		}
		var k2 cose.Key
		if err := k2.UnmarshalCBOR(b); err != nil {
			return nil, fmt.Errorf("Key.UnmarshalCBOR(%x): %w", b, err)
		}
		return k2.Verifier()
	}
	return cose.NewVerifier(cose.Algorithm(km.Alg), pub)
}

// Fault modes of a SpySigner.
const (
	SignOK      = iota // returns Inner(tbs) (or a fixed dummy signature)
	SignErr            // returns (nil, ErrInjected)
	SignPartial        // returns (some bytes, ErrInjected)
	SignEmpty          // returns (empty, nil)
	SignNil            // returns (nil, nil)
)

// ErrInjected is the error returned by fault-injecting spies.
var ErrInjected = errors.New("injected signer fault")

// ErrInjectedVerify is returned by fault-injecting verifiers.
var ErrInjectedVerify = errors.New("injected verifier fault")

// SpySigner records every ToBeSigned it is handed.
type SpySigner struct {
	Alg   cose.Algorithm
	Mode  int
	Inner func(tbs []byte) []byte
	// Reenter, if set, is called while the signer still holds the content it
	// was handed (a key that itself uses the library, or simply takes time);
	// afterwards the content must be unchanged, else Corrupted is set.
	Reenter   func()
	Corrupted bool
	mu        sync.Mutex
	Calls     [][]byte
}

func (s *SpySigner) Algorithm() cose.Algorithm { return s.Alg }

func (s *SpySigner) Sign(_ io.Reader, content []byte) ([]byte, error) {
	snapshot := append([]byte{}, content...)
	s.mu.Lock()
	s.Calls = append(s.Calls, snapshot)
	s.mu.Unlock()
	if s.Reenter != nil {
		s.Reenter()
		if !bytes.Equal(content, snapshot) {
			s.Corrupted = true
		}
	}
	switch s.Mode {
	case SignErr:
		return nil, ErrInjected
	case SignPartial:
		return []byte{0xde, 0xad, 0xbe, 0xef}, ErrInjected
	case SignEmpty:
		return []byte{}, nil
	case SignNil:
		return nil, nil
	}
	if s.Inner != nil {
		return s.Inner(content), nil
	}
	return []byte{0x51, 0x9e, 0xd0}, nil
}

// NCalls returns the number of Sign calls.
func (s *SpySigner) NCalls() int { s.mu.Lock(); defer s.mu.Unlock(); return len(s.Calls) }

// Last returns the last recorded ToBeSigned.
func (s *SpySigner) Last() []byte {
	s.mu.Lock()
	defer s.mu.Unlock()
	if len(s.Calls) == 0 {
		return nil
	}
	return s.Calls[len(s.Calls)-1]
}

// VCall is one recorded Verify call.
type VCall struct{ Content, Sig []byte }

// SpyVerifier records every call and returns Result (or Fn's verdict).
type SpyVerifier struct {
	Alg    cose.Algorithm
	Result error
	Fn     func(content, sig []byte) error
	// Results, if set, scripts the outcome per call (the last entry repeats).
	Results []error
	// Reenter: see SpySigner.
	Reenter   func()
	Corrupted bool
	mu        sync.Mutex
	Calls     []VCall
}

func (v *SpyVerifier) Algorithm() cose.Algorithm { return v.Alg }

func (v *SpyVerifier) Verify(content, sig []byte) error {
	v.mu.Lock()
	v.Calls = append(v.Calls, VCall{append([]byte{}, content...), append([]byte{}, sig...)})
	n := len(v.Calls)
	v.mu.Unlock()
	if v.Reenter != nil {
		snapshot := append([]byte{}, content...)
		v.Reenter()
		if !bytes.Equal(content, snapshot) {
			v.Corrupted = true
		}
	}
	if len(v.Results) > 0 {
		if n > len(v.Results) {
			n = len(v.Results)
		}
		return v.Results[n-1]
	}
	if v.Fn != nil {
		return v.Fn(content, sig)
	}
	return v.Result
}

func (v *SpyVerifier) NCalls() int { v.mu.Lock(); defer v.mu.Unlock(); return len(v.Calls) }

func (v *SpyVerifier) Last() VCall {
	v.mu.Lock()
	defer v.mu.Unlock()
	if len(v.Calls) == 0 {
		return VCall{}
	}
	return v.Calls[len(v.Calls)-1]
}

// RefSigner is a cose.Signer backed by the reference signer (so signatures do
// not depend on go-cose's own signers).
func RefSigner(km refcose.KeyMat, entropy []byte) *SpySigner {
	return &SpySigner{Alg: cose.Algorithm(km.Alg), Inner: func(tbs []byte) []byte { return refcose.Sign(km.Alg, km, tbs, entropy) }}
}

// RefVerifier is a cose.Verifier backed by the reference verifier.
func RefVerifier(km refcose.KeyMat) *SpyVerifier {
	pub := km.Public()
	return &SpyVerifier{Alg: cose.Algorithm(km.Alg), Fn: func(c, s []byte) error {
		if refcose.Verify(km.Alg, pub, c, s) {
			return nil
		}
		return cose.ErrVerification
	}}
}

// StubCryptoSigner is a crypto.Signer whose Public() and Sign() are scripted.
type StubCryptoSigner struct {
	Pub    crypto.PublicKey
	SignFn func(rand io.Reader, digest []byte, opts crypto.SignerOpts) ([]byte, error)
}

func (s *StubCryptoSigner) Public() crypto.PublicKey { return s.Pub }
func (s *StubCryptoSigner) Sign(rand io.Reader, digest []byte, opts crypto.SignerOpts) ([]byte, error) {
	return s.SignFn(rand, digest, opts)
}
