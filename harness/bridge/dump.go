package bridge

import (
	"fmt"
	"math"
	"reflect"
	"sort"
	"strings"
	"unsafe"
)

// Dump renders an arbitrary Go value into a canonical string: it follows
// pointers, reads unexported fields, prints floats by bit pattern, sorts map
// entries, and for slices also prints the spare capacity beyond len (so a
// write into the cap area by an append-in-place is visible).
func Dump(v any) string {
	var sb strings.Builder
	d := dumper{sb: &sb, seen: map[uintptr]bool{}}
	d.dump(reflect.ValueOf(v), 0)
	return sb.String()
}

// DumpValue is Dump without the spare capacity of slices: the logical value
// only (used to compare two different objects that should hold equal values).
func DumpValue(v any) string {
	var sb strings.Builder
	d := dumper{sb: &sb, seen: map[uintptr]bool{}, noCap: true}
	d.dump(reflect.ValueOf(v), 0)
	return sb.String()
}

type dumper struct {
	sb    *strings.Builder
	seen  map[uintptr]bool
	noCap bool
}

func (d *dumper) dump(v reflect.Value, depth int) {
	if depth > 40 {
		d.sb.WriteString("<deep>")
		return
	}
	if !v.IsValid() {
		d.sb.WriteString("<nil>")
		return
	}
	if v.CanAddr() && !v.CanInterface() {
		// make unexported fields readable
		v = reflect.NewAt(v.Type(), unsafe.Pointer(v.UnsafeAddr())).Elem()
	}
	switch v.Kind() {
	case reflect.Bool:
		fmt.Fprintf(d.sb, "%v", v.Bool())
	case reflect.Int, reflect.Int8, reflect.Int16, reflect.Int32, reflect.Int64:
		fmt.Fprintf(d.sb, "%s(%d)", v.Type(), v.Int())
	case reflect.Uint, reflect.Uint8, reflect.Uint16, reflect.Uint32, reflect.Uint64, reflect.Uintptr:
		fmt.Fprintf(d.sb, "%s(%d)", v.Type(), v.Uint())
	case reflect.Float32, reflect.Float64:
		fmt.Fprintf(d.sb, "%s(%016x)", v.Type(), math.Float64bits(v.Float()))
	case reflect.String:
		fmt.Fprintf(d.sb, "%q", v.String())
	case reflect.Ptr:
		if v.IsNil() {
			fmt.Fprintf(d.sb, "(%s)nil", v.Type())
			return
		}
		p := v.Pointer()
		if d.seen[p] {
			fmt.Fprintf(d.sb, "&<cycle>")
			return
		}
		d.seen[p] = true
		d.sb.WriteByte('&')
		d.dump(v.Elem(), depth+1)
		delete(d.seen, p)
	case reflect.Interface:
		if v.IsNil() {
			d.sb.WriteString("<nil-iface>")
			return
		}
		fmt.Fprintf(d.sb, "<%s>", v.Elem().Type())
		e := v.Elem()
		if e.Kind() != reflect.Ptr && e.Kind() != reflect.Map && e.Kind() != reflect.Slice {
			// make addressable copy so unexported fields can be read
			c := reflect.New(e.Type()).Elem()
			c.Set(e)
			e = c
		}
		d.dump(e, depth+1)
	case reflect.Slice:
		if v.IsNil() {
			fmt.Fprintf(d.sb, "(%s)nil", v.Type())
			return
		}
		if v.Type().Elem().Kind() == reflect.Uint8 {
			full := v.Slice3(0, v.Cap(), v.Cap())
			if d.noCap {
				full = v
			}
			b := make([]byte, full.Len())
			reflect.Copy(reflect.ValueOf(b), full)
			fmt.Fprintf(d.sb, "%s{%x|%x}", v.Type(), b[:v.Len()], b[v.Len():])
			return
		}
		full := v.Slice3(0, v.Cap(), v.Cap())
		if d.noCap {
			full = v
			fmt.Fprintf(d.sb, "%s[len=%d]{", v.Type(), v.Len())
		} else {
			fmt.Fprintf(d.sb, "%s[len=%d cap=%d]{", v.Type(), v.Len(), v.Cap())
		}
		for i := 0; i < full.Len(); i++ {
			if i == v.Len() {
				d.sb.WriteString(" | ")
			} else if i > 0 {
				d.sb.WriteString(", ")
			}
			d.dump(full.Index(i), depth+1)
		}
		d.sb.WriteByte('}')
	case reflect.Array:
		fmt.Fprintf(d.sb, "%s{", v.Type())
		for i := 0; i < v.Len(); i++ {
			if i > 0 {
				d.sb.WriteString(", ")
			}
			d.dump(v.Index(i), depth+1)
		}
		d.sb.WriteByte('}')
	case reflect.Map:
		if v.IsNil() {
			fmt.Fprintf(d.sb, "(%s)nil", v.Type())
			return
		}
		type ent struct{ k, v string }
		var ents []ent
		it := v.MapRange()
		for it.Next() {
			var ks, vs strings.Builder
			kd := dumper{sb: &ks, seen: d.seen, noCap: d.noCap}
			kd.dump(copyAddr(it.Key()), depth+1)
			vd := dumper{sb: &vs, seen: d.seen, noCap: d.noCap}
			vd.dump(copyAddr(it.Value()), depth+1)
			ents = append(ents, ent{ks.String(), vs.String()})
		}
		sort.Slice(ents, func(i, j int) bool {
			if ents[i].k != ents[j].k {
				return ents[i].k < ents[j].k
			}
			return ents[i].v < ents[j].v
		})
		fmt.Fprintf(d.sb, "%s{", v.Type())
		for i, e := range ents {
			if i > 0 {
				d.sb.WriteString(", ")
			}
			d.sb.WriteString(e.k)
			d.sb.WriteString(": ")
			d.sb.WriteString(e.v)
		}
		d.sb.WriteByte('}')
	case reflect.Struct:
		fmt.Fprintf(d.sb, "%s{", v.Type())
		if !v.CanAddr() {
			c := reflect.New(v.Type()).Elem()
			c.Set(v)
			v = c
		}
		for i := 0; i < v.NumField(); i++ {
			if i > 0 {
				d.sb.WriteString(", ")
			}
			d.sb.WriteString(v.Type().Field(i).Name)
			d.sb.WriteByte(':')
			d.dump(v.Field(i), depth+1)
		}
		d.sb.WriteByte('}')
	case reflect.Func:
		if v.IsNil() {
			d.sb.WriteString("func(nil)")
		} else {
			d.sb.WriteString("func")
		}
	case reflect.UnsafePointer:
		// e.g. the word inside an atomic.Pointer: the address is all that can be observed; it is
		// meaningful only when the same object is dumped twice (omitted in value-only dumps)
		if d.noCap {
			fmt.Fprintf(d.sb, "unsafe.Pointer(nil=%v)", v.Pointer() == 0)
		} else {
			fmt.Fprintf(d.sb, "unsafe.Pointer(%#x)", v.Pointer())
		}
	case reflect.Chan:
		fmt.Fprintf(d.sb, "%s", v.Type())
	default:
		fmt.Fprintf(d.sb, "?%s", v.Kind())
	}
}

func copyAddr(v reflect.Value) reflect.Value {
	if v.Kind() == reflect.Interface || v.CanAddr() {
		return v
	}
	c := reflect.New(v.Type()).Elem()
	c.Set(v)
	return c
}
