package bridge

import "reflect"

// Scribble edits, in place, everything reachable from v that a caller of the
// library may legitimately edit after a decode: every map gets one more entry
// (when its key type admits a string or integer key), every non-empty byte
// slice has its bytes inverted. It returns how many places were edited. Used
// to show that a value handed out by one decode shares no mutable state with
// the value handed out by a later decode.
func Scribble(v any) int {
	n := 0
	scribble(reflect.ValueOf(v), 0, &n, map[uintptr]bool{})
	return n
}

func scribble(v reflect.Value, depth int, n *int, seen map[uintptr]bool) {
	if depth > 20 || !v.IsValid() {
		return
	}
	switch v.Kind() {
	case reflect.Pointer:
		if v.IsNil() || seen[v.Pointer()] {
			return
		}
		seen[v.Pointer()] = true
		scribble(v.Elem(), depth+1, n, seen)
	case reflect.Interface:
		if !v.IsNil() {
			scribble(v.Elem(), depth+1, n, seen)
		}
	case reflect.Struct:
		for i := 0; i < v.NumField(); i++ {
			if v.Type().Field(i).IsExported() {
				scribble(v.Field(i), depth+1, n, seen)
			}
		}
	case reflect.Slice:
		if v.IsNil() {
			return
		}
		if v.Type().Elem().Kind() == reflect.Uint8 {
			if v.Len() > 0 && v.Index(0).CanSet() {
				b := v.Bytes()
				for i := range b {
					b[i] ^= 0xff
				}
				*n++
			}
			return
		}
		for i := 0; i < v.Len(); i++ {
			scribble(v.Index(i), depth+1, n, seen)
		}
	case reflect.Map:
		if v.IsNil() {
			return
		}
		for _, k := range v.MapKeys() {
			scribble(v.MapIndex(k), depth+1, n, seen)
		}
		kt, et := v.Type().Key(), v.Type().Elem()
		var key reflect.Value
		switch {
		case kt.Kind() == reflect.Interface:
			key = reflect.ValueOf("verif-scribble")
		case kt.Kind() == reflect.String:
			key = reflect.ValueOf("verif-scribble").Convert(kt)
		case kt.Kind() == reflect.Int64 || kt.Kind() == reflect.Int:
			key = reflect.ValueOf(int64(-70001)).Convert(kt)
		default:
			return
		}
		var val reflect.Value
		if et.Kind() == reflect.Interface {
			val = reflect.ValueOf(int64(1))
		} else {
			val = reflect.Zero(et)
		}
		v.SetMapIndex(key, val)
		*n++
	}
}
