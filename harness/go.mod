module verifharness

go 1.23

toolchain go1.23.5

require (
	github.com/fxamacker/cbor/v2 v2.5.0
	github.com/veraison/go-cose v0.0.0
	pgregory.net/rapid v1.3.0
)

require github.com/x448/float16 v0.8.4 // indirect

replace github.com/veraison/go-cose => /repo
