// Package refcbor is the harness' independent CBOR implementation (RFC 8949).
// It shares no code with fxamacker/cbor: a parser that keeps every encoding
// detail (head widths, spans, indefinite flags), a value model and an encoder
// that is either deterministic or driven by a "peer encoder" chooser.
package refcbor

import (
	"bytes"
	"encoding/binary"
	"errors"
	"unicode/utf8"
)

// Node is one CBOR data item as found in an input.
type Node struct {
	Start, End int // span in the parsed input
	Major      byte
	AI         byte   // additional information (low 5 bits of the initial byte)
	Arg        uint64 // argument
	HeadLen    int
	Indef      bool
	Content    []byte  // bstr/tstr content (concatenated for indefinite strings)
	Items      []*Node // array items
	Keys, Vals []*Node // map entries in wire order
	Child      *Node   // tag content
	Src        []byte  // the input this node was parsed from
}

// ErrTrailing is returned (together with the parsed node) when bytes follow
// the first data item.
var ErrTrailing = errors.New("refcbor: trailing bytes")

const maxDepth = 200

// Parse parses exactly one data item. It accepts every well-formed encoding,
// including indefinite lengths, tags, non-minimal heads and duplicate keys.
func Parse(b []byte) (*Node, error) {
	n, end, err := parse(b, 0, 0)
	if err != nil {
		return nil, err
	}
	if end != len(b) {
		return n, ErrTrailing
	}
	return n, nil
}

// ParsePrefix parses the first data item and returns the offset after it.
func ParsePrefix(b []byte) (*Node, int, error) {
	return parse(b, 0, 0)
}

var errEOF = errors.New("refcbor: unexpected end of input")

func parse(b []byte, off, depth int) (*Node, int, error) {
	if depth > maxDepth {
		return nil, 0, errors.New("refcbor: nesting too deep")
	}
	if off >= len(b) {
		return nil, 0, errEOF
	}
	n := &Node{Start: off, Src: b}
	ib := b[off]
	n.Major = ib >> 5
	n.AI = ib & 0x1f
	p := off + 1
	switch {
	case n.AI < 24:
		n.Arg = uint64(n.AI)
	case n.AI == 24:
		if p+1 > len(b) {
			return nil, 0, errEOF
		}
		n.Arg = uint64(b[p])
		p++
	case n.AI == 25:
		if p+2 > len(b) {
			return nil, 0, errEOF
		}
		n.Arg = uint64(binary.BigEndian.Uint16(b[p:]))
		p += 2
	case n.AI == 26:
		if p+4 > len(b) {
			return nil, 0, errEOF
		}
		n.Arg = uint64(binary.BigEndian.Uint32(b[p:]))
		p += 4
	case n.AI == 27:
		if p+8 > len(b) {
			return nil, 0, errEOF
		}
		n.Arg = binary.BigEndian.Uint64(b[p:])
		p += 8
	case n.AI == 31:
		if n.Major == 0 || n.Major == 1 || n.Major == 6 {
			return nil, 0, errors.New("refcbor: indefinite length on int/tag")
		}
		if n.Major == 7 {
			return nil, 0, errors.New("refcbor: unexpected break")
		}
		n.Indef = true
	default:
		return nil, 0, errors.New("refcbor: reserved additional information")
	}
	n.HeadLen = p - off
	switch n.Major {
	case 0, 1:
	case 2, 3:
		if n.Indef {
			n.Content = []byte{}
			for {
				if p >= len(b) {
					return nil, 0, errEOF
				}
				if b[p] == 0xff {
					p++
					break
				}
				c, e, err := parse(b, p, depth+1)
				if err != nil {
					return nil, 0, err
				}
				if c.Major != n.Major || c.Indef {
					return nil, 0, errors.New("refcbor: bad chunk in indefinite string")
				}
				n.Content = append(n.Content, c.Content...)
				p = e
			}
		} else {
			if n.Arg > uint64(len(b)-p) {
				return nil, 0, errEOF
			}
			n.Content = b[p : p+int(n.Arg)]
			p += int(n.Arg)
		}
	case 4:
		if n.Indef {
			for {
				if p >= len(b) {
					return nil, 0, errEOF
				}
				if b[p] == 0xff {
					p++
					break
				}
				c, e, err := parse(b, p, depth+1)
				if err != nil {
					return nil, 0, err
				}
				n.Items = append(n.Items, c)
				p = e
			}
		} else {
			if n.Arg > uint64(len(b)) {
				return nil, 0, errEOF
			}
			for i := uint64(0); i < n.Arg; i++ {
				c, e, err := parse(b, p, depth+1)
				if err != nil {
					return nil, 0, err
				}
				n.Items = append(n.Items, c)
				p = e
			}
		}
	case 5:
		cnt := n.Arg
		if !n.Indef && cnt > uint64(len(b)) {
			return nil, 0, errEOF
		}
		for i := uint64(0); n.Indef || i < cnt; i++ {
			if n.Indef {
				if p >= len(b) {
					return nil, 0, errEOF
				}
				if b[p] == 0xff {
					p++
					break
				}
			}
			k, e, err := parse(b, p, depth+1)
			if err != nil {
				return nil, 0, err
			}
			v, e2, err := parse(b, e, depth+1)
			if err != nil {
				return nil, 0, err
			}
			n.Keys = append(n.Keys, k)
			n.Vals = append(n.Vals, v)
			p = e2
		}
	case 6:
		c, e, err := parse(b, p, depth+1)
		if err != nil {
			return nil, 0, err
		}
		n.Child = c
		p = e
	case 7:
		if n.AI == 24 && n.Arg < 32 {
			return nil, 0, errors.New("refcbor: invalid two-byte simple value")
		}
	}
	n.End = p
	return n, p, nil
}

// Raw returns the bytes of the item in the input.
func (n *Node) Raw() []byte { return n.Src[n.Start:n.End] }

// Walk visits n and all nested nodes (not descending into byte strings).
func (n *Node) Walk(f func(*Node)) {
	f(n)
	for _, c := range n.Items {
		c.Walk(f)
	}
	for i := range n.Keys {
		n.Keys[i].Walk(f)
		n.Vals[i].Walk(f)
	}
	if n.Child != nil {
		n.Child.Walk(f)
	}
}

// MinimalHead reports whether the head uses the shortest form. Floats and
// simple values are always reported minimal (width of floats is not part of
// the properties' notion of deterministic encoding).
func (n *Node) MinimalHead() bool {
	if n.Indef {
		return false
	}
	if n.Major == 7 {
		return true
	}
	switch {
	case n.Arg < 24:
		return n.AI < 24
	case n.Arg < 1<<8:
		return n.AI == 24
	case n.Arg < 1<<16:
		return n.AI == 25
	case n.Arg < 1<<32:
		return n.AI == 26
	}
	return n.AI == 27
}

// IsInt reports whether the node is a CBOR integer (major 0/1).
func (n *Node) IsInt() bool { return n.Major == 0 || n.Major == 1 }

// Int64 returns the integer value and whether it fits int64.
func (n *Node) Int64() (int64, bool) {
	if n.Major == 0 {
		if n.Arg > 1<<63-1 {
			return 0, false
		}
		return int64(n.Arg), true
	}
	if n.Major == 1 {
		if n.Arg > 1<<63-1 {
			return 0, false
		}
		return -1 - int64(n.Arg), true
	}
	return 0, false
}

// IsNull / IsUndef / IsBool
func (n *Node) IsNull() bool  { return n.Major == 7 && n.AI == 22 }
func (n *Node) IsUndef() bool { return n.Major == 7 && n.AI == 23 }

// Lookup returns the value of the first map entry whose key is the integer k.
func (n *Node) Lookup(k int64) *Node {
	if n.Major != 5 {
		return nil
	}
	for i, kn := range n.Keys {
		if v, ok := kn.Int64(); ok && kn.IsInt() && v == k {
			return n.Vals[i]
		}
	}
	return nil
}

// CanonKey returns a byte string identifying the key's *value* regardless of
// how it was encoded (deterministic re-encoding of the item).
func (n *Node) CanonKey() string {
	return string(Encode(FromNode(n), nil))
}

// Issue lists a deviation from deterministic encoding.
type Issue struct {
	Off  int
	What string // "nonminimal", "indefinite", "unsorted", "duplicate"
}

// DeterminismIssues lists every deviation from deterministic CBOR (shortest
// heads, definite lengths, bytewise-sorted unique keys) in n, not looking
// inside byte strings.
func DeterminismIssues(n *Node) []Issue {
	var out []Issue
	n.Walk(func(x *Node) {
		if x.Indef {
			out = append(out, Issue{x.Start, "indefinite"})
		} else if !x.MinimalHead() {
			out = append(out, Issue{x.Start, "nonminimal"})
		}
		if x.Major == 5 {
			seen := map[string]bool{}
			for i, k := range x.Keys {
				ck := k.CanonKey()
				if seen[ck] {
					out = append(out, Issue{k.Start, "duplicate"})
				}
				seen[ck] = true
				if i > 0 && bytes.Compare(x.Keys[i-1].Raw(), k.Raw()) >= 0 {
					out = append(out, Issue{k.Start, "unsorted"})
				}
			}
		}
	})
	return out
}

// HasDupKeys reports a duplicate key (by value) in any map of n, not looking
// inside byte strings. Float keys are compared by their bit pattern after
// widening to float64 (so byte-identical NaNs are duplicates).
func HasDupKeys(n *Node) (bool, *Node) {
	var dup *Node
	n.Walk(func(x *Node) {
		if x.Major != 5 || dup != nil {
			return
		}
		seen := map[string]bool{}
		for _, k := range x.Keys {
			ck := k.CanonKey()
			if seen[ck] {
				dup = k
				return
			}
			seen[ck] = true
		}
	})
	return dup != nil, dup
}

// ValidUTF8 reports whether every text string in n is valid UTF-8.
func ValidUTF8(n *Node) bool {
	ok := true
	n.Walk(func(x *Node) {
		if x.Major == 3 && !utf8.Valid(x.Content) {
			ok = false
		}
	})
	return ok
}

// Depth returns the nesting depth of n (a scalar has depth 1).
func Depth(n *Node) int {
	d := 0
	for _, c := range n.Items {
		if x := Depth(c); x > d {
			d = x
		}
	}
	for i := range n.Keys {
		if x := Depth(n.Keys[i]); x > d {
			d = x
		}
		if x := Depth(n.Vals[i]); x > d {
			d = x
		}
	}
	if n.Child != nil {
		if x := Depth(n.Child); x > d {
			d = x
		}
	}
	return d + 1
}
