package refcbor

import (
	"bytes"
	"encoding/binary"
	"encoding/hex"
	"encoding/json"
	"fmt"
	"math"
	"sort"
)

// Hex is a byte slice that is written as a hex string in JSON.
type Hex []byte

func (h Hex) MarshalJSON() ([]byte, error) {
	return json.Marshal(hex.EncodeToString(h))
}

func (h *Hex) UnmarshalJSON(b []byte) error {
	var s *string
	if err := json.Unmarshal(b, &s); err != nil {
		return err
	}
	if s == nil {
		*h = nil
		return nil
	}
	d, err := hex.DecodeString(*s)
	if err != nil {
		return err
	}
	if d == nil {
		d = []byte{}
	}
	*h = d
	return nil
}

// Kind of an abstract value.
type Kind uint8

const (
	KInt     Kind = iota // Neg,U: value = U or -1-U
	KBytes               // B
	KText                // B (may be invalid UTF-8 for adversarial inputs)
	KArray               // A
	KMap                 // M (ordered pairs)
	KTag                 // T, A[0]
	KBool                // U = 0/1
	KNull                //
	KUndef               //
	KFloat               // F = float64 bits, emitted as 8-byte float
	KSimple              // U = simple value number
	KRaw                 // B = pre-encoded item(s), emitted verbatim
	KFloat16             // F low 16 bits, emitted as f9 xx xx
	KFloat32             // F low 32 bits, emitted as fa xx xx xx xx
)

// Go integer spellings (Val.Sp) used when a value is handed to the library.
const (
	SpInt64 uint8 = iota
	SpInt
	SpInt8
	SpInt16
	SpInt32
	SpUint
	SpUint8
	SpUint16
	SpUint32
	SpUint64
	SpAlgorithm  // cose.Algorithm (only meaningful for alg values)
	NumSpellings = 10
	// value positions only (never labels): a number the caller holds as big.Int / *big.Int
	SpBigInt    uint8 = 20
	SpBigIntPtr uint8 = 21
	// value positions only: a whole number of seconds the caller holds as time.Time (the encoder writes
	// the epoch seconds as a plain integer)
	SpTime uint8 = 22
	// value positions only: Go types from outside the documented set. A number held as a named integer type (emitted
	// as that integer); on TEXT values: the text held as encoding/json.Number or as a named string type (emitted as text)
	SpNamedInt    uint8 = 23
	SpJSONNumber  uint8 = 30
	SpNamedString uint8 = 31
)

// Val is the harness' abstract CBOR value. Maps keep an explicit entry order.
type Val struct {
	K   Kind   `json:"k"`
	Neg bool   `json:"neg,omitempty"`
	U   uint64 `json:"u,omitempty"`
	B   Hex    `json:"b,omitempty"`
	A   []Val  `json:"a,omitempty"`
	M   []KV   `json:"m,omitempty"`
	T   uint64 `json:"t,omitempty"`
	F   uint64 `json:"f,omitempty"`
	Sp  uint8  `json:"sp,omitempty"`  // Go spelling of integers
	Nil bool   `json:"nil,omitempty"` // KBytes only: the caller holds a nil []byte (CBOR null on the wire)
}

// KV is a map entry.
type KV struct {
	K Val `json:"k"`
	V Val `json:"v"`
}

func Int(i int64) Val {
	if i < 0 {
		return Val{K: KInt, Neg: true, U: uint64(-1 - i)}
	}
	return Val{K: KInt, U: uint64(i)}
}
func IntSp(i int64, sp uint8) Val { v := Int(i); v.Sp = sp; return v }
func Uint(u uint64) Val           { return Val{K: KInt, U: u} }
func NegU(u uint64) Val           { return Val{K: KInt, Neg: true, U: u} }
func Bytes(b []byte) Val {
	if b == nil {
		b = []byte{}
	}
	return Val{K: KBytes, B: b}
}
func Text(s string) Val       { return Val{K: KText, B: []byte(s)} }
func Array(a ...Val) Val      { return Val{K: KArray, A: a} }
func Map(m ...KV) Val         { return Val{K: KMap, M: m} }
func Tag(t uint64, v Val) Val { return Val{K: KTag, T: t, A: []Val{v}} }
func Raw(b []byte) Val        { return Val{K: KRaw, B: b} }
func Bool(b bool) Val {
	if b {
		return Val{K: KBool, U: 1}
	}
	return Val{K: KBool}
}
func Float(f float64) Val { return Val{K: KFloat, F: math.Float64bits(f)} }
func Simple(n uint8) Val  { return Val{K: KSimple, U: uint64(n)} }

var (
	Null  = Val{K: KNull}
	Undef = Val{K: KUndef}
)

// E builds a map entry.
func E(k, v Val) KV { return KV{k, v} }

// IsInt64 reports whether v is an integer within int64 and returns it.
func (v Val) Int64() (int64, bool) {
	if v.K != KInt || v.U > math.MaxInt64 {
		return 0, false
	}
	if v.Neg {
		return -1 - int64(v.U), true
	}
	return int64(v.U), true
}

// Get returns the value stored under integer label k in a map value.
func (v Val) Get(k int64) (Val, bool) {
	for _, e := range v.M {
		if i, ok := e.K.Int64(); ok && i == k {
			return e.V, true
		}
	}
	return Val{}, false
}

// Has reports whether the integer label k is present.
func (v Val) Has(k int64) bool { _, ok := v.Get(k); return ok }

// With returns a copy of map v with entry (k,val) appended (replacing an
// existing one).
func (v Val) With(k Val, val Val) Val {
	out := Val{K: KMap}
	ck := string(Encode(k, nil))
	for _, e := range v.M {
		if string(Encode(e.K, nil)) != ck {
			out.M = append(out.M, e)
		}
	}
	out.M = append(out.M, KV{k, val})
	return out
}

// Without returns a copy of map v without integer label k.
func (v Val) Without(k int64) Val {
	out := Val{K: KMap}
	for _, e := range v.M {
		if i, ok := e.K.Int64(); ok && i == k {
			continue
		}
		out.M = append(out.M, e)
	}
	return out
}

// Clone deep-copies v.
func (v Val) Clone() Val {
	o := v
	if v.B != nil {
		o.B = append(Hex{}, v.B...)
	}
	if v.A != nil {
		o.A = make([]Val, len(v.A))
		for i := range v.A {
			o.A[i] = v.A[i].Clone()
		}
	}
	if v.M != nil {
		o.M = make([]KV, len(v.M))
		for i := range v.M {
			o.M[i] = KV{v.M[i].K.Clone(), v.M[i].V.Clone()}
		}
	}
	return o
}

// Chooser decides what a peer encoder is free to decide; nil means the
// deterministic encoding.
type Chooser interface {
	// Width returns the number of argument bytes to use (0 = in the initial
	// byte, 1, 2, 4, 8), at least min.
	Width(min int) int
	// Perm returns the order in which n map entries are emitted.
	Perm(n int) []int
}

func minWidth(arg uint64) int {
	switch {
	case arg < 24:
		return 0
	case arg < 1<<8:
		return 1
	case arg < 1<<16:
		return 2
	case arg < 1<<32:
		return 4
	}
	return 8
}

// Head encodes a CBOR head with the given number of argument bytes.
func Head(major byte, arg uint64, w int) []byte {
	switch w {
	case 0:
		return []byte{major<<5 | byte(arg)}
	case 1:
		return []byte{major<<5 | 24, byte(arg)}
	case 2:
		return []byte{major<<5 | 25, byte(arg >> 8), byte(arg)}
	case 4:
		o := make([]byte, 5)
		o[0] = major<<5 | 26
		binary.BigEndian.PutUint32(o[1:], uint32(arg))
		return o
	}
	o := make([]byte, 9)
	o[0] = major<<5 | 27
	binary.BigEndian.PutUint64(o[1:], arg)
	return o
}

func head(major byte, arg uint64, ch Chooser) []byte {
	w := minWidth(arg)
	if ch != nil {
		w = ch.Width(w)
	}
	return Head(major, arg, w)
}

// Encode encodes v. With ch == nil the result is deterministic CBOR: shortest
// heads, definite lengths, map keys sorted bytewise on their encodings.
func Encode(v Val, ch Chooser) []byte {
	switch v.K {
	case KInt:
		if v.Neg {
			return head(1, v.U, ch)
		}
		return head(0, v.U, ch)
	case KBytes:
		if v.Nil && len(v.B) == 0 {
			return []byte{0xf6} // a nil Go slice is CBOR null on the wire, not a byte string
		}
		return append(head(2, uint64(len(v.B)), ch), v.B...)
	case KText:
		return append(head(3, uint64(len(v.B)), ch), v.B...)
	case KArray:
		o := head(4, uint64(len(v.A)), ch)
		for _, x := range v.A {
			o = append(o, Encode(x, ch)...)
		}
		return o
	case KMap:
		type kv struct{ k, v []byte }
		kvs := make([]kv, len(v.M))
		for i, p := range v.M {
			kvs[i] = kv{Encode(p.K, ch), Encode(p.V, ch)}
		}
		if ch == nil {
			sort.SliceStable(kvs, func(i, j int) bool { return bytes.Compare(kvs[i].k, kvs[j].k) < 0 })
		} else {
			perm := ch.Perm(len(kvs))
			n := make([]kv, len(kvs))
			for i, p := range perm {
				n[i] = kvs[p]
			}
			kvs = n
		}
		o := head(5, uint64(len(kvs)), ch)
		for _, e := range kvs {
			o = append(o, e.k...)
			o = append(o, e.v...)
		}
		return o
	case KTag:
		return append(head(6, v.T, ch), Encode(v.A[0], ch)...)
	case KBool:
		if v.U != 0 {
			return []byte{0xf5}
		}
		return []byte{0xf4}
	case KNull:
		return []byte{0xf6}
	case KUndef:
		return []byte{0xf7}
	case KSimple:
		if v.U < 24 {
			return []byte{0xe0 | byte(v.U)}
		}
		return []byte{0xf8, byte(v.U)}
	case KFloat:
		o := make([]byte, 9)
		o[0] = 0xfb
		binary.BigEndian.PutUint64(o[1:], v.F)
		return o
	case KFloat32:
		o := make([]byte, 5)
		o[0] = 0xfa
		binary.BigEndian.PutUint32(o[1:], uint32(v.F))
		return o
	case KFloat16:
		return []byte{0xf9, byte(v.F >> 8), byte(v.F)}
	case KRaw:
		return append([]byte{}, v.B...)
	}
	panic(fmt.Sprint("refcbor: unknown kind ", v.K))
}

// FromNode converts a parsed node to an abstract value (encoding details are
// dropped, entry order is kept; indefinite strings become definite).
func FromNode(n *Node) Val {
	switch n.Major {
	case 0:
		return Val{K: KInt, U: n.Arg}
	case 1:
		return Val{K: KInt, Neg: true, U: n.Arg}
	case 2:
		return Val{K: KBytes, B: append(Hex{}, n.Content...)}
	case 3:
		return Val{K: KText, B: append(Hex{}, n.Content...)}
	case 4:
		v := Val{K: KArray, A: make([]Val, len(n.Items))}
		for i, c := range n.Items {
			v.A[i] = FromNode(c)
		}
		return v
	case 5:
		v := Val{K: KMap, M: make([]KV, len(n.Keys))}
		for i := range n.Keys {
			v.M[i] = KV{FromNode(n.Keys[i]), FromNode(n.Vals[i])}
		}
		return v
	case 6:
		return Val{K: KTag, T: n.Arg, A: []Val{FromNode(n.Child)}}
	}
	switch n.AI {
	case 20:
		return Val{K: KBool}
	case 21:
		return Val{K: KBool, U: 1}
	case 22:
		return Null
	case 23:
		return Undef
	case 25:
		return Val{K: KFloat16, F: n.Arg}
	case 26:
		return Val{K: KFloat32, F: n.Arg}
	case 27:
		return Val{K: KFloat, F: n.Arg}
	}
	return Val{K: KSimple, U: n.Arg}
}

// Decode parses b and converts it to a value.
func Decode(b []byte) (Val, error) {
	n, err := Parse(b)
	if err != nil {
		return Val{}, err
	}
	return FromNode(n), nil
}

// Equal compares two values by their deterministic encodings.
func Equal(a, b Val) bool { return bytes.Equal(Encode(a, nil), Encode(b, nil)) }

// String renders a value in a compact diagnostic-like notation.
func (v Val) String() string {
	var sb bytes.Buffer
	v.diag(&sb)
	return sb.String()
}

func (v Val) diag(sb *bytes.Buffer) {
	switch v.K {
	case KInt:
		if v.Neg {
			if v.U == math.MaxUint64 {
				sb.WriteString("-18446744073709551616")
			} else {
				fmt.Fprintf(sb, "-%d", v.U+1)
			}
		} else {
			fmt.Fprintf(sb, "%d", v.U)
		}
		if v.Sp != 0 {
			fmt.Fprintf(sb, "_%d", v.Sp)
		}
	case KBytes:
		fmt.Fprintf(sb, "h'%x'", []byte(v.B))
	case KText:
		fmt.Fprintf(sb, "%q", string(v.B))
	case KArray:
		sb.WriteByte('[')
		for i, x := range v.A {
			if i > 0 {
				sb.WriteString(", ")
			}
			x.diag(sb)
		}
		sb.WriteByte(']')
	case KMap:
		sb.WriteByte('{')
		for i, e := range v.M {
			if i > 0 {
				sb.WriteString(", ")
			}
			e.K.diag(sb)
			sb.WriteString(": ")
			e.V.diag(sb)
		}
		sb.WriteByte('}')
	case KTag:
		fmt.Fprintf(sb, "%d(", v.T)
		v.A[0].diag(sb)
		sb.WriteByte(')')
	case KBool:
		fmt.Fprintf(sb, "%v", v.U != 0)
	case KNull:
		sb.WriteString("null")
	case KUndef:
		sb.WriteString("undefined")
	case KSimple:
		fmt.Fprintf(sb, "simple(%d)", v.U)
	case KFloat:
		fmt.Fprintf(sb, "%v_f64", math.Float64frombits(v.F))
	case KFloat32:
		fmt.Fprintf(sb, "%v_f32", math.Float32frombits(uint32(v.F)))
	case KFloat16:
		fmt.Fprintf(sb, "f16(%04x)", v.F)
	case KRaw:
		fmt.Fprintf(sb, "raw(%x)", []byte(v.B))
	}
}
