package refcbor

// Mutable CBOR tree that remembers every encoding choice of the input it was
// parsed from (head widths, key order, indefinite lengths), so that the
// untouched parts of a mutated message are re-emitted byte for byte. Used by
// the structure-aware mutators.

// M is a mutable CBOR item.
type M struct {
	Major   byte
	W       int     // argument bytes: 0, 1, 2, 4, 8; -1 = indefinite length
	Arg     uint64  // ints, tag numbers, major-7 argument
	Bytes   []byte  // bstr / tstr content (definite)
	Emb     *M      // embedded item carried inside a bstr (replaces Bytes)
	EmbTail []byte  // bytes following the embedded item inside the bstr
	Items   []*M    // array items
	Keys    []*M    // map keys
	Vals    []*M    // map values
	Child   *M      // tag content
	Count   *uint64 // overrides the declared length / element count
	Verb    []byte  // emitted verbatim instead of everything above
}

// MFromNode converts a parsed node. Byte strings whose content is exactly one
// CBOR map are opened (Emb) when embed is true, so protected headers become
// part of the tree.
func MFromNode(n *Node, embed bool) *M {
	if n.Indef && (n.Major == 2 || n.Major == 3) {
		return &M{Verb: append([]byte{}, n.Raw()...)}
	}
	m := &M{Major: n.Major, W: n.HeadLen - 1, Arg: n.Arg}
	if n.Indef {
		m.W = -1
	}
	switch n.Major {
	case 2, 3:
		m.Bytes = append([]byte{}, n.Content...)
		if embed && n.Major == 2 && len(n.Content) > 0 && n.Content[0]>>5 == 5 {
			if inner, err := Parse(n.Content); err == nil {
				m.Emb = MFromNode(inner, embed)
			}
		}
	case 4:
		for _, c := range n.Items {
			m.Items = append(m.Items, MFromNode(c, embed))
		}
	case 5:
		for i := range n.Keys {
			m.Keys = append(m.Keys, MFromNode(n.Keys[i], embed))
			m.Vals = append(m.Vals, MFromNode(n.Vals[i], embed))
		}
	case 6:
		m.Child = MFromNode(n.Child, embed)
	}
	return m
}

// MParse parses b into a mutable tree.
func MParse(b []byte, embed bool) (*M, error) {
	n, err := Parse(b)
	if err != nil {
		return nil, err
	}
	return MFromNode(n, embed), nil
}

// MFromVal builds a tree with deterministic encoding choices from a value.
func MFromVal(v Val) *M {
	m, _ := MParse(Encode(v, nil), false)
	return m
}

func widthFor(arg uint64, w int) int {
	mw := minWidth(arg)
	if w < mw {
		return mw
	}
	switch w {
	case 0, 1, 2, 4, 8:
		return w
	}
	return mw
}

// Enc encodes the tree.
func (m *M) Enc() []byte {
	if m.Verb != nil {
		return append([]byte{}, m.Verb...)
	}
	hd := func(arg uint64) []byte {
		if m.Count != nil {
			arg = *m.Count
		}
		if m.W < 0 {
			return []byte{m.Major<<5 | 31}
		}
		return Head(m.Major, arg, widthFor(arg, m.W))
	}
	switch m.Major {
	case 0, 1:
		return Head(m.Major, m.Arg, widthFor(m.Arg, m.W))
	case 2, 3:
		content := m.Bytes
		if m.Emb != nil {
			content = append(m.Emb.Enc(), m.EmbTail...)
		}
		if m.W < 0 {
			// one definite chunk
			o := []byte{m.Major<<5 | 31}
			o = append(o, Head(m.Major, uint64(len(content)), minWidth(uint64(len(content))))...)
			o = append(o, content...)
			return append(o, 0xff)
		}
		return append(hd(uint64(len(content))), content...)
	case 4:
		o := hd(uint64(len(m.Items)))
		for _, c := range m.Items {
			o = append(o, c.Enc()...)
		}
		if m.W < 0 {
			o = append(o, 0xff)
		}
		return o
	case 5:
		o := hd(uint64(len(m.Keys)))
		for i := range m.Keys {
			o = append(o, m.Keys[i].Enc()...)
			o = append(o, m.Vals[i].Enc()...)
		}
		if m.W < 0 {
			o = append(o, 0xff)
		}
		return o
	case 6:
		return append(Head(6, m.Arg, widthFor(m.Arg, m.W)), m.Child.Enc()...)
	}
	// major 7
	switch m.W {
	case 0:
		return []byte{0xe0 | byte(m.Arg&0x1f)}
	case 1:
		return []byte{0xf8, byte(m.Arg)}
	case 2:
		return []byte{0xf9, byte(m.Arg >> 8), byte(m.Arg)}
	case 4:
		return Head(7, m.Arg, 4)
	}
	return Head(7, m.Arg, 8)
}

// MSlot is a place in the tree where an item hangs: Get/Set access it.
type MSlot struct {
	Path   string
	Parent *M
	Role   byte // 'r' root, 'i' array item, 'k' map key, 'v' map value, 't' tag content, 'e' embedded
	Idx    int
	Depth  int
	root   **M
}

// Get returns the item in the slot.
func (s MSlot) Get() *M {
	switch s.Role {
	case 'r':
		return *s.root
	case 'i':
		return s.Parent.Items[s.Idx]
	case 'k':
		return s.Parent.Keys[s.Idx]
	case 'v':
		return s.Parent.Vals[s.Idx]
	case 't':
		return s.Parent.Child
	}
	return s.Parent.Emb
}

// Set replaces the item in the slot.
func (s MSlot) Set(n *M) {
	switch s.Role {
	case 'r':
		*s.root = n
	case 'i':
		s.Parent.Items[s.Idx] = n
	case 'k':
		s.Parent.Keys[s.Idx] = n
	case 'v':
		s.Parent.Vals[s.Idx] = n
	case 't':
		s.Parent.Child = n
	default:
		s.Parent.Emb = n
	}
}

// MSlots lists every slot of the tree rooted at *root in document order.
func MSlots(root **M) []MSlot {
	var out []MSlot
	var walk func(s MSlot)
	walk = func(s MSlot) {
		out = append(out, s)
		m := s.Get()
		if m == nil || m.Verb != nil {
			return
		}
		for i := range m.Items {
			walk(MSlot{Path: s.Path + "/" + itoa(i), Parent: m, Role: 'i', Idx: i, Depth: s.Depth + 1})
		}
		for i := range m.Keys {
			walk(MSlot{Path: s.Path + "/k" + itoa(i), Parent: m, Role: 'k', Idx: i, Depth: s.Depth + 1})
			walk(MSlot{Path: s.Path + "/v" + itoa(i), Parent: m, Role: 'v', Idx: i, Depth: s.Depth + 1})
		}
		if m.Child != nil {
			walk(MSlot{Path: s.Path + "/t", Parent: m, Role: 't', Depth: s.Depth + 1})
		}
		if m.Emb != nil {
			walk(MSlot{Path: s.Path + "/e", Parent: m, Role: 'e', Depth: s.Depth + 1})
		}
	}
	walk(MSlot{Path: "", Role: 'r', root: root})
	return out
}

func itoa(i int) string {
	if i == 0 {
		return "0"
	}
	var b []byte
	for i > 0 {
		b = append([]byte{byte('0' + i%10)}, b...)
		i /= 10
	}
	return string(b)
}

// Clone deep-copies the tree.
func (m *M) Clone() *M {
	if m == nil {
		return nil
	}
	o := *m
	o.Bytes = append([]byte(nil), m.Bytes...)
	if m.Bytes != nil && o.Bytes == nil {
		o.Bytes = []byte{}
	}
	o.EmbTail = append([]byte(nil), m.EmbTail...)
	if m.Verb != nil {
		o.Verb = append([]byte{}, m.Verb...)
	}
	o.Emb = m.Emb.Clone()
	o.Child = m.Child.Clone()
	if m.Count != nil {
		c := *m.Count
		o.Count = &c
	}
	o.Items, o.Keys, o.Vals = nil, nil, nil
	for _, c := range m.Items {
		o.Items = append(o.Items, c.Clone())
	}
	for i := range m.Keys {
		o.Keys = append(o.Keys, m.Keys[i].Clone())
		o.Vals = append(o.Vals, m.Vals[i].Clone())
	}
	return &o
}

// StripTag removes every tag with the given number from the tree (the tag's
// content takes its place), also inside embedded items, and reports how many
// were removed.
func StripTag(root **M, tag uint64) int {
	n := 0
	for {
		found := false
		for _, s := range MSlots(root) {
			x := s.Get()
			if x != nil && x.Verb == nil && x.Major == 6 && x.Arg == tag && x.Child != nil {
				s.Set(x.Child)
				n++
				found = true
				break
			}
		}
		if !found {
			return n
		}
	}
}

// StripAllTags removes every tag (any number) from the tree, also inside
// embedded items, and reports how many were removed.
func StripAllTags(root **M) int {
	n := 0
	for {
		found := false
		for _, s := range MSlots(root) {
			x := s.Get()
			if x != nil && x.Verb == nil && x.Major == 6 && x.Child != nil {
				s.Set(x.Child)
				n++
				found = true
				break
			}
		}
		if !found {
			return n
		}
	}
}
