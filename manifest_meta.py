"""Per-property wording for MANIFEST.json."""

TRUST = "Trusted: Go crypto/*, math/big, reflect, rapid v1.3.0 and the harness' reference CBOR/COSE code (independent of go-cose and fxamacker/cbor). Holds only for the explored cases."

META = {
    "C07": {
        "text": "Property-based exploration: thousands of conforming messages per run in randomly chosen valid encodings, signed by an independent reference implementation, must be accepted and verify (all layers incl. nested countersignatures). Exploration is the right level: the property quantifies over an unbounded family of encoder choices that can only be sampled.",
        "note": TRUST,
        "technique": "property-based testing (rapid): reference peer-encoder + reference signer vs. library decoder/verifier",
    },
}

META["C08"] = {
    "text": "Property-based exploration with an exact byte oracle: the library's encoding of generated in-memory messages/headers must equal the reference deterministic encoder's output for the same abstract value (hence independent of map iteration and insertion order), be canonical, carry the protected bytes that were signed, and be closed under the decoder. Exploration is the right level for a for-all-values statement with a cheap executable oracle.",
    "note": TRUST + " NaN/Inf float values are excluded where bytes are compared (the CBOR library re-encodes them as float16, a documented limit).",
    "technique": "property-based testing (rapid): differential against an independent deterministic CBOR encoder + round-trip closure",
}
META["C02"] = {
    "text": "Property-based exploration with an exact byte oracle: recording Signer/Verifier implementations capture ToBeSigned for constructed, decoded (any peer encoding) and raw-header messages; it must equal the Sig_structure built by the independent reference from the abstract message or from the received wire bytes. Self-consistent deviations that round-trip tests cannot see are visible because the oracle is independent.",
    "note": TRUST,
    "technique": "property-based testing (rapid): spy signer/verifier vs. reference Sig_structure builder; metamorphic tag/external/unprotected variation",
}

META["C01"] = {
    "text": "Property-based exploration of the sign->verify and sign->encode->decode->verify round trips over every structure kind, algorithm and layer, with an independent reference verifier confirming that 'verifies' is not mere self-consistency. Exploration is the right level: the statement quantifies over an unbounded data model that can only be sampled; the generator forces the boundary classes and the driver refuses to pass when a required class is empty.",
    "note": TRUST,
    "technique": "property-based testing (rapid): round-trip oracle + independent reference verifier on the wire bytes",
}

META["C05"] = {
    "text": "Structure-aware mutation testing plus coverage-guided fuzzing against an independent well-formedness judge: every input any of the seven decoders accepts must be well-formed COSE of that decoder's kind as the property statement defines it. Exploration is the right level for a statement over all byte strings; the mutators are built to put every clause of the statement (each rejection rule, each tree depth) to the test and the driver refuses to pass when a clause class is empty.",
    "note": TRUST + " The reference judge is never stricter than the statement (see DESIGN.md C05 'S'). Known findings F6 (NaN duplicate keys) and F9 (tag 55799 stripped inside protected headers) are listed in known-findings.txt and excluded by root-cause key.",
    "technique": "property-based testing (rapid) with CBOR-tree mutators + native go fuzzing; oracle: independent RFC 9052 well-formedness judge",
}
META["C06"] = {
    "text": "Robustness exploration: mutated messages, headers and keys, random bytes and pathological nestings are fed to all nine decoding entry points and, when decoded, through every follow-up operation, under recover and a deadline. Exploration (property-based + coverage-guided fuzzing) is the natural level for 'never panics on any input'.",
    "note": TRUST + " Finds only panics and slowness on inputs the generators and the fuzzer reach.",
    "technique": "property-based testing (rapid) with structure-aware mutators + native go fuzzing; oracle: no panic / deadline",
}

META["C03"] = {
    "text": "Differential verdict testing: for every decodable mutant of a validly signed message the library's Verify verdict must equal the verdict of an independent verifier that recomputes the RFC structures from the received bytes; accepting an invalid signature and rejecting a valid one are both failures. Exploration is the right level for an iff over all reachable wire messages; classes of attack (field edits, signature re-spellings, key/alg/external changes, re-tagging, transplants) are forced by the generator.",
    "note": TRUST + " Unforgeability of the primitives is assumed.",
    "technique": "property-based testing (rapid) with structure-aware mutation + rapid.MakeFuzz under go fuzzing; oracle: differential against an independent reference verifier",
}

META["C04"] = {
    "text": "Exhaustive enumeration of a finite model grid (about 118 000 cells) with spy signers/verifiers that record whether the key was invoked and on which bytes, plus property-based random embedding of the alg cell in large generated headers. The model is the property statement itself; enumeration is the right level because the decision depends only on a small product of discrete factors (structure, origin, operation, alg value kind and Go spelling, external-data class).",
    "note": TRUST + " Known finding F10 (RawProtected-only headers: alg in the raw bytes is not consulted) is listed in known-findings.txt.",
    "technique": "exhaustive grid enumeration + property-based testing (rapid); oracle: executable model of the statement with spy keys",
}

META["C13"] = {
    "text": "Exhaustive enumeration of the header-rule grid (about 170 000 cells, each evaluated on the encode side under every Go integer spelling and on the decode side) plus property-based random multi-parameter headers; three-way comparison of encode verdict, decode verdict and an independent RFC 9052 section 3.1 judge. Enumeration is right because the rules are a finite table over (label, value kind, bucket, context, spelling).",
    "note": TRUST,
    "technique": "exhaustive grid enumeration + property-based testing (rapid); oracle: encode/decode differential and reference RFC 9052 3.1 rules",
}

META["C09"] = {
    "text": "Property-based exploration of decode/encode histories with an exact byte prediction computed independently from the input (reference parser), signature re-verification after every history, and a fixpoint oracle for the canonical form obtained after discarding raw bytes. Exploration is the right level: the statement quantifies over all accepted encodings and any number of cycles.",
    "note": TRUST + " Known findings F11 (bignum header value beyond int64) and F15 (tag 0/1 map key colliding with an untagged key): after the caller discards raw bytes the re-encoding is undecodable; listed in known-findings.txt.",
    "technique": "property-based testing (rapid) over operation histories + rapid.MakeFuzz; oracle: byte-exact prediction from the reference parser, round-trip fixpoint, reference-signed signatures still verifying",
}

META["C19"] = {
    "text": "Model-based exploration of decode histories on one reused destination per decoder, with a deep memory dump as the observation: history-freedom (same as a fresh decode), atomicity (failed decode leaves every byte, including slice capacity, untouched) and no aliasing with input or output buffers. Exploration over generated histories is the right level for a for-all-sequences statement.",
    "note": TRUST,
    "technique": "property-based testing (rapid) over operation histories; oracle: reflect-based deep snapshot equality against a fresh decode / the pre-state",
}

META["C10"] = {
    "text": "Property-based exploration with spy keys and an independent RFC 9338 structure builder working from the wire bytes: exact ToBeSigned bytes for new and existing countersignatures over decoded parents of all four kinds, differential and model verdicts for the binding of a real countersignature after each kind of change, and a completely enumerated refusal table. Exploration is the right level for the parent/encoding/external-data space; the refusal table is finite and enumerated.",
    "note": TRUST,
    "technique": "property-based testing (rapid) with recording signer/verifier vs reference Countersign_structure; differential + metamorphic binding verdicts; enumerated refusal table",
}

META["C11"] = {
    "text": "Exhaustive enumeration of the finite combination table (bad-signature subsets x verifier count x verifier order x origin, n up to 5 / 6; signer counts and failing positions on the sign side) against an independent per-slot reference verdict and the positional model, plus property-based random multi-signer messages. Enumeration is right because an index mix-up, early return or off-by-one shows only at specific (n, subset, position) combinations, all of which are small enough to list.",
    "note": TRUST,
    "technique": "exhaustive table enumeration + property-based testing (rapid); oracle: positional model cross-checked with an independent reference verifier",
}

META["C12"] = {
    "text": "Property-based exploration of both directions of the hash-envelope API against an independent statement of the envelope rules evaluated on wire bytes: producer closure (whatever SignHashEnvelope emits is conforming, verifies, returns the given values, caller's maps untouched) and consumer soundness (VerifyHashEnvelope returns a message only for conforming, validly signed envelopes built by the reference).",
    "note": TRUST,
    "technique": "property-based testing (rapid) + native go fuzzing of the consumer side (thorough tier); oracle: reference envelope-rule judge on wire bytes + reference signer/verifier + deep-dump immutability of caller inputs",
}

META["C14"] = {
    "text": "Property-based round-trip testing over keys whose rare shapes are forced rather than hoped for: a pre-computed table of scalars whose public coordinates have leading zero bytes (probability 2^-8 / 2^-16 per random key), their negations, short private scalars and Ed25519 keys; the oracle is key equality after the full conversion chain, exact coordinate lengths read back with the reference parser, and signature interoperability with the reference verifier.",
    "note": TRUST + " Known finding F7 (x = 0 points serialised with an empty x) is listed in known-findings.txt.",
    "technique": "property-based testing (rapid) + enumerated table of boundary keys; oracle: round-trip equality, reference parser on the encoded key, reference verifier",
}

META["C15"] = {
    "text": "Exhaustive enumeration of the key-consistency grid (850 500 keys) plus structure-aware mutation and coverage-guided fuzzing of the key decoder, with the statement's clauses as an independent judge over the bytes and functional checks of the signer/verifier gates (signature verifies under the key d*G computed by the harness).",
    "note": TRUST + " Known findings F11 (bignum parameter beyond int64) and F15 (tag 0/1 map key colliding with an untagged key), both making the re-encoding of an accepted key undecodable, are listed in known-findings.txt.",
    "technique": "exhaustive grid enumeration + property-based testing (rapid) with tree mutators + native go fuzzing; oracle: reference COSE_Key rules, encode/decode fixpoint, gate model",
}

META["C16"] = {
    "text": "Property-based testing with constructed boundary cases: (r, s) pairs and complete valid signatures whose halves have leading zero bytes (probability 2^-8 .. 2^-16 per random signature) are built by the harness with math/big, so that both signing paths are compared byte for byte with an independent left-pad and the verifier is offered every alternative spelling and every length around 2n of a signature that is known to be valid.",
    "note": TRUST,
    "technique": "property-based testing (rapid) with harness-constructed ECDSA signatures; oracle: independent fixed-width encoder, crypto/ecdsa ground truth, exhaustive length sweep per case",
}

META["C17"] = {
    "text": "Exhaustive enumeration of the algorithm x key matrix (2214 cells, including RSA moduli fabricated with exact bit lengths around 2048 and invalid / unsupported elliptic points) against the model of the statement, plus property-based testing of the Sign/SignDigest/Verify/VerifyDigest equivalence with the reference verifier. The matrix is finite, so enumeration decides it.",
    "note": TRUST,
    "technique": "exhaustive matrix enumeration + property-based testing (rapid); oracle: model of the statement, reference verifier, cross-hash metamorphic checks",
}

META["C20"] = {
    "text": "Fault enumeration: the space of signer, verifier, crypto.Signer and entropy-source outcomes per call is small and finite for the listed entry points (n <= 4/5), so every fault vector is executed with fault-injecting spies and a cut-off entropy reader, and the consequences listed in the statement are checked after each; random generated messages add header/payload variety.",
    "note": TRUST + " Fault points inside crypto/* other than the entropy reader and the crypto.Signer boundary cannot be injected.",
    "technique": "exhaustive fault-vector enumeration with fault-injecting Signer/Verifier/crypto.Signer/io.Reader + property-based testing (rapid)",
}

META["C18"] = {
    "text": "Property-based exploration in a race-detector build: the deterministic part of the property (every read-only operation leaves every byte of the shared message, headers, key, verifier and signer untouched) is decided by a deep memory snapshot around each single call; the schedule part by running drawn operation plans from up to 32 goroutines on the shared values under the Go race detector and comparing each result with the sequential one. Because the library has no synchronisation, a shared write is a detectable race under any interleaving, which is what makes exploration adequate here.",
    "note": TRUST + " Trusts the Go race detector; the harness does not control the scheduler.",
    "technique": "property-based testing (rapid) in a -race build: deep-snapshot immutability oracle + concurrent-vs-sequential result equality + Go race detector",
}

NOT_APPLICABLE = {}
