"""Per-property wording for MANIFEST.json."""

TRUST = "Trusted: Go crypto/*, math/big, reflect, rapid v1.3.0 and the harness' reference CBOR/COSE code (independent of go-cose and fxamacker/cbor). Holds only for the explored cases."

META = {
    "C07": {
        "text": "Property-based exploration: thousands of conforming messages per run in randomly chosen valid encodings, signed by an independent reference implementation, must be accepted and verify (all layers incl. nested countersignatures). Exploration is the right level: the property quantifies over an unbounded family of encoder choices that can only be sampled.",
        "note": TRUST,
        "technique": "property-based testing (rapid): reference peer-encoder + reference signer vs. library decoder/verifier",
    },
}

NOT_APPLICABLE = {}
