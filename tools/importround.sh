#!/bin/bash
# usage: tools/importround.sh <round-dir under /tmp, e.g. seed13> : copies the delivered variants /tmp/<round>/out/Cnn/<v>/ to seeded/Cnn-<v>/
# (patch.diff, zz_demo_test.go, notes.md); variants that are already imported are left alone. Sensitivity experiments only.
for d in /tmp/$1/out/C*/?; do
  [ -f "$d/patch.diff" ] && [ -f "$d/zz_demo_test.go" ] || continue
  id=$(basename $(dirname $d))-$(basename $d)
  [ -d /verif/seeded/$id ] && continue
  mkdir -p /verif/seeded/$id
  cp $d/patch.diff $d/zz_demo_test.go /verif/seeded/$id/
  [ -f $d/notes.md ] && cp $d/notes.md /verif/seeded/$id/ || echo "(no notes delivered)" > /verif/seeded/$id/notes.md
  echo imported $id
done
