#!/bin/bash
# usage: tools/onepart.sh <seeded-dir-name> <TestName> [rapid.checks] : run ONE test of the harness against a scratch worktree of /repo
# with a seeded change applied (sensitivity experiments only; nothing registered uses this)
set -u
export GOFLAGS=-mod=mod GOPROXY=off GOSUMDB=off GOTOOLCHAIN=local
wt=$(mktemp -d /tmp/onepart.XXXXXX)
git -C /repo worktree add --detach -q "$wt" HEAD || exit 3
trap 'git -C /repo worktree remove --force "$wt" 2>/dev/null; rm -rf "$wt" "$wt.mod" "$wt.sum"' EXIT
(cd "$wt" && git apply "/verif/seeded/$1/patch.diff") || exit 3
sed "s#=> /repo#=> $wt#" /verif/harness/go.mod > "$wt.mod"; cp /verif/harness/go.sum "$wt.sum"
cd /verif/harness && VERIF_DIR=/verif VERIF_REPLAY_DIR=/tmp/onepart-replays go test -tags verif -count=1 -modfile="$wt.mod" -run "^$2\$" ./props -rapid.checks="${3:-2000}" 2>&1 | tail -12
