#!/usr/bin/env python3
"""usage: tools/mkseedprompts.py <round-dir under /tmp, e.g. seed10> <variant letters, e.g. st>
Writes /tmp/<round>/out/Cnn/{PROPERTY.txt,PROMPT.txt} for a property-centric seeding round. Each sub-agent gets the
text of ONE property, the list of ideas already used against it (from seeded/mkmeta.py) and its own scratch
worktree /tmp/<round>/Cnn of /repo - nothing from /verif. (Sensitivity experiments only; no check uses this.)"""
import json, os, re, sys
rnd, (va, vb) = sys.argv[1], sys.argv[2]
src = open('/verif/seeded/mkmeta.py').read()
m = re.search(r'SEEDS = \{.*?\n\}\n', src, re.S)
ns = {}; exec(m.group(0), ns); SEEDS = ns['SEEDS']
props = {}
for l in open('/verif/properties.jsonl'):
    d = json.loads(l); props[d['id']] = d
fprops = {}
for name in os.listdir('/verif/seeded'):
    if re.match(r'^[FGH]\d+-[a-z]$', name):
        fprops[name] = re.findall(r'C\d\d', open(f'/verif/seeded/{name}/notes.md').readline())
focus = open('/verif/tools/seedfocus.txt').read() if os.path.exists('/verif/tools/seedfocus.txt') else ''
for pid in sorted(props):
    out = f'/tmp/{rnd}/out/{pid}'
    os.makedirs(out, exist_ok=True)
    d = props[pid]
    open(out + '/PROPERTY.txt', 'w').write(f"{pid}\n\n{d['statement']}\n")
    used = [f" - {what}  [needs: {needs}]" for k, (what, needs) in SEEDS.items() if k.startswith(pid + '-') or (k in fprops and pid in fprops[k])]
    prompt = f'''You are helping to evaluate a verification effort for the Go library veraison/go-cose (COSE Sign1/Sign/countersignature/COSE_Key, RFC 9052/9338). Your job is to play the part of a developer who introduces a realistic, subtle regression.

You have your own scratch git worktree of the library at /tmp/{rnd}/{pid} (work ONLY there; never touch /repo or /verif and do not read anything under /verif). Write your deliverables to /tmp/{rnd}/out/{pid}/.

The property you must break is in /tmp/{rnd}/out/{pid}/PROPERTY.txt - read it first, then read the library code it is anchored in.

Produce TWO independent changes (variant "{va}" and variant "{vb}", different mechanisms / different code sites) to the library's non-test source such that, for each:
 1. the library still compiles and the complete existing test suite still passes unchanged:
      cd /tmp/{rnd}/{pid} && GOFLAGS=-mod=mod GOPROXY=off GOSUMDB=off GOTOOLCHAIN=local go test -vet=off -count=1 ./...
    (there is no network; nothing can be downloaded; do not edit existing *_test.go files or testdata)
 2. the property is genuinely violated by the changed library (per the property text, not per your own stronger reading);
 3. the violation needs something specific to manifest (a multi-step history, an unusual but legitimate input or Go type, a boundary, a fault at a particular point, an interleaving, two cooperating sites). It must not be exposed by ordinary use (sign a simple message, verify it), and it should look like something a competent maintainer could commit: refactoring slip, optimisation, cleanup, hardening one step too far, new feature, API convenience - not sabotage with magic constants.
 4. you provide a demonstration: a new Go test file (package cose_test or cose, named zz_demo_test.go) with one test whose name starts with TestDemo that FAILS on the changed tree and PASSES on the unchanged tree. Verify both directions yourself (switch with `git diff > /tmp/{rnd}/out/{pid}/my.diff; git checkout -- .; git apply /tmp/{rnd}/out/{pid}/my.diff` - NEVER use `git stash`: the stash is shared between all worktrees of this repository and other people are working in sibling worktrees). If the only symptom is a data-race report, put `//go:build race` on the demo file and say so.

Deliverables, for each variant v in {{{va}, {vb}}}, in /tmp/{rnd}/out/{pid}/<v>/ :
  - patch.diff      : `git diff` of the library change only (must apply with `git apply` to a clean checkout of HEAD; do not include the demo test)
  - zz_demo_test.go : the demonstration test
  - notes.md        : 5-15 lines: what the change does, why it breaks the property, what specific condition is needed for it to manifest, and the exact commands you ran with their outcomes
Leave the worktree clean (git checkout -- . ; remove untracked files) when you are done. If you can only manage one good variant, deliver one and say so. Do not write or read large files. Finish with a short report of what you delivered. If, while reading the code, you notice that the UNCHANGED library already violates the property for some input, say so in your report (with the input) - that is valuable too.

This property has been attacked a great many times already (list below); everything on the list is known to be caught by the verification effort. The point of this exercise is to find what is NOT yet caught. So:
 * do not repeat an idea of the list, a close variation, or the same trigger through another code site;
{focus}
USED UP:
''' + '\n'.join(used) + '\n'
    open(out + '/PROMPT.txt', 'w').write(prompt)
print(len(open(f'/tmp/{rnd}/out/C01/PROMPT.txt').read()))
