#!/bin/bash
# usage: tools/longfuzz.sh <FuzzTarget> <duration e.g. 20m> : one long native fuzz campaign (all cores) of a target of the
# harness, with a fresh fuzz cache; prints the final statistics; exit 1 and the crasher path if the oracle inside fails.
set -u
export GOFLAGS=-mod=mod GOPROXY=off GOSUMDB=off GOTOOLCHAIN=local
here=$(cd "$(dirname "$0")/.." && pwd)
tmp=$(mktemp -d /tmp/longfuzz.XXXXXX)
cd "$here/harness" && go test -c -tags verif -o "$tmp/props.test" ./props || exit 2
cd props && VERIF_DIR="$here" VERIF_REPLAY_DIR="$tmp/replays" "$tmp/props.test" -test.run '^$' -test.fuzz "^$1\$" -test.fuzztime "$2" -test.fuzzcachedir "$tmp/cache" -test.timeout 0 2>&1 | tail -15
rc=${PIPESTATUS[0]}
ls testdata/fuzz/$1 2>/dev/null && { mkdir -p "$here/replays/longfuzz"; mv testdata/fuzz/$1/* "$here/replays/longfuzz/" 2>/dev/null; cp -r "$tmp/replays" "$here/replays/longfuzz/" 2>/dev/null; }
rm -rf "$tmp"
exit $rc
